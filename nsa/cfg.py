"""E4 - statement-level CFG, dominators, simple dataflow, condition atoms.

Node kinds:
  entry, exit (normal return / fall off the end), raise (exceptional exit),
  stmt (simple statement), test (if/while condition; edges 'T'/'F'),
  for (loop head; edges 'iter'/'done'; attribute first=True for the first
  evaluation of the iterator, False for subsequent ones), with (enter),
  with_exit, handler (except clause entry), match.
Exceptional edges ('exc') are added from statements inside a ``try`` body to
its handlers / through its ``finally``; explicit ``raise`` is routed likewise.
``finally`` bodies are duplicated per kind of exit.
"""
import ast
import itertools

from .model import src, walk_no_nested, stmt_targets


class Node:
    __slots__ = ("id", "kind", "ast", "first", "label", "loop")

    def __init__(self, id, kind, node=None, first=None, label=None):
        self.id = id
        self.kind = kind
        self.ast = node
        self.first = first
        self.label = label
        self.loop = None

    @property
    def lineno(self):
        return getattr(self.ast, "lineno", 0) if self.ast is not None else 0

    def text(self):
        if self.kind in ("entry", "exit", "raise"):
            return f"<{self.kind}>"
        if self.kind == "test":
            return f"if {src(self.ast)}"
        if self.kind == "for":
            return f"for {src(self.ast.target)} in {src(self.ast.iter)}"
        if self.kind == "with":
            return "with " + ", ".join(src(i) for i in self.ast.items)
        if self.kind == "with_exit":
            return "<exit with " + ", ".join(src(i.context_expr) for i in self.ast.items) + ">"
        if self.kind == "handler":
            return f"except {src(self.ast.type) if self.ast.type else ''}"
        if self.kind == "match":
            return f"match {src(self.ast.subject)}"
        return " ".join(src(self.ast).split())

    def __repr__(self):
        return f"<N{self.id} {self.kind} L{self.lineno} {self.text()[:50]}>"


class CFG:
    def __init__(self, func):
        self.func = func
        self.nodes = []
        self.succ = {}
        self.pred = {}
        self.entry = self._new("entry")
        self.exit = self._new("exit")
        self.raise_exit = self._new("raise")
        self.stmt_nodes = {}  # id(ast stmt) -> [Node]
        self._frames = []
        body = func.body
        out = self._stmts(body, [(self.entry.id, None)])
        self._connect(out, self.exit.id)

    # ------------------------------------------------------------ building
    def _new(self, kind, node=None, **kw):
        n = Node(len(self.nodes), kind, node, **kw)
        self.nodes.append(n)
        self.succ[n.id] = []
        self.pred[n.id] = []
        if node is not None:
            self.stmt_nodes.setdefault(id(node), []).append(n)
        return n

    def _edge(self, a, b, label=None):
        if (b, label) not in self.succ[a]:
            self.succ[a].append((b, label))
            self.pred[b].append((a, label))

    def _connect(self, preds, b):
        for a, label in preds:
            self._edge(a, b, label)

    def _stmts(self, body, preds):
        for st in body:
            preds = self._stmt(st, preds)
        return preds

    def _route(self, kind, preds, frames=None):
        """Route an abrupt exit (return/break/continue/raise) outward through
        finally / with frames.  Returns nothing; connects to final target."""
        frames = self._frames if frames is None else frames
        i = len(frames) - 1
        while i >= 0:
            fr = frames[i]
            t = fr[0]
            if t == "finally":
                saved = self._frames
                self._frames = frames[:i]
                preds = self._stmts(fr[1], preds)
                self._frames = saved
            elif t == "with":
                n = self._new("with_exit", fr[1])
                self._connect(preds, n.id)
                preds = [(n.id, None)]
            elif t == "loop" and kind in ("break", "continue"):
                if kind == "break":
                    fr[1].extend(preds)
                else:
                    self._connect(preds, fr[2])
                return
            elif t == "except" and kind == "raise":
                catch_all = False
                for h in fr[1]:
                    self._connect([(a, "exc") for a, _ in preds], h.id)
                    ht = h.ast.type
                    if ht is None or (isinstance(ht, ast.Name) and ht.id in ("Exception", "BaseException")):
                        catch_all = True
                if catch_all:
                    return
            i -= 1
        if kind == "return":
            self._connect(preds, self.exit.id)
        elif kind == "raise":
            self._connect([(a, "exc") for a, _ in preds], self.raise_exit.id)
        # break/continue outside loop: syntactically impossible

    def _in_try(self):
        return any(f[0] in ("except", "finally") for f in self._frames)

    def _simple(self, st, preds, kind="stmt"):
        n = self._new(kind, st)
        self._connect(preds, n.id)
        if self._in_try() and kind in ("stmt", "with", "for", "test"):
            self._route("raise", [(n.id, None)])
        return n

    def _stmt(self, st, preds):
        if isinstance(st, ast.If):
            t = self._simple(st.test, preds, "test")
            self.stmt_nodes.setdefault(id(st), []).append(t)
            cv = _const_truth(st.test)
            tp = [] if cv is False else [(t.id, "T")]
            fp = [] if cv is True else [(t.id, "F")]
            out = self._stmts(st.body, tp)
            out2 = self._stmts(st.orelse, fp) if st.orelse else fp
            return out + out2
        if isinstance(st, ast.While):
            t = self._simple(st.test, preds, "test")
            self.stmt_nodes.setdefault(id(st), []).append(t)
            t.loop = st
            cv = _const_truth(st.test)
            breaks = []
            self._frames.append(("loop", breaks, t.id))
            out = self._stmts(st.body, [] if cv is False else [(t.id, "T")])
            self._frames.pop()
            self._connect(out, t.id)
            fp = [] if cv is True else [(t.id, "F")]
            out2 = self._stmts(st.orelse, fp) if st.orelse else fp
            return out2 + breaks
        if isinstance(st, (ast.For, ast.AsyncFor)):
            h1 = self._simple(st, preds, "for")
            h1.first = True
            h2 = self._new("for", st, first=False)
            if self._in_try():
                self._route("raise", [(h2.id, None)])
            breaks = []
            self._frames.append(("loop", breaks, h2.id))
            out = self._stmts(st.body, [(h1.id, "iter"), (h2.id, "iter")])
            self._frames.pop()
            self._connect(out, h2.id)
            fp = [(h1.id, "done"), (h2.id, "done")]
            out2 = self._stmts(st.orelse, fp) if st.orelse else fp
            return out2 + breaks
        if isinstance(st, (ast.With, ast.AsyncWith)):
            n = self._simple(st, preds, "with")
            self._frames.append(("with", st))
            out = self._stmts(st.body, [(n.id, None)])
            self._frames.pop()
            x = self._new("with_exit", st)
            self._connect(out, x.id)
            return [(x.id, None)]
        if isinstance(st, ast.Try) or (hasattr(ast, "TryStar") and isinstance(st, ast.TryStar)):
            handlers = [self._new("handler", h) for h in st.handlers]
            if st.finalbody:
                self._frames.append(("finally", st.finalbody))
            if handlers:
                self._frames.append(("except", handlers))
            out = self._stmts(st.body, preds)
            if handlers:
                self._frames.pop()
            out = self._stmts(st.orelse, out) if st.orelse else out
            for hn in handlers:
                out += self._stmts(hn.ast.body, [(hn.id, None)])
            if st.finalbody:
                self._frames.pop()
                out = self._stmts(st.finalbody, out)
            return out
        if isinstance(st, ast.Return):
            n = self._simple(st, preds)
            self._route("return", [(n.id, None)])
            return []
        if isinstance(st, ast.Raise):
            n = self._new("stmt", st)
            self._connect(preds, n.id)
            self._route("raise", [(n.id, None)])
            return []
        if isinstance(st, ast.Break):
            n = self._simple(st, preds)
            self._route("break", [(n.id, None)])
            return []
        if isinstance(st, ast.Continue):
            n = self._simple(st, preds)
            self._route("continue", [(n.id, None)])
            return []
        if hasattr(ast, "Match") and isinstance(st, ast.Match):
            n = self._simple(st, preds, "match")
            out = []
            wildcard = False
            for c in st.cases:
                out += self._stmts(c.body, [(n.id, "case")])
                if isinstance(c.pattern, ast.MatchAs) and c.pattern.pattern is None and c.guard is None:
                    wildcard = True
            if not wildcard:
                out.append((n.id, "nomatch"))
            return out
        n = self._simple(st, preds)
        return [(n.id, None)]

    # ------------------------------------------------------------ queries
    def nodes_of(self, stmt):
        return self.stmt_nodes.get(id(stmt), [])

    def find(self, pred):
        return [n for n in self.nodes if pred(n)]

    def successors(self, nid, disabled=None):
        for b, label in self.succ[nid]:
            if disabled and (nid, b, label) in disabled:
                continue
            yield b, label

    def reachable(self, start, avoid=(), disabled=None, include_exc=True):
        """Node ids reachable from start (ids or list) without entering `avoid`."""
        if isinstance(start, int):
            start = [start]
        avoid = set(avoid)
        seen = set()
        stack = [s for s in start if s not in avoid]
        while stack:
            a = stack.pop()
            if a in seen:
                continue
            seen.add(a)
            for b, label in self.successors(a, disabled):
                if not include_exc and label == "exc":
                    continue
                if b not in avoid and b not in seen:
                    stack.append(b)
        return seen

    def reachable_after(self, start, avoid=(), disabled=None, include_exc=True):
        """Like reachable, but starts from the successors of `start` (so that a
        loop back to `start` is observed)."""
        nxt = []
        for b, label in self.successors(start, disabled):
            if not include_exc and label == "exc":
                continue
            nxt.append(b)
        return self.reachable(nxt, avoid, disabled, include_exc)

    def path(self, start, goal, avoid=(), disabled=None, include_exc=True, after=False):
        """A shortest path (list of node ids) start->goal avoiding `avoid`, or None."""
        from collections import deque
        avoid = set(avoid)
        prev = {}
        dq = deque()
        if after:
            for b, label in self.successors(start, disabled):
                if (include_exc or label != "exc") and b not in avoid and b not in prev:
                    prev[b] = start
                    dq.append(b)
        else:
            prev[start] = None
            dq.append(start)
        goals = {goal} if isinstance(goal, int) else set(goal)
        while dq:
            a = dq.popleft()
            if a in goals:
                p = [a]
                while prev.get(p[-1]) is not None and (p[-1] != start or len(p) == 1 or after):
                    q = prev[p[-1]]
                    p.append(q)
                    if q == start:
                        break
                return list(reversed(p))
            for b, label in self.successors(a, disabled):
                if not include_exc and label == "exc":
                    continue
                if b in avoid or b in prev:
                    continue
                prev[b] = a
                dq.append(b)
        return None

    def dominators(self, disabled=None, include_exc=True):
        """dict node id -> set of dominator ids (only for nodes reachable from entry)."""
        if not disabled and include_exc and getattr(self, "_dom_cache", None) is not None:
            return self._dom_cache
        reach = self.reachable(self.entry.id, disabled=disabled, include_exc=include_exc)
        order = sorted(reach)
        dom = {n: set(reach) for n in order}
        dom[self.entry.id] = {self.entry.id}
        changed = True
        while changed:
            changed = False
            for n in order:
                if n == self.entry.id:
                    continue
                ps = [a for a, label in self.pred[n] if a in reach
                      and not (disabled and (a, n, label) in disabled)
                      and (include_exc or label != "exc")]
                if not ps:
                    continue
                new = set.intersection(*(dom[p] for p in ps)) | {n}
                if new != dom[n]:
                    dom[n] = new
                    changed = True
        if not disabled and include_exc:
            self._dom_cache = dom
        return dom

    def describe_path(self, p, limit=12):
        if p is None:
            return None
        out = [f"L{self.nodes[i].lineno}:{self.nodes[i].text()[:70]}" for i in p]
        if len(out) > limit:
            out = out[: limit // 2] + ["..."] + out[-limit // 2:]
        return out

    # ------------------------------------------------------------ dataflow
    def node_defs(self, n):
        """Names (str) bound at node n."""
        out = set()
        a = n.ast
        if n.kind == "stmt":
            if isinstance(a, (ast.Assign, ast.AugAssign, ast.AnnAssign)):
                if isinstance(a, ast.AnnAssign) and a.value is None:
                    return out
                for t in stmt_targets(a):
                    if isinstance(t, ast.Name):
                        out.add(t.id)
            elif isinstance(a, (ast.FunctionDef, ast.AsyncFunctionDef, ast.ClassDef)):
                out.add(a.name)
            elif isinstance(a, (ast.Import, ast.ImportFrom)):
                for al in a.names:
                    out.add((al.asname or al.name).split(".")[0])
            for w in _walrus(a):
                out.add(w)
        elif n.kind == "for":
            pass  # bound on the 'iter' edge, see edge_defs
        elif n.kind == "with":
            for t in stmt_targets(a):
                if isinstance(t, ast.Name):
                    out.add(t.id)
        elif n.kind == "handler":
            if a.name:
                out.add(a.name)
        elif n.kind == "test":
            for w in _walrus(a):
                out.add(w)
        return out

    def edge_defs(self, a, label):
        n = self.nodes[a]
        if n.kind == "for" and label == "iter":
            return {t.id for t in stmt_targets(n.ast) if isinstance(t, ast.Name)}
        return set()

    def node_uses(self, n):
        """Name nodes loaded at n (not descending into nested defs' bodies, but
        including their default args / decorators)."""
        a = n.ast
        if a is None:
            return []
        if n.kind == "for":
            roots = [a.iter] if n.first else []
        elif n.kind == "with":
            roots = [i.context_expr for i in a.items]
        elif n.kind == "with_exit":
            roots = []
        elif n.kind == "handler":
            roots = [a.type] if a.type else []
        elif n.kind == "match":
            roots = [a.subject]
        elif isinstance(a, (ast.FunctionDef, ast.AsyncFunctionDef)):
            roots = list(a.decorator_list) + list(a.args.defaults) + [d for d in a.args.kw_defaults if d]
        elif isinstance(a, ast.ClassDef):
            roots = list(a.decorator_list) + list(a.bases)
        else:
            roots = [a]
        out = []
        for r in roots:
            out += free_loads(r)
        return out

    def definitely_assigned(self, initial, disabled=None, include_exc=True, gen=None):
        """Forward must-analysis.  Returns dict node id -> frozenset of names
        definitely bound on entry to the node (None for unreachable nodes).
        `gen(node)` may supply the set of facts generated by a node (default:
        the names it binds)."""
        gen = gen or self.node_defs
        IN = {n: None for n in range(len(self.nodes))}
        IN[self.entry.id] = frozenset(initial)
        work = [self.entry.id]
        while work:
            a = work.pop()
            out_base = IN[a] | gen(self.nodes[a])
            for b, label in self.successors(a, disabled):
                if not include_exc and label == "exc":
                    continue
                # an exceptional edge leaves before the node's own bindings take effect
                o = IN[a] if label == "exc" else out_base | self.edge_defs(a, label)
                new = o if IN[b] is None else IN[b] & o
                if new != IN[b]:
                    IN[b] = new
                    work.append(b)
        return IN

    def reaching_defs(self, params=(), disabled=None):
        """Forward may-analysis: dict node id -> {name: frozenset(def node ids)}.
        Parameter definitions use the entry node id."""
        IN = {n: None for n in range(len(self.nodes))}
        IN[self.entry.id] = {p: frozenset([self.entry.id]) for p in params}
        work = [self.entry.id]
        while work:
            a = work.pop()
            cur = IN[a]
            base = dict(cur)
            for d in self.node_defs(self.nodes[a]):
                base[d] = frozenset([a])
            for b, label in self.successors(a, disabled):
                o = base
                ed = self.edge_defs(a, label)
                if label == "exc":
                    o = {k: (cur.get(k, frozenset()) | base[k]) for k in base}
                if ed:
                    o = dict(o)
                    for d in ed:
                        o[d] = frozenset([a])
                if IN[b] is None:
                    IN[b] = dict(o)
                    work.append(b)
                else:
                    changed = False
                    tgt = IN[b]
                    for k, v in o.items():
                        old = tgt.get(k)
                        if old is None:
                            tgt[k] = v
                            changed = True
                        elif not v <= old:
                            tgt[k] = old | v
                            changed = True
                    if changed:
                        work.append(b)
        return IN


def free_loads(node, bound=frozenset()):
    """Name nodes loaded in `node` that refer to the enclosing function scope:
    comprehension targets are local to their comprehension, lambda / nested
    function bodies are not entered."""
    out = []
    if isinstance(node, ast.Name):
        if isinstance(node.ctx, ast.Load) and node.id not in bound:
            out.append(node)
        return out
    if isinstance(node, (ast.FunctionDef, ast.AsyncFunctionDef, ast.ClassDef, ast.Lambda)):
        return out
    if isinstance(node, (ast.ListComp, ast.SetComp, ast.GeneratorExp, ast.DictComp)):
        b = set(bound)
        for i, g in enumerate(node.generators):
            out += free_loads(g.iter, frozenset(b) if i else bound)
            for t in ast.walk(g.target):
                if isinstance(t, ast.Name):
                    b.add(t.id)
            for c in g.ifs:
                out += free_loads(c, frozenset(b))
        fb = frozenset(b)
        if isinstance(node, ast.DictComp):
            out += free_loads(node.key, fb) + free_loads(node.value, fb)
        else:
            out += free_loads(node.elt, fb)
        return out
    for c in ast.iter_child_nodes(node):
        out += free_loads(c, bound)
    return out


def _walrus(a):
    return [x.target.id for x in walk_no_nested(a, include_self=True)
            if isinstance(x, ast.NamedExpr) and isinstance(x.target, ast.Name)]


def _const_truth(test):
    if isinstance(test, ast.Constant):
        return bool(test.value)
    return None


# --------------------------------------------------------------------- atoms
def assigned_names(func):
    """name -> number of binding occurrences in the function body (own scope)."""
    cnt = {}
    for n in walk_no_nested(func):
        names = []
        if isinstance(n, (ast.Assign, ast.AugAssign, ast.AnnAssign, ast.For, ast.AsyncFor, ast.With, ast.AsyncWith)):
            names = [t.id for t in stmt_targets(n) if isinstance(t, ast.Name)]
        elif isinstance(n, ast.NamedExpr) and isinstance(n.target, ast.Name):
            names = [n.target.id]
        elif isinstance(n, ast.ExceptHandler) and n.name:
            names = [n.name]
        elif isinstance(n, (ast.FunctionDef, ast.AsyncFunctionDef, ast.ClassDef)):
            names = [n.name]
        elif isinstance(n, ast.comprehension):
            names = []
        for x in names:
            cnt[x] = cnt.get(x, 0) + 1
    return cnt


class Atoms:
    """Three-valued evaluation of branch conditions under a valuation of
    *stable* names (parameters never re-bound in the function).

    A stable name x has abstract value in {'none','falsy','truthy'}; opaque
    stable sub-expressions (comparisons / calls over stable names only) are
    boolean atoms keyed by their normalised text."""

    def __init__(self, func, extra_stable=()):
        self.func = func
        a = func.args
        params = [x.arg for x in a.posonlyargs + a.args + a.kwonlyargs]
        cnt = assigned_names(func)
        self.stable = {p for p in params if cnt.get(p, 0) == 0} | set(extra_stable)

    def is_stable_expr(self, e):
        for x in ast.walk(e):
            if isinstance(x, ast.Name) and x.id not in self.stable and x.id not in ("None", "True", "False",
                                                                                   "isinstance", "len", "callable"):
                return False
            if isinstance(x, ast.Call) and not (isinstance(x.func, ast.Name) and x.func.id in ("isinstance", "len", "callable")):
                return False
            if isinstance(x, (ast.Lambda, ast.NamedExpr, ast.Await, ast.Yield)):
                return False
        return True

    def collect(self, test, names, opaque):
        """Collect the stable names / opaque atoms a test depends on."""
        if isinstance(test, ast.BoolOp):
            for v in test.values:
                self.collect(v, names, opaque)
        elif isinstance(test, ast.UnaryOp) and isinstance(test.op, ast.Not):
            self.collect(test.operand, names, opaque)
        elif isinstance(test, ast.Name):
            if test.id in self.stable:
                names.add(test.id)
        elif self._none_cmp(test) is not None:
            nm, _ = self._none_cmp(test)
            if nm in self.stable:
                names.add(nm)
        elif self.is_stable_expr(test):
            opaque.add(src(test))

    @staticmethod
    def _none_cmp(test):
        if isinstance(test, ast.Compare) and len(test.ops) == 1 and isinstance(test.left, ast.Name) \
                and isinstance(test.comparators[0], ast.Constant) and test.comparators[0].value is None:
            if isinstance(test.ops[0], (ast.Is, ast.Eq)):
                return test.left.id, True
            if isinstance(test.ops[0], (ast.IsNot, ast.NotEq)):
                return test.left.id, False
        return None

    def eval(self, test, val):
        """val: dict  name -> 'none'|'falsy'|'truthy'  and  opaque text -> bool.
        Returns True/False/None(unknown)."""
        if isinstance(test, ast.Constant):
            return bool(test.value)
        if isinstance(test, ast.BoolOp):
            vals = [self.eval(v, val) for v in test.values]
            if isinstance(test.op, ast.And):
                if any(v is False for v in vals):
                    return False
                return True if all(v is True for v in vals) else None
            if any(v is True for v in vals):
                return True
            return False if all(v is False for v in vals) else None
        if isinstance(test, ast.UnaryOp) and isinstance(test.op, ast.Not):
            v = self.eval(test.operand, val)
            return None if v is None else (not v)
        if isinstance(test, ast.Name):
            v = val.get(test.id)
            if v is None:
                return None
            return v == "truthy"
        nc = self._none_cmp(test)
        if nc is not None:
            v = val.get(nc[0])
            if v is None:
                return None
            return (v == "none") == nc[1]
        t = src(test)
        if t in val:
            return val[t]
        return None

    def disabled_edges(self, cfg, val):
        dis = set()
        for n in cfg.nodes:
            if n.kind != "test":
                continue
            v = self.eval(n.ast, val)
            if v is None:
                continue
            for b, label in cfg.succ[n.id]:
                if (label == "T" and v is False) or (label == "F" and v is True):
                    dis.add((n.id, b, label))
        return dis

    def valuations(self, cfg, only=None, limit=20000):
        """Enumerate valuations of names/opaque atoms that steer at least one
        test (optionally restricted to `only`)."""
        names, opaque = set(), set()
        for n in cfg.nodes:
            if n.kind == "test":
                self.collect(n.ast, names, opaque)
        if only is not None:
            names &= set(only)
            opaque &= set(only)
        names = sorted(names)
        opaque = sorted(opaque)
        total = (3 ** len(names)) * (2 ** len(opaque))
        if total > limit:
            return None, names, opaque
        vals = []
        for combo in itertools.product(*([("none", "falsy", "truthy")] * len(names) + [(False, True)] * len(opaque))):
            vals.append(dict(zip(names + opaque, combo)))
        return vals, names, opaque
