"""What is claimed per property (read by gen_manifest.py)."""

CLAIMED = {}

TRUST = ("Python's ast module; the hand-written resolver/CFG in /verif/nsa; the argument in DESIGN.md that the "
         "checked structural clause is a necessary condition of the property. The numerical behaviour itself is not decided.")


def claim(pid, technique, text, note, ref):
    CLAIMED[pid] = (technique, text, note, ref)


claim("C07", "typestate/ownership rules over AST+CFG: lock dominates store, single-writer scan, read-only guard dominance, hierarchy-aware isinstance feasibility",
      "Decides the structural conditions under which a field's buffer can change after construction: the lock is "
      "effective for numpy buffers, every constructor path locks before storing, only constructors write the storage "
      "attributes, every AnyArray mutator tests the read-only state, *_rw accessors copy. Holds for all inputs because "
      "it is a statement about every path of the code.", TRUST, "DESIGN.md section 4, C07")


