"""What is claimed per property (read by gen_manifest.py)."""

CLAIMED = {}

TRUST = ("Python's ast module; the hand-written resolver/CFG in /verif/nsa; the argument in DESIGN.md that the "
         "checked structural clause is a necessary condition of the property. The numerical behaviour itself is not decided.")


def claim(pid, technique, text, note, ref):
    CLAIMED[pid] = (technique, text, note, ref)


claim("C07", "typestate/ownership rules over AST+CFG: lock dominates store, single-writer scan, read-only guard dominance, hierarchy-aware isinstance feasibility",
      "Decides the structural conditions under which a field's buffer can change after construction: the lock is "
      "effective for numpy buffers, every constructor path locks before storing, only constructors write the storage "
      "attributes, every AnyArray mutator tests the read-only state, *_rw accessors copy. Holds for all inputs because "
      "it is a statement about every path of the code.", TRUST, "DESIGN.md section 4, C07")



claim("C02", "F-INIT definite attribute assignment over the class hierarchy; must-pass-through (dominance) of the input check in every apply",
      "Decides, for every LinearOperator subclass found in the package (population computed from the class hierarchy), the "
      "structural obligations behind 'outputs live on the declared target / advertised modes are handled / input is checked': "
      "required attributes are assigned on every constructor path and the domain/mode check dominates every use of the input. "
      "The inner-product identity and numerical action are not decided.", TRUST, "DESIGN.md section 4, C02")

claim("C21", "who-may-call scan of randomness sources; CFG pairing (push/pop on every exit); context-manager protocol check; def-use typestate of JAX keys",
      "Decides the randomness discipline that makes a run a function of its seed: generators are only derived from the seed "
      "stack or explicit keys, Context.__exit__ restores the stack on every path and never swallows exceptions, every push has "
      "its pop on every loop/function exit, and the VI driver splits its carried key exactly once per iteration and stores the "
      "unconsumed half. Bit-identity across vmap/lmap/JIT is numerical and not decided.", TRUST, "DESIGN.md section 4, C21")

claim("C24", "file-system effect summary + dominance: temp-file/os.replace protocol, writer/reader agreement, liveness of loop-carried state",
      "Decides that the state file the resume branch reads is only ever replaced atomically by a completely written and closed "
      "temporary file, that the dumped tuple matches the unpacking on load (with the stripped config re-attached), and that "
      "every loop-carried variable is part of the dump and stems from the same update. These hold for every crash point because "
      "they are statements about all paths of the driver.", TRUST, "DESIGN.md section 4, C24")

claim("C25", "file-system effect summary over the call graph of optimize_kl.py: read-set/write-set agreement, commit-marker ordering (reachability within an iteration), atomic-writer protocol, constant evaluation of the file-name strategy",
      "Decides that every file the resume branch reads is written by the iteration the marker names under the same name "
      "template, that no such file is written after the marker within an iteration, that marker/history/sample pickles are "
      "written via temp file + rename, and that file names depend on the iteration index under every accepted save_strategy "
      "(violated for 'latest': known finding).", TRUST, "DESIGN.md section 4, C25")

claim("C27", "definite-assignment dataflow under enumerated valuations of never-rebound option parameters; push/pop pairing on the CFG; dominance of option validation",
      "Decides for optimize_kl and its helpers that no local is used unassigned along any option-consistent path, that the "
      "per-iteration seed sequence is popped on every exit of the iteration (continue, break, return), and that enumerated "
      "options are validated before use. Correctness of the numbers produced by each combination is not decided.", TRUST,
      "DESIGN.md section 4, C27")
