"""What is claimed per property (read by gen_manifest.py)."""

CLAIMED = {}

TRUST = ("Python's ast module; the hand-written resolver/CFG in /verif/nsa; the argument in DESIGN.md that the "
         "checked structural clause is a necessary condition of the property. The numerical behaviour itself is not decided.")


def claim(pid, technique, text, note, ref):
    CLAIMED[pid] = (technique, text, note, ref)


claim("C07", "typestate/ownership rules over AST+CFG: lock dominates store, single-writer scan, read-only guard dominance, hierarchy-aware isinstance feasibility",
      "Decides the structural conditions under which a field's buffer can change after construction: the lock is "
      "effective for numpy buffers, every constructor path locks before storing, only constructors write the storage "
      "attributes, every AnyArray mutator tests the read-only state, *_rw accessors copy, constructors never wrap a library-made view of a caller-owned array, and no method hands out a field built on an instance buffer it later rewrites. Holds for all inputs because it is a statement about every path of the code.", TRUST, "DESIGN.md section 4, C07")



claim("C02", "F-INIT definite attribute assignment over the class hierarchy; dominance of the input check; mode-specialised abstract interpretation of every apply (capability subset of handled modes, mode-typed result domain); alias analysis for stores into the input buffer; accumulate-scatter pairing",
      "Decides, for every LinearOperator subclass found in the package (population computed from the class hierarchy), the "
      "structural obligations behind 'outputs live on the declared target / advertised modes are handled / the adjoint of a gather "
      "sums over duplicates / applying never modifies the input': required attributes are assigned on every constructor path, the "
      "domain/mode check dominates every use of the input, every advertised mode reaches a valued return, locally constructed "
      "results are built on _tgt(mode), no store targets (a view of) the input's buffer, and scatters through repeating indices "
      "accumulate; result buffers allocated in apply() take their dtype from the input, the linear interpolator derives base cell and excess from one floor with corner weights prod|1-c-e|, the outer product's adjoint contracts with the conjugated field, and nested sums are unpacked with XOR-ed sign flags; the sandwich shortcut scales by |f|^2, the JAX linear wrapper's adjoint is the conjugate transpose, and the regridding weights are broadcast over all axes of the array. The inner-product identity in general and the numerical action are not decided.", TRUST, "DESIGN.md section 4, C02")

claim("C21", "who-may-call scan of randomness sources; CFG pairing (push/pop on every exit); context-manager protocol check; def-use typestate of JAX keys",
      "Decides the randomness discipline that makes a run a function of its seed: generators are only derived from the seed "
      "stack or explicit keys, Context.__exit__ restores the stack on every path and never swallows exceptions, every push has "
      "its pop on every loop/function exit, and the VI driver splits its carried key exactly once per iteration and stores the "
      "unconsumed half; keys duplicated for sharding are restored under the same condition, iterations without fresh stochasticity get a NEW seed sequence rebuilt from the previous one's state, a resumed JAX run keeps the loaded key, and the classic driver prepares the seed chain for all iterations from 0 with nothing drawing before the per-iteration push. Bit-identity across vmap/lmap/JIT is numerical and not decided.", TRUST, "DESIGN.md section 4, C21")

claim("C24", "file-system effect summary + dominance: temp-file/os.replace protocol, writer/reader agreement, liveness of loop-carried state",
      "Decides that the state file the resume branch reads is only ever replaced atomically by a completely written and closed "
      "temporary file, that the dumped tuple matches the unpacking on load (with the stripped config re-attached), and that "
      "every loop-carried variable is part of the dump and stems from the same update, and that the driver object keeps no iteration-dependent state outside the checkpoint. These hold for every crash point because they are statements about all paths of the driver.", TRUST, "DESIGN.md section 4, C24")

claim("C25", "file-system effect summary over the call graph of optimize_kl.py: read-set/write-set agreement, commit-marker ordering (reachability within an iteration), atomic-writer protocol, constant evaluation of the file-name strategy",
      "Decides that every file the resume branch reads is written by the iteration the marker names under the same name "
      "template, that no such file is written after the marker within an iteration, that marker/history/sample pickles are "
      "written via temp file + rename, and that file names depend on the iteration index under every accepted save_strategy "
      "(violated for 'latest': known finding), and that the seed chain a resumed run rebuilds is prepared from iteration 0.", TRUST, "DESIGN.md section 4, C25")

claim("C27", "definite-assignment dataflow under enumerated valuations of never-rebound option parameters; push/pop pairing on the CFG; dominance of option validation",
      "Decides for optimize_kl and its helpers that no local is used unassigned along any option-consistent path, that the "
      "per-iteration seed sequence is popped on every exit of the iteration (continue, break, return), and that enumerated "
      "options are validated before use, per-iteration options are evaluated with the loop's own index, output directories are created under the option that enables their writer, every completed iteration is inspected, energies receive the iteration's constants/point estimates/comm, the driver's own writes overwrite, and callback arity comes from inspect.signature. Correctness of the numbers produced by each combination is not decided.", TRUST,
      "DESIGN.md section 4, C27")

claim("C01", "exhaustive constant evaluation of the mode/capability tables against their XOR group law; symbolic extraction of each composite's capability formula",
      "Decides the mode/capability bookkeeping of the operator algebra: all 124+ table entries and the direction selectors are "
      "checked by complete enumeration (exhaustive), and every composite class advertises exactly the capability the property "
      "prescribes (sum: (TIMES|ADJOINT) & all; chain/block: 15 & all over the stored collection; adapter/inversion enabler via "
      "the tables; wrappers = wrapped). Mode-specialised interpretation also decides the dispatch of chain/sum/adapter/diagonal/scaling per mode, the lazy-transformation algebra of DiagonalOperator's simplifier methods (_add/_scale/_combine_*), the |f|^2 scaling shortcut of SandwichOperator.make and the XOR sign rule of nested-sum unpacking. The numerical action of other leaf operators is not decided.",
      TRUST, "DESIGN.md section 4, C01")

claim("C06", "sibling/table comparison of the setattr-generated dunder tables; dominance of the domain-identity check; argument-order tracing along the vdot call chain",
      "Decides that field arithmetic is delegated name-preservingly to the array layer (so a-b can never run __add__), that "
      "operands on different domains are rejected before any computation, and that the first argument of every dot product is "
      "the conjugated one along the whole call chain (invisible to tests on real fields). Later rules decide further shape clauses: var and s_var use the same squared deviation per dtype, dot-product back ends cast an operand only under its own dtype test, the order of a norm reaches numpy on every layer and the multi-field norm is the p-norm of the partial p-norms (two-entry symbolic reading), every return of the contraction helper applies the reduction, and Field.weight writes non-scalar volumes at array axes, not at sub-domain indices; integrate/s_integrate/mean/s_mean are read on a two-pixel symbolic field with general and uniform volumes and equal sum v_i x_i resp. its quotient with sum v_i. The numerical values of volumes and reductions are not decided.", TRUST, "DESIGN.md section 4, C06")

claim("C23", "rank-taint (F-UNIFORM) over reaching definitions, guard extraction for the send/receive roles, protocol-sequence comparison of _send/_recv",
      "Checks the four premises of the deadlock-freedom / partition-independence argument on the source: all tasks execute the same "
      "pair-step sequence (no rank- or data-dependent loop condition or collective), send and receive of a step address each "
      "other and are mutually exclusive, the message sub-protocols match element by element, and both additions combine the "
      "accumulator slot with the partner slot; raw-array payloads are C-contiguous on the sending side of _send and _bcast (truth-table check of bypass guards) and the broadcasting task is the root of its collectives. With the premises, the induction in DESIGN.md gives the property for every task count and interleaving.", TRUST, "DESIGN.md section 4, C23")

claim("C32", "data-dependence shape check (F-SHAPE) of leapfrog_step via reaching definitions",
      "Decides the integrator clause: leapfrog_step is a palindromic kick-drift-kick composition of shears with equal half steps "
      "(each kick reads only the then-current position, the drift only the half-step momentum), hence time-reversible and "
      "volume-preserving for every potential, step size and mass matrix. Further rules decide mass-matrix consistency between momentum draw, kinetic energy and stepper (exact polynomial normal form), the candidate-selection probabilities of the NUTS tree merge (expit / min(1, exp) of the weight difference in the right slot), single consumption of every PRNG key binding (also inside tuples and when returned), log-weights never exponentiated individually, and the HMC accept/reject rule incl. NaN -> reject (where/nan_to_num). Invariance of the target under the full transition is statistical and not decided.", TRUST, "DESIGN.md section 4, C32")

claim("C33", "table check of Vector's dunder bindings and of the operand order of the binary-op factories",
      "Decides that every arithmetic/comparison/unary dunder of the pytree vector is bound to its own operator with forward "
      "variants applying op(lhs, rhs) and reflected variants op(rhs, lhs); that size/dot/vdot/norm reductions map the jnp namesake over the leaves in operand order on ravelled leaves and add up, that the sequential maps move mapped axes to/from axis 0 in moveaxis order and allocate output buffers with the mapped output's dtype, and that stack/unstack act on one and the same axis. Numerical agreement of smap/lmap with vmap is not decided.", TRUST, "DESIGN.md section 4, C33")

claim("C08", "who-may-call scan of the domain constructors; dominance/reaching-definition check of the cache protocol in make(); F-INIT for the hash key attributes",
      "Decides the identity clause: DomainTuple/MultiDomain objects can only come out of make(), which looks up and stores under "
      "the same canonical key, constructs only after a failed lookup and returns what it stored; pickling re-creates through the "
      "factory; every attribute of a domain's hash key is assigned on all constructor paths, never re-assigned and bound to a "
      "hashable canonical value; constructor branches compute hash-key attributes with the same arithmetic; PowerSpace counts all len(bounds)+1 bins and raises on an empty one before caching; volumes/weights of a sub-selection are built from the selected sub-domains only, class-level caches of derived quantities are keyed by every input of the cached value, and LMSpace's unique k-lengths share the bound of the table's m=0 block. The numerical values of volumes and k-length tables are not decided.", TRUST, "DESIGN.md section 4, C08")

claim("C12", "typed freeze table for LikelihoodPartial; structural recognition (after let-inlining) of the jvp/vjp sandwich in LikelihoodWithModel; sibling comparison of LikelihoodSum methods; method-set exhaustiveness",
      "Decides that amending a forward model, adding likelihoods and freezing point estimates preserve the factorisation "
      "identities structurally: every wrapper method delegates to the same-named method of the wrapped likelihood with tangents "
      "pushed forward / results pulled back with the conjugated vjp exactly where the types require, frozen positions are "
      "inserted as positions and as zero tangents, and the base-class defaults encode metric = L after R, R = conj transpose of L, "
      "L = conj vjp of the transformation. For diagonal likelihoods the metric coefficient is the squared left-sqrt coefficient, and for the one-parameter Gaussian/StudentT/Poissonian likelihoods metric = E_d[d^2 energy/dp^2] = left_sqrt^2 = (dT/dp)^2 is decided per entry on terms read from the source (sympy as normaliser). Other likelihoods' Fisher identity is not decided.", TRUST,
      "DESIGN.md section 4, C12")

claim("C14", "status-discipline dominance check over every return of ConjugateGradient.__call__; linear normal form of QuadraticEnergy's constructor branches; def-use check of the CG recurrence",
      "Decides that CG reports CONVERGED only under an exact-zero residual test or as the controller's verdict on the very energy it "
      "returns, that every iteration consults the controller, that the gradient handed to at_with_grad is the recurrence residual of "
      "the step actually taken, and that in both constructor branches of the quadratic energy Ax - gradient = b with the value built "
      "from the same Ax; iteration controllers re-initialise in start() every attribute check() reads or updates, the CG driver never stores into the energy object, and the relative energy criterion divides by max(|E_old|, |E|) without an absolute floor, the stochastic controller's memory is a sliding window of exactly memory_length entries, and InversionEnabler keeps no identity-keyed memo of solutions. That the residual criterion is numerically met is not decided.", TRUST, "DESIGN.md section 4, C14")

claim("C15", "sibling comparison after normalisation: guarded-assignment extraction with where/cond unfolding, mode-free symbolic forward substitution of one regular iteration in both solvers, sign-domain check of the fallback step",
      "Decides that the eager and the compiled CG are the same algorithm: every defining term of the shared state, the complete "
      "state transformer of a regular iteration (with and without residual recomputation), each stopping condition with its verdict, "
      "'first verdict wins', initialisation and defaults agree after normalisation; and that the negative-curvature fallback is a "
      "non-negative multiple of the descent direction. Accuracy on positive definite systems is numerical and not decided.", TRUST,
      "DESIGN.md section 4, C15")

claim("C16", "dominance check of the acceptance guard and status discipline in DescentMinimizer.__call__ (and non-delegating overrides)",
      "Decides that the line-search result becomes the iterate only on the false edge of new.value > old.value, whose true edge returns "
      "ERROR with the old energy, that every return carries a controller verdict, ERROR or a guarded CONVERGED, that every successful return of the line search is dominated by the sufficient-decrease and the strong curvature test evaluated at the returned step, and that the VL-BFGS Gram matrices are written with indices typed by the vector list they belong to, and that L_BFGS is the two-loop recursion with the initial scaling taken from the newest pair (reaching definitions). Equality of the two L-BFGS directions is numerical and not decided.", TRUST, "DESIGN.md section 4, C16")

claim("C17", "dominance check of the no-uphill acceptance in both Newton-CG variants; sibling comparison eager vs compiled (+ line search); sign check of trial point and CG fallback",
      "Decides for the two Newton-CG minimisers that a new point is accepted only after new_energy <= current energy (eager: guard "
      "dominance; compiled: success flag only under that comparison, copies only on success), that eager and compiled variants agree "
      "on CG tolerances, trial point, halving, reset, abort and convergence conditions, and that under negative curvature the step "
      "is along the negative gradient; the compiled line search's net update of the step scaling per trial is decided on exact linear forms, and the trust-region sub-problem takes, at negative curvature, the boundary intersection with the lower model value. The trust-region minimiser's no-uphill clause depends on a numerical fact and is not decided.",
      TRUST, "DESIGN.md section 4, C17")

claim("C22", "rank-taint over reaching definitions + name/receiver-resolved collective summaries over the call graph of the four MPI modules; branch-symmetry comparison of collective sequences; who-may-call scan for MPI reductions; structural check of per-sample seeding",
      "Decides the SPMD structure behind task-count independence: no collective (direct or via a callee) is control dependent on "
      "the rank unless both arms perform the same collectives, loops that contain collectives have rank-independent bounds, sums "
      "across tasks only go through the deterministic pairwise reducer, and every per-sample draw happens inside a context seeded "
      "by the sample's global index (mirrored pairs share the duplicated seed); per-sample results never read how many samples the task has already produced, energies in the driver loop receive the iteration's constants/point estimates/comm on both paths, and iteration controllers shared across samples are re-initialised by start(). Actual multi-process runs are not executed.", TRUST,
      "DESIGN.md section 4, C22")

claim("C26", "writer template vs reader regular expression (regex AST inclusion), index-extraction and reconstruction templates, dominance of the stale-sample barrier, loop-variable roles",
      "Decides the naming and truncation protocol of persisted sample lists: every name the writer can produce is accepted by the "
      "reader's pattern and yields the writer's index, the mean file and leftover temporary files are rejected, the file of index "
      "n_samples is removed/refused before the first write and the reader takes the longest run from 0, files are named by the global "
      "and filled by the local index; a task's first global index is the sum of the lower ranks' actual counts, nothing on the load path is memoised, and `op` is applied to single samples only (never to an average). StatCalculator's arithmetic and HDF5 layout are not decided.", TRUST, "DESIGN.md section 4, C26")

claim("C09", "table check: values the configuration writer can store vs literals and polarity each Hartley back end reads; mode-specialised interpretation of the FFT/Hartley apply methods",
      "Decides that the three Hartley implementations (ducc, SciPy, JAX) read the same configuration key with literals the writer "
      "can actually produce and with the same polarity, and that FFT/Hartley operators take the volume factor from the domain for "
      "TIMES/ADJOINT and from the target for the inverse modes, build the result on _tgt(mode) and pick the direction from the "
      "input's harmonic flag; the configuration dict is shared by identity, every back end forwards its axes argument to each transform call, and the correlated-field maker transforms exactly the axes a sub-grid occupies; the convention is read by the transforming function at call time (no override parameter, no copy on an operator), the zero-width shortcut of the smoothing operator is an exact test, and no back end normalises with the whole array's element count. Numerical agreement of the transforms and SHT normalisation are not decided.", TRUST, "DESIGN.md section 4, C09")

claim("C10", "gather/scatter pairing check (same index attribute, same axis, accumulating scatter); def-use (alias-only) check of create_power_operator",
      "Decides that the distributor gathers and scatters through the same index on the same axis with an accumulating scatter (so "
      "the adjoint sums over each bin), that the two directions land on target/domain respectively, and that a power operator is "
      "the diagonal of exactly the distributed spectrum field; power_analyze analyses re^2+im^2 (or the pair with phase information, only for complex input), callable/Field discrimination of spectra has no dead branch, the bin index is stored without a narrowing cast, and the bin-volume division (Field.weight) addresses array axes. The binning arithmetic itself is not decided.", TRUST,
      "DESIGN.md section 4, C10")

claim("C11", "must-pass-through (dominance) of add_metric on every return reachable with want_metric, over the computed population of LikelihoodEnergyOperator subclasses",
      "Decides that every classic likelihood energy that computes its value locally attaches a metric on every path on which one is "
      "requested (and checks its input first), that the standard Hamiltonian attaches SamplingEnabler(likelihood metric, prior "
      "metric, controller) exactly when wanted, and that operator sums carry a metric iff all summands do. Per pixel and on terms read from the source (sympy as normaliser) it also decides, for the Poisson, Bernoulli, categorical, inverse-gamma, Student-t and special-gamma energies, that (dT/dx)^2 = E_d[d^2E/dx^2] and - with the constructor state resolved along every __init__ path - that apply() is the documented -log pdf up to a constant; integer data never enters integer arithmetic; the |f|^2 shortcut of SandwichOperator.make and the flattening of likelihood sums are decided structurally. Gaussian energies with general covariance operators and model compositions are not decided.", TRUST, "DESIGN.md section 4, C11")

claim("C13", "dominance of the refusal guards before every white-noise draw / square root; finite enumeration (from_inverse x stored transformation) of the inverse bookkeeping by mode-specialised interpretation",
      "Decides that operators which cannot represent a covariance refuse to sample (missing dtype, non-positive factor/diagonal, "
      "inverse of a sum, sandwich without invertible bun) before anything is drawn, and that the inverse flag is threaded exactly: "
      "adapters flip it iff the inverse bit is set, the diagonal divides by sqrt(diag) iff from_inverse XOR (trafo>=2), sandwich "
      "samples are bun^H(cheese sample) / bun^-1(cheese inverse sample); SumOperator.draw_sample combines the summands' samples with adding combinators only; SamplingEnabler solves (L+P) x = P s + n with s from the inverse prior metric and n from the likelihood metric (exact linear normal form), and the sandwich shortcut scales by |f|^2. The covariance of the samples is statistical and not decided.",
      TRUST, "DESIGN.md section 4, C13")

claim("C03", "sibling term comparison of the point-wise table (value column) and rule-based symbolic differentiation with sympy as term normaliser (derivative column); def-use check of the metric request through the combinators",
      "Decides that for every entry of the point-wise table the (value, derivative) helper returns the same value term as plain "
      "evaluation and - for all smooth entries and the smooth pieces of softplus/sinc - a derivative term equal to the symbolic "
      "derivative; and that want_metric is threaded through Linearization.new/trivial_jac/add_metric/make_var, products and sums. "
      "The JAX wrappers' adjoint Jacobian is the conjugate transpose (conjugate in, conjugate out), and MultiLinearEinsum looks factors up with the same precedence in value and Jacobian; scalar-affine arithmetic on a Linearization keeps the metric on every path reachable with a scalar operand, sum/integrate/vdot pair the value method with its operator form on the Jacobian, and MultiField's plain and (value, derivative) point-wise paths prepare extra arguments per entry. Decided on expression trees taken from the source; NIFTy is not executed. Jacobians of general compositions are not decided.",
      TRUST + " sympy 1.14 (from the offline wheelhouse) as algebraic normaliser for R03.2.", "DESIGN.md section 4, C03")

claim("C18", "structural checks of the mirror / zero-residual clauses (same-index flag, same residual for both pair members, negation in the JAX samplers, zero insertion for point estimates); role-based assembly check of the linear-residual solve with an exact linear normal form over (L, P, draws)",
      "Decides only the structural clauses of the property: mirrored samples are built as exact negatives of the same stored residual "
      "(classic: mean.flexible_addsub(residual[i], flag[i]); JAX: concatenate_zip(s, -s) / negation of the odd rows) and point-estimated "
      "parameters receive zero residuals on every return path; and the assembly clause behind 'covariance = inverse metric': linear "
      "residuals are M^-1 applied to a draw with covariance M = L + P built from independent draws (nifty.re: one key split, likelihood "
      "draw through left_sqrt_metric at the sampling position plus a standard-normal draw of the liquid shape, CG with likelihood.metric "
      "+ identity at the same position, failure raises; classic SamplingEnabler: s ~ P^-1, n ~ L, (L+P) x = P s + n started at s with "
      "the matching initial gradient, exact linear normal form over a straight-line reading of both start variants); the point-estimate split reaches every helper (19 call sites), and the transformation's sampling dtype reaches the white-noise draw of geometric sampling. That the draws themselves have the stated covariances and that CG "
      "converges is numerical/statistical and not decided.", TRUST, "DESIGN.md section 9.6")

claim("C19", "def-use / delegation checks of SampledKLEnergyClass, ResidualSampleList.at, Samples.at, _kl_vg/_kl_met and the typed insert/remove table of kl_minimize",
      "Decides only the structural clauses: value and gradient come from one averaging pass of the Hamiltonian (constants inserted) "
      "over the samples, the metric from the average of the Hamiltonian's metric with want_metric=True, both divided by the global "
      "sample count; the optimised position excludes the constant keys; moving the expansion point passes residuals and sign flags on "
      "unchanged; in nifty.re the standard Hamiltonian is likelihood + 1/2<x,x> (metric + identity), _kl_vg/_kl_met map "
      "value_and_grad / metric over pos + residual along axis 0 and reduce with the mean over that axis, and kl_minimize with constants "
      "optimises only the liquid part (typed insert/remove table for value_and_grad, metric and result), with frozen and liquid leaves split by one partition pass in pytree leaf order. Numerical equality with "
      "sample averages is not decided.", TRUST, "DESIGN.md section 9.6")

claim("C04", "def-use / dominance check of EnergyAdapter's constant handling; per-pixel term identity of the hand-written energy specialisation; sibling/structure rules on the combinators' specialisation methods",
      "Decides only the clause 'energies minimised with constant keys never see gradient components for those keys': with constants "
      "the adapter specialises the operator to the constant part of the full position, optimises position.extract_by_keys(domain keys "
      "minus constants), stores and evaluates the specialised operator and keeps it in at(); the sampled KL optimises the reduced "
      "expansion point; the one energy with a hand-written specialisation (VariableCovarianceGaussianEnergy) equals, per pixel and for "
      "real and complex sampling, the full energy with the constant inserted (terms read from both classes, sympy as normaliser); "
      "_OpProd/_OpSum/SumOperator hand each constituent the constants of its own domain and rebuild the same combinator in order, "
      "chains walk from the input side threading the constant output, the generic fallback inserts the constants in front of the "
      "unchanged operator; a specialised StandardHamiltonian keeps the prior energy of the constant keys (stored offset, per-pixel term check), the specialised gamma energy has the Fisher metric, and a constant energy delivers a null metric when one is wanted. Equality of value/Jacobian/metric for arbitrary operator expressions is numerical and not decided.", TRUST,
      "DESIGN.md section 9.6")

claim("C30", "term comparison: function bodies of the closed-form transforms read into symbolic terms (Phi/PhiInv abstract) and compared with a frozen table of textbook quantile and moment formulas, sympy as normaliser; structural check of the tabulated quantile compositions",
      "Decides only the closed-form clause of the property: the nifty.re normal / log-normal / uniform / Laplace transforms are "
      "the documented quantile maps at Phi(xi) and increasing, each provided inverse composed with its transform is the identity, "
      "lognormal_moments (both APIs) reproduces mean and std, the classic UniformOperator/LaplaceOperator values, Jacobians and "
      "inverses agree with the quantile formulas, the interpolated operators tabulate <dist>.ppf(norm cdf(x), shape) with the "
      "documented scaling, the (mode, mean, var) <-> (alpha, q, theta) conversions are mutually consistent (read order-independently), the interpolation table reaches xmax, and the moment conversions do not modify their arguments. The accuracy of "
      "the interpolation tables and of scipy/jax special functions is numerical and not decided.",
      TRUST + " sympy 1.14 (offline wheelhouse) as algebraic normaliser; the quantile/moment table is the checker's own (textbook formulas).",
      "DESIGN.md section 9.7")

claim("C36", "def-use tracing from the reported names to the accumulated terms; term comparison of the per-sample statistics with the documented formulas",
      "Decides only the formula clause: in nifty.re the per-leaf statistics are sum(x)/size and vdot(x,x).real/ndof with ndof = size "
      "(real) or 2*size (complex), mapped over the samples and reported as [mean, std] in this order; in nifty.cl.extra.minisanity the "
      "values reported as redchisq / scmean / ndof / nigndof are nansum(|x|^2)/n, nansum(x)/n, n = size - #NaN - #zero and #NaN + #zero "
      "of the normalised residual (slot 0) and of the sample itself (slot 1); the divisions by the entry count are guarded against 0/0, the stored per-sample lambdas capture no variable that is re-assigned later, and nifty.re applies `func` on every input path. The sample averaging (StatCalculator, jnp.mean/std), the "
      "printed table and the agreement of the two implementations (which differ by design in what they ignore) are not decided.",
      TRUST, "DESIGN.md section 9.8")

claim("C29", "abstract interpretation of the row-wise array updates into a symbolic one-step transition; term comparison (semigroup consistency, closed-form covariance) with sympy as normaliser; structural check of the generic recurrence",
      "Decides only the one-step clause: the transition (mean map F(dt), noise map G(dt)) of the Wiener, Ornstein-Uhlenbeck and "
      "integrated Wiener process is extracted from the code as terms; two steps dt1, dt2 equal one step dt1+dt2 in mean map and "
      "covariance (necessary for exactness on every, also non-uniform, grid), the Wiener and integrated-Wiener step covariances equal "
      "the closed form of the documented SDE (with asperity), the OU stationary variance matches its default initial state, the generic "
      "generator implements res_(i+1) = drift_i res_i + diffamp_i xi_i (or, written as a parallel prefix, composes the affine maps in the order its offset term implies), the wrappers/constructors hand their terms over in order, and state priors draw one excitation per validated state component. "
      "Sampled covariances over whole grids, time-varying parameters beyond this structure and numerical accuracy are not decided.",
      TRUST + " sympy 1.14 (offline wheelhouse) as algebraic normaliser; the SDE covariance table is the checker's own (textbook formulas).",
      "DESIGN.md section 9.8")

claim("C35", "structural rules over AST/CFG with mode specialisation: index-set pairing of gather/scatter, coverage of uninitialised allocations, sibling comparison of forward/adjoint (index, weight) pairs, term inlining of the interpolation weights",
      "Decides only the structural clause: MaskOperator selects the negation of the flags, gathers/scatters through that one index "
      "and zeroes the complement of an uninitialised result; FieldZeroPadder pads/crops the leading block (or the two central "
      "halves, same slices in both directions, the adjoint accumulating the overlap); RegriddingOperator uses the same (index, weight) "
      "pairs forward and adjoint with weights (1-w, w) and b clamped to shape-2; LinearInterpolator builds its matrix from ONE floor "
      "(base cell and excess), corner weights prod|1-c-e|, wrapped flat column index of base+corner, forward matvec / adjoint rmatvec; the regridding source coordinate is i*shape/new_shape exactly; the sampling line of sight uses segment midpoints with weight length/n. "
      "Line-of-sight integrals, non-uniform FFTs and all numerical accuracy are not decided.", TRUST, "DESIGN.md section 9.8")

claim("C31", "per-dimension symbolic reading of the index maps and level recurrences (broadcast subscripts stripped), nesting identities decided on terms with sympy and a floor rule for 0 <= c < split; structural delegation check for the flat grid",
      "Decides only the nesting clause of the dense periodic and open grids and the delegation structure of the flat grid: "
      "parent(children(i)) = i, the children of the (refined) indices tile the next level, a child's centre lies at (c+1/2)/split of "
      "its parent's cell, coord2index(index2coord(i)) = i, cell volumes add up under refinement, the level recurrences "
      "shape(l+1) = split*(shape - 2*padding), shifts(l+1) = split*(shifts + padding) hand splits/paddings to the right levels, "
      "and FlatGridAtLevel converts flat->index, delegates and converts back with level shift +1 / -1 / 0; the open grid's coordinate round trip also holds at fractional shifts; the nest-ordered mixed-radix flat index is decoded against the encoder's loop directions with the same radix and place value; HEALPix neighbourhoods come from the validating routine. HEALPix and logarithmic "
      "grids, multi-grids, neighbourhood wrapping details, the mixed-radix flat index arithmetic and out-of-range handling are not decided.",
      TRUST + " sympy 1.14 (offline wheelhouse) as algebraic normaliser.", "DESIGN.md section 9.8")

claim("C34", "structural/term rules: role-based reading of the Lanczos step (state tuple in, state tuple out), term shape of the quadrature formulas, linear normal form (exact rationals) of the ELBO assembly and sibling comparison of the two implementations",
      "Decides only the structural clause: the Lanczos step is the three-term recurrence (alpha_j = <v_j, A v_j>, w - alpha_j v_j - "
      "beta_(j-1) v_(j-1), beta_j = ||w||, v_(j+1) = w/beta_j, values stored at position j, vectors shifted), quadratures are "
      "sum (first eigenvector component)^2 f(theta) of the symmetric tridiagonal with the Gauss-Radau last-entry formula, the trace "
      "estimate is dimension * mean, and both estimate_evidence_lower_bound implementations assemble "
      "tr_log_lat_cov + metric_size/2 - energy(sample) - prior term with tr_log_lat_cov = -1/2 sum log(eigenvalues), the analytic "
      "prior term (trace_inv_total + |mean|^2)/2 paired with the likelihood-only energy, the documented lower error and mean +/- std "
      "bounds, identically in both; on resume the precomputed count shortens exactly one eigenvalue batch, the trace-space dependent shifts reach every helper, and deflated SLQ probes are normalised with a guarded denominator. Exactness in the limit, eigenvalue accuracy and the SLQ error estimates are not decided; the ELBO "
      "rules identify quantities by their local names and report undecided (exit 2, no alarm) if those are renamed.",
      TRUST, "DESIGN.md section 9.8")

claim("C20", "structural rules over AST/CFG: role-based identification of R, R^dagger, N^-1 and the operators handed to CG; nullness rule for documented-optional arguments; term inlining of the classic curvature",
      "Decides only the assembly clause: nifty.re wiener_filter_posterior builds j = R^dagger N^-1 d and solves (R^dagger N^-1 R + 1) m = j "
      "in signal space, solves (R R^dagger + N) x = d and returns R^dagger x in data space, with R^dagger the conjugated linear transpose of "
      "the same (linearised) forward map, raises when CG fails, draws mirrored samples at the posterior mean, and defaults its "
      "documented-optional arguments before use; the classic WienerFilterCurvature is R^dagger N^-1 R + S^-1 made invertible with S^-1 as "
      "preconditioner. That the solvers reach the exact posterior, the sample covariances and the agreement with MGVI/MAP are "
      "numerical and not decided.", TRUST, "DESIGN.md section 9.8")

claim("C28", "symbolic reading of the amplitude models over three abstract modes; normalisation identity and sibling (classic vs JAX) term comparison with sympy as normaliser",
      "Decides only the amplitude clause: the JAX non-parametric and Matern amplitude models return, for both kinds, an amplitude "
      "with sum_{k>0} multiplicity_k * a_k^2 = (fluctuations * total_volume)^2 - the identity behind 'the variance of a realisation "
      "equals the square of the model's own fluctuation' for every grid and volume - and a zero mode equal to the total volume; the "
      "classic and the JAX Matern amplitudes are the same function scale*sqrt(V)*(1+(k/cutoff)^2)^(slope/4); product-fluctuation formulas and axis typing of the Fourier mode lengths; in the classic maker the zero-mode amplitude is divided out of the normalised amplitudes exactly when finalize multiplies by it (four kinds of setting enumerated) and no memoised result survives a change of its inputs; the JAX mode multiplicities are the bincount of the returned index map and the mean offset is added in position space. The classic "
      "non-parametric amplitude, product spectra (slice/average fluctuation formulas) and the numerical agreement of whole fields are "
      "not decided.", TRUST + " sympy 1.14 (offline wheelhouse) as algebraic normaliser.", "DESIGN.md section 9.8")

claim("C05", "def-use / dominance rules on the optimiser's driver and pairing rules on its placeholder bookkeeping",
      "Decides only the structural clauses: optimise_operator rewrites a private deep copy, compares the rewritten operator with the "
      "untouched original at an input drawn on the original's domain through an assertion function and returns the copy; every "
      "FieldAdapter placeholder is created on the target of the operator it replaces, stored as [operator, placeholder], and every "
      "store of such pairs is bound back with partial_insert(placeholder.adjoint(operator)); the iterator consumed by the common-prefix loop is re-created per round and key lists grow and are walked in opposite directions. That the rewritten graph (a run-time "
      "rewrite keyed on object identity, with in-place domain repair) has the same value and Jacobian for every tree is not decided.",
      TRUST, "DESIGN.md section 9.11")


# ---------------------------------------------------------------------------------------------------------------- additions
# clauses added by later rule rounds (appended to the claim text; the "not decided" sentence of each claim still holds)
EXTRA = {
    "C01": " Also decided: helpers that hand a partial-space (reshaped) diagonal to an external primitive that does not broadcast do so "
           "only for equally shaped operands, and merging adjacent block-diagonal chain factors keeps the composition order in every block.",
    "C03": " Also decided: the value returned together with a metric is built from the same definitions as the plain value; the inner "
           "product rule conjugates the term through the anti-linear operand's Jacobian; stored Jacobians enter new Jacobians as operators "
           "(never applied to a value); a derivative helper does not refuse an argument value (None) that it later handles and that the "
           "plain function accepts; merged block-diagonal Jacobians keep the chain-rule order.",
    "C06": " Also decided: every return of AnyArray.norm is the norm of the flattened array; volume-weighted reductions on a two-pixel field "
           "(terms); Field.weight never combines an integer copy in place with float volume factors; indices derived from `spaces` are never "
           "applied to an already contracted field.",
    "C07": " Also decided: unpickling re-applies the lock (__setstate__), scalar broadcast bases are locked, and MultiField stores its entries "
           "in a tuple.",
    "C08": " Also decided: the memoised domain hash has no interpreter-dependent component; LMSpace's m-loop may be empty; the bin "
           "population used for volumes and k-lengths is the bincount of the stored pindex on every path; per-axis quantities in "
           "dimension loops are indexed by the loop's axis.",
    "C10": " Also decided: PS_field does not narrow the dtype of the spectrum's values; bin populations come from the stored pindex; "
           "power operators on a sub-space (partial-space diagonals) use broadcasting arithmetic in every mode.",
    "C11": " Also decided: the metric survives constant inputs, the variable-covariance metric blocks are labelled by key, the sandwich "
           "square root keeps the cheese, and the Hamiltonian's value with a metric equals its value without.",
    "C12": " Also decided: clamps and tree_map lambdas are part of the compared terms (a one-sided regularisation is a coefficient "
           "mismatch); for the variable-covariance Gaussian the data average of J^T J of the local transformation equals the metric "
           "coefficients for real and complex data (moments of the documented distribution as a table); dtype flags are per leaf; the "
           "derivative rules of sqrtm/logm have the Daleckii-Krein frame with a divided difference symmetric in both eigen indices, "
           "and every eigh-based matrix function has its own derivative rule; metric, square roots and transformation contain no "
           "tree-wide reduction.",
    "C13": " Also decided: sums are sampled term by term only without subtracted summands; per-key dtypes are looked up by key; the "
           "inversion enabler never samples from its preconditioner; block-diagonal identity blocks of unknown dtype are refused and "
           "the dtype table covers every domain key.",
    "C15": " Also decided: the two solvers perform the same number of steps for every accepted iteration limit (one recorded finding: "
           "maxiter=0).",
    "C17": " Also decided: the accepted (f, x, g, |g|) tuple is updated atomically, the limit status is guarded, and the trust-region "
           "sub-problem measures its iterate in the norm of its boundary.",
    "C21": " Also decided: no random draw iterates over a set; getState/setState save and restore both stacks without rebuilding generators; "
           "the hash of a Vector used as static argument depends on the leaf values.",
    "C22": " Also decided: sample lists rebuilt in the MPI modules keep their communicator, and local sample indices start at the sum of the "
           "actual counts of the lower ranks.",
    "C23": " Also decided: type assertions only for type-specific wire formats, every MPI return path is the broadcast result, and the "
           "layout comes from gathered counts.",
    "C24": " Also decided: no statement reachable after un-pickling reads position_or_samples, every return after loading has re-attached the "
           "configuration, and custom pickling maps every stored name to the attribute of the same name.",
    "C25": " Also decided: resume probes the files of the last finished iteration (never the index to resume), and the driver never deletes a "
           "committed file (one recorded finding: save strategy 'latest').",
    "C27": " Also decided: the loop body never reads initial_index, and _export_operators tests _is_subdomain(operator.domain, "
           "samples.domain) in this order.",
}
EXTRA2 = {
    "C04": " Also decided: the Hamiltonian's value with and without the metric has the same inputs; constants produced by specialisation return the zero metric; optional state (a transformation that was not given) is dereferenced only after a None test.",
    "C09": " Also decided: module-level memo keys determine the cached value; back-end transforms pass no in-place option; a codomain is refused as soon as one axis mismatches.",
    "C16": " Also decided: the quasi-Newton history is re-initialised before the base loop in every run.",
    "C18": " Also decided: classic KL samples are drawn from the Hamiltonian reduced by the point estimates; the geoVI prior noise takes its dtype from the prior energy; complex white noise behind the nifty.re metric samples has unit variance per real degree of freedom; refusals are raised; frozen parameters enter the frozen metric with zero tangents.",
    "C19": " Also decided: the KL value keeps the prior energy of every constant key over repeated specialisation and mirrored samples are exact negatives (rules shared with C04 / C18).",
    "C20": " Also decided: the MAP / zero-sample curvature is the Hamiltonian's at the current position and the eager and compiled CG behind every solve agree term by term (rules shared with C19 / C15); the entry point raises its refusals.",
    "C26": " Also decided: shareRange tiles range(nwork) (case split on integer terms); statistics methods never return the stored expansion point; Welford's product is Hermitian.",
    "C28": " Also decided: mode lengths and log quantities of a harmonic grid come from one mode-distributor result; the classic Matern fluctuation amplitude, evaluated as a term on a two-bin model, is the standard deviation of the realisations.",
    "C30": " Also decided: no log(1+x) / exp(x)-1 spelled out; value_reshaper's case table is complete; inverse transforms apply no clamp; log-space tables hold unshifted quantiles and each of scale / loc is applied exactly once. Both transforms route their parameters through value_reshaper in every branch.",
    "C32": " Also decided: a turning or diverging sub-tree is never merged (unconditional disjuncts of the keep-old predicate); the sub-tree U-turn loop index stays in its declared range; a NaN weight difference never yields a positive transition probability (abstract evaluation).",
    "C33": " Also decided: norm special cases are keyed by the exact order; unstack counts pieces along the split axis; where() chooses its broadcast target among all three operands; mean_and_std squares moduli; a specification known to be None is not itself flattened.",
    "C34": " Also decided: the analytic prior term uses the expansion point first and the inner product of the mean with itself.",
    "C05": " Also decided: the grouping key of a leaf chain covers every operator walked from the input side (adapters included). The domain refresh walks from every edited node to the root without early exit; in-place chain cuts happen once per chain object; a chain contributes only its innermost element as a node (the position the cut replaces).",
    "C29": " Also decided: per-interval factors of the integrated Wiener process stand under the time-axis expansion; optional numeric arguments are tested with `is None`; the scalar wrapper lifts drift and amplitude from their own values.",
    "C31": " Also decided: parent() divides by the level's own parent_splits; the flat grid reads the per-level shapes from the wrapped grid; the log-grid pixel volume is the difference of its edges.",
    "C35": " Also decided: every accepted constructor option is read and no computed local is dropped; explicit shifts around an FFT-order transform are oriented (fftshift out, ifftshift in); a single line of sight is not mapped over its coordinate axis.",
    "C36": " Also decided: residual diagnostics of a frozen likelihood insert the frozen values; the classic normalized_residual keeps no state between samples; parallel lists handed to zip are filled together; classic and JAX chi-square conventions agree on complex residuals (one recorded finding: they do not).",
    "C01": " Missing (None) blocks are tested before use in every combiner, and a partial-space diagonal is permuted into domain order before it is reshaped.",
    "C02": " Also decided: an apply that uses a volume-weighted reduction of its input distinguishes the modes (the reduction is not self-adjoint on non-uniform volumes).",
    "C14": " Also decided: the relative energy criterion is not evaluated as 0/0 between two vanishing energies.",
    "C22": " Also decided: every communicator argument is bound to the callee's `comm` parameter (resolved against the signature).",
    "C27": " Also decided: module globals that mirror arguments are assigned on every call; a dry run hands the position on; constructed refusals are raised.",
    "C12": " An argument tested with callable() is not called untested. The absolute eigenvalue cut-off of the matrix helpers is a constant not above float64 epsilon or scaled by the spectrum (never a bare machine epsilon).",
}
# session 4 (a separate dict: a key repeated inside one literal would silently replace the earlier text)
EXTRA3 = {
    "C26": " Also decided: patterns that select stored files escape their variable parts and match the whole file name.",
    "C33": " Also decided: a sequence-like container with reflected operators opts out of NumPy's ufunc dispatch.",
    "C18": " Also decided: the sqrt(2) of complex white noise is applied leaf by leaf under a test of that leaf.",
}
for _d in (EXTRA, EXTRA2, EXTRA3):
    for _k, _v in _d.items():
        if _k in CLAIMED:
            _t = CLAIMED[_k]
            CLAIMED[_k] = (_t[0], _t[1] + _v, _t[2], _t[3])
