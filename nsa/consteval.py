"""E3 - evaluator for pure constant expressions taken from the source."""
import ast
import operator

from .model import src


class Unknown(Exception):
    pass


TOP = object()

_BIN = {
    ast.BitOr: operator.or_, ast.BitAnd: operator.and_, ast.BitXor: operator.xor,
    ast.LShift: operator.lshift, ast.RShift: operator.rshift, ast.Add: operator.add,
    ast.Sub: operator.sub, ast.Mult: operator.mul, ast.FloorDiv: operator.floordiv,
    ast.Mod: operator.mod, ast.Pow: operator.pow,
}
_CMP = {
    ast.Eq: operator.eq, ast.NotEq: operator.ne, ast.Lt: operator.lt, ast.LtE: operator.le,
    ast.Gt: operator.gt, ast.GtE: operator.ge, ast.Is: operator.is_, ast.IsNot: operator.is_not,
    ast.In: lambda a, b: a in b, ast.NotIn: lambda a, b: a not in b,
}
_SAFE_CALLS = {"len": len, "range": range, "tuple": tuple, "list": list, "int": int, "bool": bool,
               "abs": abs, "min": min, "max": max, "sum": sum, "sorted": sorted, "set": set,
               "frozenset": frozenset, "str": str, "any": any, "all": all}


class ConstEval:
    """env: dict name -> python value.  attr_resolver(base_name, attr) -> ast node / value
    for `self.X` / `Cls.X` lookups (returns an ast node to evaluate or raises Unknown)."""

    def __init__(self, env=None, attr_resolver=None, depth=0):
        self.env = dict(env or {})
        self.attr_resolver = attr_resolver
        self.depth = depth

    def try_eval(self, node):
        try:
            return self.eval(node)
        except Unknown:
            return TOP
        except (TypeError, ValueError, IndexError, KeyError, ZeroDivisionError, OverflowError):
            return TOP

    def eval(self, n):
        if isinstance(n, ast.Constant):
            return n.value
        if isinstance(n, ast.Name):
            if n.id in self.env:
                v = self.env[n.id]
                if v is TOP:
                    raise Unknown(n.id)
                return v
            if n.id in ("True", "False", "None"):
                return {"True": True, "False": False, "None": None}[n.id]
            raise Unknown(n.id)
        if isinstance(n, (ast.Tuple, ast.List)):
            vals = [self.eval(e) for e in n.elts]
            return tuple(vals) if isinstance(n, ast.Tuple) else list(vals)
        if isinstance(n, ast.Set):
            return set(self.eval(e) for e in n.elts)
        if isinstance(n, ast.Dict):
            return {self.eval(k): self.eval(v) for k, v in zip(n.keys, n.values)}
        if isinstance(n, ast.BinOp):
            op = _BIN.get(type(n.op))
            if op is None:
                raise Unknown(src(n))
            a, b = self.eval(n.left), self.eval(n.right)
            if isinstance(n.op, ast.Pow) and (not isinstance(b, int) or abs(b) > 64):
                raise Unknown("pow")
            if isinstance(n.op, ast.LShift) and (not isinstance(b, int) or b > 64):
                raise Unknown("shift")
            return op(a, b)
        if isinstance(n, ast.UnaryOp):
            v = self.eval(n.operand)
            if isinstance(n.op, ast.Not):
                return not v
            if isinstance(n.op, ast.USub):
                return -v
            if isinstance(n.op, ast.UAdd):
                return +v
            if isinstance(n.op, ast.Invert):
                return ~v
        if isinstance(n, ast.BoolOp):
            if isinstance(n.op, ast.And):
                res = True
                unknown = False
                for e in n.values:
                    try:
                        res = self.eval(e)
                    except Unknown:
                        unknown = True
                        continue
                    if not res:
                        return res
                if unknown:
                    raise Unknown(src(n))
                return res
            else:
                res = False
                unknown = False
                for e in n.values:
                    try:
                        res = self.eval(e)
                    except Unknown:
                        unknown = True
                        continue
                    if res:
                        return res
                if unknown:
                    raise Unknown(src(n))
                return res
        if isinstance(n, ast.Compare):
            left = self.eval(n.left)
            for op, c in zip(n.ops, n.comparators):
                right = self.eval(c)
                f = _CMP[type(op)]
                if isinstance(op, (ast.Is, ast.IsNot)) and not (left is None or right is None
                                                                  or isinstance(left, bool) or isinstance(right, bool)):
                    raise Unknown("is on non-singleton")
                if not f(left, right):
                    return False
                left = right
            return True
        if isinstance(n, ast.IfExp):
            return self.eval(n.body) if self.eval(n.test) else self.eval(n.orelse)
        if isinstance(n, ast.Subscript):
            v = self.eval(n.value)
            if isinstance(n.slice, ast.Slice):
                lo = self.eval(n.slice.lower) if n.slice.lower else None
                hi = self.eval(n.slice.upper) if n.slice.upper else None
                st = self.eval(n.slice.step) if n.slice.step else None
                return v[lo:hi:st]
            return v[self.eval(n.slice)]
        if isinstance(n, ast.Attribute):
            if isinstance(n.value, ast.Name) and self.attr_resolver is not None:
                r = self.attr_resolver(n.value.id, n.attr)
                if isinstance(r, ast.AST):
                    if self.depth > 20:
                        raise Unknown("depth")
                    sub = ConstEval(self.env, self.attr_resolver, self.depth + 1)
                    return sub.eval(r)
                if r is not TOP:
                    return r
            raise Unknown(src(n))
        if isinstance(n, ast.Call):
            if isinstance(n.func, ast.Name) and n.func.id in _SAFE_CALLS and not n.keywords:
                args = [self.eval(a) for a in n.args]
                return _SAFE_CALLS[n.func.id](*args)
            raise Unknown(src(n))
        if isinstance(n, (ast.ListComp, ast.GeneratorExp, ast.SetComp)):
            out = []
            self._comp(n.generators, 0, lambda ev: out.append(ev.eval(n.elt)))
            if isinstance(n, ast.SetComp):
                return set(out)
            return out if isinstance(n, ast.ListComp) else tuple(out)
        if isinstance(n, ast.DictComp):
            out = {}

            def add(ev):
                out[ev.eval(n.key)] = ev.eval(n.value)
            self._comp(n.generators, 0, add)
            return out
        if isinstance(n, ast.JoinedStr):
            parts = []
            for v in n.values:
                if isinstance(v, ast.Constant):
                    parts.append(str(v.value))
                elif isinstance(v, ast.FormattedValue) and v.format_spec is None and v.conversion == -1:
                    parts.append(str(self.eval(v.value)))
                else:
                    raise Unknown("fstring")
            return "".join(parts)
        raise Unknown(type(n).__name__)

    def _comp(self, gens, i, emit):
        if i == len(gens):
            emit(self)
            return
        g = gens[i]
        it = self.eval(g.iter)
        cnt = 0
        for v in it:
            cnt += 1
            if cnt > 4096:
                raise Unknown("comprehension too large")
            ev = ConstEval(self.env, self.attr_resolver, self.depth)
            ev._bind(g.target, v)
            if all(ev.eval(c) for c in g.ifs):
                ev._comp(gens, i + 1, emit)

    def _bind(self, target, v):
        if isinstance(target, ast.Name):
            self.env[target.id] = v
        elif isinstance(target, (ast.Tuple, ast.List)):
            vs = list(v)
            if len(vs) != len(target.elts):
                raise Unknown("unpack")
            for t, x in zip(target.elts, vs):
                self._bind(t, x)
        else:
            raise Unknown("bind")


def class_resolver(model, cls, selfnames=("self",)):
    """attr_resolver for `self.X` / `ClsName.X` over the MRO of `cls` (class level
    constants only)."""

    def res(base, attr):
        target = None
        if base in selfnames or base == cls.name:
            target = cls
        else:
            r = model.resolve_expr(cls.module, ast.Name(id=base, ctx=ast.Load()))
            if r[0] == "class":
                target = r[1]
        if target is None:
            raise Unknown(base)
        r = model.resolve_attr(target, attr)
        if r is None or r[0] != "value":
            raise Unknown(f"{base}.{attr}")
        return r[1][1]

    return res


def class_consts_env(model, cls):
    """Evaluate all class-level constants along the MRO in definition order;
    returns dict name -> value (unknown ones omitted)."""
    env = {}
    for k in reversed(model.mro(cls)):
        local = dict(env)
        for st in k.node.body:
            if isinstance(st, ast.Assign):
                ev = ConstEval(local, class_resolver(model, k))
                val = ev.try_eval(st.value)
                for t in st.targets:
                    try:
                        if val is TOP:
                            if isinstance(t, ast.Name):
                                local.pop(t.id, None)
                            continue
                        ev2 = ConstEval(local)
                        ev2._bind(t, val)
                        local.update(ev2.env)
                    except Unknown:
                        pass
        env = local
    return env
