"""Per-pixel symbolic reading of NIFTy field / operator expressions (real-valued case) into sympy terms.

`x.log().vdot(d)` -> log(X)*D ;  `2.*Operator.identity_operator(dom).sqrt()` -> 2*sqrt(X) ;  `makeOp(f)` -> f*X.
Reductions over pixels (.sum(), .vdot) are read per pixel: the quantities compared (second derivative w.r.t. the pixel's own
parameter, squared derivative of a point-wise transformation) are diagonal, so the pixel-wise identity is the full statement.
sympy only normalises the resulting terms; nothing of NIFTy is executed.
"""
import ast

from .model import src, call_name


class NotUnderstood(Exception):
    pass


POINTWISE = ("log", "sqrt", "exp", "log1p", "arctan", "tanh", "sin", "cos", "abs")


class FieldSym:
    def __init__(self, sp, facts=None):
        self.sp = sp
        self.X = sp.Symbol("X", positive=True)
        self.syms = {}
        self.facts = dict(facts or {})  # source text -> bool

    def sym(self, name):
        if name not in self.syms:
            self.syms[name] = self.sp.Symbol(name.strip("_"), positive=True)
        return self.syms[name]

    # ---------------------------------------------------------------- expressions
    def ev(self, e, env):
        sp = self.sp
        if isinstance(e, ast.Constant):
            if isinstance(e.value, bool) or e.value is None:
                raise NotUnderstood(src(e))
            if isinstance(e.value, (int, float)):
                return sp.nsimplify(e.value)
            raise NotUnderstood(src(e))
        if isinstance(e, ast.Name):
            if e.id in env:
                return env[e.id]
            raise NotUnderstood(f"name {e.id}")
        if isinstance(e, ast.Attribute):
            if isinstance(e.value, ast.Name) and e.value.id == "self":
                t = src(e)
                if t in self.facts:
                    raise NotUnderstood(t)
                return self.sym(e.attr)
            if e.attr in ("real", "val"):
                return self.ev(e.value, env)
            raise NotUnderstood(src(e))
        if isinstance(e, ast.UnaryOp) and isinstance(e.op, ast.USub):
            return -self.ev(e.operand, env)
        if isinstance(e, ast.UnaryOp) and isinstance(e.op, ast.UAdd):
            return self.ev(e.operand, env)
        if isinstance(e, ast.BinOp):
            a, b = self.ev(e.left, env), self.ev(e.right, env)
            ops = {ast.Add: lambda: a + b, ast.Sub: lambda: a - b, ast.Mult: lambda: a * b, ast.Div: lambda: a / b, ast.Pow: lambda: a ** b}
            if type(e.op) in ops:
                return ops[type(e.op)]()
            raise NotUnderstood(src(e))
        if isinstance(e, ast.IfExp):
            t = self.truth(e.test)
            if t is None:
                a, b = self.ev(e.body, env), self.ev(e.orelse, env)
                if sp.simplify(a - b) == 0:
                    return a
                raise NotUnderstood(f"undetermined test {src(e.test)}")
            return self.ev(e.body if t else e.orelse, env)
        if isinstance(e, ast.Call):
            nm = call_name(e)
            f = e.func
            # constructors / helpers
            if nm == "identity_operator":
                return self.X
            if nm == "ScalingOperator" and len(e.args) >= 2:
                return self.ev(e.args[1], env) * self.X
            if nm == "makeOp" and e.args:
                return self.ev(e.args[0], env) * self.X
            if nm == "full" and len(e.args) == 2:
                return self.ev(e.args[1], env)
            if nm == "sqrt" and isinstance(f, ast.Attribute) and src(f.value) in ("np", "numpy", "jnp") and len(e.args) == 1:
                return sp.sqrt(self.ev(e.args[0], env))
            if isinstance(f, ast.Attribute):
                recv = f.value
                if nm in POINTWISE and not e.args:
                    v = self.ev(recv, env)
                    fn = {"log": sp.log, "sqrt": sp.sqrt, "exp": sp.exp, "log1p": lambda z: sp.log(1 + z), "arctan": sp.atan,
                          "tanh": sp.tanh, "sin": sp.sin, "cos": sp.cos, "abs": sp.Abs}[nm]
                    return fn(v)
                if nm == "reciprocal" and not e.args:
                    return 1 / self.ev(recv, env)
                if nm in ("sum", "ducktape", "ducktape_left", "conjugate", "conj") and nm in ("sum", "conjugate", "conj") and not e.args:
                    return self.ev(recv, env)
                if nm in ("ducktape", "ducktape_left"):
                    return self.ev(recv, env)
                if nm in ("vdot", "s_vdot") and len(e.args) == 1:
                    return self.ev(recv, env) * self.ev(e.args[0], env)
                if nm == "scale" and len(e.args) == 1:
                    return self.ev(e.args[0], env) * self.ev(recv, env)
            raise NotUnderstood(src(e))
        raise NotUnderstood(src(e))

    def truth(self, test):
        t = src(test)
        if t in self.facts:
            return self.facts[t]
        if isinstance(test, ast.UnaryOp) and isinstance(test.op, ast.Not):
            v = self.truth(test.operand)
            return None if v is None else not v
        if isinstance(test, ast.BoolOp):
            vs = [self.truth(v) for v in test.values]
            if isinstance(test.op, ast.And):
                return False if any(v is False for v in vs) else (None if any(v is None for v in vs) else True)
            return True if any(v is True for v in vs) else (None if any(v is None for v in vs) else False)
        return None

    # ---------------------------------------------------------------- statements
    def run(self, body, env):
        """straight-line evaluation with fact-directed branches; returns the value of the first reachable `return`"""
        env = dict(env)
        for st in body:
            if isinstance(st, ast.Expr) or isinstance(st, (ast.Import, ast.ImportFrom, ast.Pass)):
                continue
            if isinstance(st, ast.Assign) and len(st.targets) == 1:
                t = st.targets[0]
                if isinstance(t, ast.Name):
                    try:
                        env[t.id] = self.ev(st.value, env)
                    except NotUnderstood:
                        env.pop(t.id, None)
                    continue
                if isinstance(t, ast.Tuple) and isinstance(st.value, ast.Tuple) and len(t.elts) == len(st.value.elts):
                    for a, b in zip(t.elts, st.value.elts):
                        if isinstance(a, ast.Name):
                            try:
                                env[a.id] = self.ev(b, env)
                            except NotUnderstood:
                                env.pop(a.id, None)
                    continue
                continue
            if isinstance(st, ast.If):
                tv = self.truth(st.test)
                if tv is None:
                    ra = self.run(st.body, env)
                    rb = self.run(st.orelse, env)
                    if ra[0] is not None and rb[0] is not None:
                        if self.sp.simplify(ra[0] - rb[0]) == 0:
                            return ra
                        raise NotUnderstood(f"branches of `{src(st.test)}` return different terms")
                    if ra[0] is not None or rb[0] is not None:
                        raise NotUnderstood(f"undetermined test `{src(st.test)}` guards a return")
                    # merge environments
                    merged = {}
                    for k in set(ra[1]) & set(rb[1]):
                        try:
                            if ra[1][k] == rb[1][k] or self.sp.simplify(ra[1][k] - rb[1][k]) == 0:
                                merged[k] = ra[1][k]
                        except Exception:
                            pass
                    env = merged
                    continue
                r = self.run(st.body if tv else st.orelse, env)
                if r[0] is not None:
                    return r
                env = r[1]
                continue
            if isinstance(st, ast.Return):
                v = st.value
                if isinstance(v, ast.Tuple) and len(v.elts) == 2:
                    v = v.elts[1]
                return self.ev(v, env), env
            raise NotUnderstood(f"statement `{src(st)[:60]}`")
        return None, env
