"""E8 (FS part) - file-system effects of a function, with path expressions."""
import ast

from .model import src, call_name, walk_no_nested
from .util import find_nodes


class FsEffect:
    __slots__ = ("kind", "node", "call", "path", "mode", "extra")

    def __init__(self, kind, node, call, path=None, mode=None, extra=None):
        self.kind = kind  # open_w | open_r | replace | remove | dump | load
        self.node = node
        self.call = call
        self.path = path
        self.mode = mode
        self.extra = extra

    def __repr__(self):
        return f"<{self.kind} {src(self.path) if self.path is not None else ''} L{self.node.lineno}>"


def _ext(model, mod, func):
    return model.ext_name(mod, func) or src(func)


def effects(model, fi, cfg):
    """List of FsEffect for the function's own statements (no callees)."""
    mod = fi.module
    out = []
    for n, c in find_nodes(cfg, lambda q: isinstance(q, ast.Call)):
        ext = _ext(model, mod, c.func)
        nm = call_name(c)
        if ext in ("open", "io.open", "builtins.open") or (isinstance(c.func, ast.Name) and c.func.id == "open"):
            mode = None
            if len(c.args) >= 2:
                mode = c.args[1]
            for kw in c.keywords:
                if kw.arg == "mode":
                    mode = kw.value
            mv = mode.value if isinstance(mode, ast.Constant) else ("r" if mode is None else None)
            if mv is None:
                kind = "open_w"  # unknown mode: assume writing (conservative)
            else:
                kind = "open_w" if any(ch in mv for ch in "wax+") else "open_r"
            out.append(FsEffect(kind, n, c, c.args[0] if c.args else None, mv))
        elif ext in ("os.replace", "os.rename", "shutil.move"):
            if len(c.args) >= 2:
                out.append(FsEffect("replace", n, c, c.args[1], extra=c.args[0]))
        elif ext in ("os.remove", "os.unlink"):
            out.append(FsEffect("remove", n, c, c.args[0] if c.args else None))
        elif nm == "unlink" and isinstance(c.func, ast.Attribute):
            base = c.func.value
            p = base.args[0] if isinstance(base, ast.Call) and base.args else base
            out.append(FsEffect("remove", n, c, p))
        elif ext in ("pickle.dump", "dill.dump"):
            out.append(FsEffect("dump", n, c, c.args[1] if len(c.args) > 1 else None, extra=c.args[0] if c.args else None))
        elif ext in ("pickle.load", "dill.load"):
            out.append(FsEffect("load", n, c, c.args[0] if c.args else None))
        elif ext in ("h5py.File",):
            mode = c.args[1] if len(c.args) > 1 else None
            mv = mode.value if isinstance(mode, ast.Constant) else None
            out.append(FsEffect("open_w" if mv != "r" else "open_r", n, c, c.args[0] if c.args else None, mv))
    return out


def with_of(cfg, eff):
    """The `with` statement whose context expression is this open call (or None)."""
    if eff.node.kind == "with":
        return eff.node.ast
    return None


def with_exit_nodes(cfg, with_stmt):
    return [n for n in cfg.nodes if n.kind == "with_exit" and n.ast is with_stmt]
