"""Regenerates /verif/MANIFEST.json from the table below (run after adding a checker)."""
import json
import os
import sys

HERE = os.path.dirname(os.path.dirname(os.path.abspath(__file__)))

BASELINE = ("cd /repo && /venv/bin/python -m pytest -ra -q -p no:cacheprovider --timeout=900 "
            "--continue-on-collection-errors")


NOT_APPLICABLE = {
    "C04": "equality of value/Jacobian/metric after specialisation is numerical; the only structural candidates concern code whose effect is unreachable today",
    "C05": "semantics preservation of a run-time graph rewrite keyed on object identity (pairing clause claimed, see DESIGN 9.11)",
    "C18": "distribution (mean, covariance) of drawn samples is statistical; no necessary structural clause found that is not already a run-time shape error",
    "C19": "KL value/gradient/metric equal sample averages: numerical identity over generated Hamiltonians",
}


def all_ids():
    ids = []
    with open(os.path.join(HERE, "properties.jsonl")) as f:
        for line in f:
            if line.strip():
                ids.append(json.loads(line)["id"])
    return ids


def build():
    from nsa.claims import CLAIMED
    checks = []
    for pid in sorted(CLAIMED):
        tech, text, note, ref = CLAIMED[pid]
        checks.append({
            "property_id": pid,
            "quick_cmd": f"./vcheck {pid} --tier quick",
            "thorough_cmd": f"./vcheck {pid} --tier thorough",
            "evidence_file": f"/verif/evidence/{pid}.json",
            "replay_cmd_template": f"./vcheck {pid} --tier quick --replay {{path}}",
            "engine": "nsa",
            "level_claimed": {"category": "other", "text": text, "design_ref": ref},
            "level_note": note,
            "technique": "static analysis: " + tech,
        })
    na = []
    for pid in all_ids():
        if pid in CLAIMED:
            continue
        reason = NOT_APPLICABLE.get(pid)
        if reason is None:
            reason = PENDING.get(pid, "checker not yet implemented in this revision (planned, see DESIGN.md section 4)")
        na.append({"property_id": pid, "reason": reason})
    man = {
        "version": 1,
        "setup_cmd": "true",
        "hooks": {
            "guard": "NIFTY_VERIF_HOOKS",
            "enable": "no hooks: static analysis reads /repo's working tree, NIFTy is never built, imported or run",
            "baseline_off_cmd": BASELINE,
            "source_commits": [],
            "add_only": True,
        },
        "engines": [{
            "name": "nsa",
            "path": "/verif/nsa",
            "serves_properties": sorted(CLAIMED),
            "kind_free_text": "purpose-built static analyser (ast, class hierarchy/MRO resolver, constant evaluator, "
                              "per-function CFG with dominators/reaching definitions/definite assignment, "
                              "mode-specialising abstract interpreter, effect summaries, sibling term comparison)",
        }],
        "checks": checks,
        "not_applicable": na,
        "notes": "All checks are static (family: static analysis). Exit 0 = every obligation discharged or undecided-above-floor; "
                 "exit 1 + VIOLATION line = a recognised construct positively breaks a rule; exit 2 + ANALYSIS-ERROR = anchors "
                 "vanished / instance count below the confirmed floor (analysis broken, no verdict). fix: commits in /repo are "
                 "recorded in /verif/known_findings.json.",
    }
    return man


PENDING = {}

if __name__ == "__main__":
    sys.path.insert(0, HERE)
    man = build()
    with open(os.path.join(HERE, "MANIFEST.json"), "w") as f:
        json.dump(man, f, indent=1)
    print(f"MANIFEST.json: {len(man['checks'])} checks, {len(man['not_applicable'])} not applicable")
