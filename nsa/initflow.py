"""F-INIT: attributes definitely assigned on every normal exit of a method,
following self._helper(), super().__init__() and Base.__init__(self) calls."""
import ast

from .model import walk_no_nested, is_self_attr, call_name
from .util import cfg_of


def _own_roots(n):
    a = n.ast
    if a is None or n.kind in ("with_exit",):
        return []
    if n.kind == "for":
        return [a.iter] if n.first else []
    if n.kind == "with":
        return [i.context_expr for i in a.items]
    if n.kind == "handler":
        return []
    if n.kind == "match":
        return [a.subject]
    if isinstance(a, (ast.FunctionDef, ast.AsyncFunctionDef, ast.ClassDef)):
        return []
    return [a]


def resolve_self_call(model, inst_cls, def_cls, call):
    """Resolve self.m(...), super().m(...), super(K, self).m(...), Base.m(self, ...)
    -> FuncInfo or None."""
    f = call.func
    if not isinstance(f, ast.Attribute):
        return None
    v = f.value
    if isinstance(v, ast.Name) and v.id == "self":
        return model.resolve_method(inst_cls, f.attr)
    if isinstance(v, ast.Call) and isinstance(v.func, ast.Name) and v.func.id == "super":
        mro = model.mro(inst_cls)
        start = def_cls
        if v.args:
            k, o = model.resolve_expr(def_cls.module, v.args[0])
            if k == "class":
                start = o
        if start in mro:
            for k in mro[mro.index(start) + 1:]:
                if f.attr in k.methods:
                    return k.methods[f.attr]
        return None
    if isinstance(v, ast.Name) and call.args and isinstance(call.args[0], ast.Name) and call.args[0].id == "self":
        k, o = model.resolve_expr(def_cls.module, v)
        if k == "class":
            return model.resolve_method(o, f.attr)
    return None


def attr_summary(model, inst_cls, fi, depth=0, stack=()):
    """(must, may, returns_normally) attribute-assignment summary of method fi
    when executed on an instance of inst_cls."""
    if fi is None or depth > 4 or fi.key in stack:
        return frozenset(), frozenset(), True
    cfg = cfg_of(fi)
    def_cls = fi.cls or inst_cls
    may = set()
    cache = {}

    def gen(n):
        if n.id in cache:
            return cache[n.id]
        g = set()
        a = n.ast
        if n.kind == "stmt" and isinstance(a, (ast.Assign, ast.AugAssign, ast.AnnAssign)):
            tg = a.targets if isinstance(a, ast.Assign) else [a.target]
            for t in tg:
                for e in (t.elts if isinstance(t, (ast.Tuple, ast.List)) else [t]):
                    if is_self_attr(e):
                        g.add(e.attr)
        for r in _own_roots(n):
            for x in walk_no_nested(r, include_self=True):
                if isinstance(x, ast.Call):
                    callee = resolve_self_call(model, inst_cls, def_cls, x)
                    if callee is not None:
                        mu, ma, _ = attr_summary(model, inst_cls, callee, depth + 1, stack + (fi.key,))
                        g |= mu
                        may.update(ma)
                    elif isinstance(x.func, ast.Name) and x.func.id == "setattr" and len(x.args) == 3 \
                            and isinstance(x.args[0], ast.Name) and x.args[0].id == "self" \
                            and isinstance(x.args[1], ast.Constant):
                        g.add(x.args[1].value)
        may.update(g)
        cache[n.id] = frozenset(g)
        return cache[n.id]

    IN = cfg.definitely_assigned((), include_exc=True, gen=gen)
    for n in cfg.nodes:
        gen(n)
    ex = IN[cfg.exit.id]
    if ex is None:
        return frozenset(), frozenset(may), False
    return frozenset(ex), frozenset(may), True
