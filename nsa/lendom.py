"""Tiny abstract interpreter over the 'tuple length' domain.

Values:  ("int", lin) | ("tuple", lin)  (a tuple of that length) | ("range", lo, hi) (tuple(range(lo, hi)) / range(lo, hi)) |
         ("opaque", text, iteration) | None (unknown)
lin = linear expression: dict {symbol: coefficient, 1: constant}; symbols are ("len", text, iteration).

Used to decide axis bookkeeping in loops that accumulate a shape tuple and compute the axes of the newest block from it
(`for g in grids: shp += g.shape; n = len(shp); axes = tuple(range(n - len(g.shape), n))`): the loop is unrolled for K symbolic
iterations, nothing is executed.
"""
import ast

from .model import src


def lin_const(c):
    return {1: c} if c else {}


def lin_add(a, b, sign=1):
    out = dict(a)
    for k, v in b.items():
        out[k] = out.get(k, 0) + sign * v
        if out[k] == 0:
            del out[k]
    return out


def lin_eq(a, b):
    return a == b


def lin_str(a):
    if not a:
        return "0"
    parts = []
    for k, v in sorted(a.items(), key=lambda kv: str(kv[0])):
        if k == 1:
            parts.append(str(v))
        else:
            nm = f"len({k[1]})@{k[2]}"
            parts.append(nm if v == 1 else f"{v}*{nm}")
    return " + ".join(parts)


class LenInterp:
    def __init__(self, loopvar_names, iteration):
        self.loopvars = set(loopvar_names)
        self.it = iteration
        self.env = {}
        self.sites = []  # (call ast, iteration, env snapshot) for calls of interest

    # -- expressions
    def length(self, v):
        if v is None:
            return None
        if v[0] == "tuple":
            return v[1]
        if v[0] == "range":
            return lin_add(v[2], v[1], -1)
        if v[0] == "opaque":
            return {("len", v[1], v[2]): 1}
        return None

    def mentions_loopvar(self, e):
        return any(isinstance(x, ast.Name) and x.id in self.loopvars for x in ast.walk(e))

    def ev(self, e):
        if isinstance(e, ast.Constant):
            if isinstance(e.value, bool) or e.value is None:
                return None
            if isinstance(e.value, int):
                return ("int", lin_const(e.value))
            return None
        if isinstance(e, ast.Tuple) and isinstance(e.ctx, ast.Load):
            if any(isinstance(x, ast.Starred) for x in e.elts):
                return None
            return ("tuple", lin_const(len(e.elts)))
        if isinstance(e, ast.Name):
            if e.id in self.env:
                return self.env[e.id]
            return None
        if isinstance(e, ast.Call) and isinstance(e.func, ast.Name) and e.func.id == "len" and len(e.args) == 1:
            ln = self.length(self.ev(e.args[0]))
            return ("int", ln) if ln is not None else None
        if isinstance(e, ast.Call) and isinstance(e.func, ast.Name) and e.func.id in ("tuple", "list") and len(e.args) == 1:
            v = self.ev(e.args[0])
            return v if v is not None and v[0] in ("range", "tuple", "opaque") else None
        if isinstance(e, ast.Call) and isinstance(e.func, ast.Name) and e.func.id == "range" and not e.keywords:
            a = [self.ev(x) for x in e.args]
            if any(x is None or x[0] != "int" for x in a):
                return None
            if len(a) == 1:
                return ("range", {}, a[0][1])
            if len(a) == 2:
                return ("range", a[0][1], a[1][1])
            return None
        if isinstance(e, ast.BinOp) and isinstance(e.op, (ast.Add, ast.Sub)):
            l, r = self.ev(e.left), self.ev(e.right)
            if l is None or r is None:
                return None
            if l[0] == "int" and r[0] == "int":
                return ("int", lin_add(l[1], r[1], 1 if isinstance(e.op, ast.Add) else -1))
            if isinstance(e.op, ast.Add):
                ll, rl = self.length(l), self.length(r)
                if l[0] in ("tuple", "opaque") and r[0] in ("tuple", "opaque") and ll is not None and rl is not None:
                    return ("tuple", lin_add(ll, rl))
            return None
        if isinstance(e, (ast.Attribute, ast.Subscript, ast.Call)) and self.mentions_loopvar(e):
            return ("opaque", src(e), self.it)
        return None

    # -- statements
    def assign(self, name, v):
        self.env[name] = v

    def run(self, body, call_pred):
        for st in body:
            self.stmt(st, call_pred)

    def stmt(self, st, call_pred):
        for x in ast.walk(st) if not isinstance(st, (ast.If, ast.For, ast.While, ast.With, ast.Try)) else ():
            if isinstance(x, ast.Call) and call_pred(x):
                self.sites.append((x, self.it, dict(self.env)))
        if isinstance(st, ast.Assign) and len(st.targets) == 1 and isinstance(st.targets[0], ast.Name):
            self.assign(st.targets[0].id, self.ev(st.value))
        elif isinstance(st, ast.AugAssign) and isinstance(st.target, ast.Name) and isinstance(st.op, (ast.Add, ast.Sub)):
            self.assign(st.target.id, self.ev(ast.BinOp(left=ast.Name(id=st.target.id, ctx=ast.Load()), op=st.op, right=st.value)))
        elif isinstance(st, ast.If):
            envs = []
            for branch in (st.body, st.orelse):
                sub = LenInterp(self.loopvars, self.it)
                sub.env = dict(self.env)
                sub.run(branch, call_pred)
                self.sites += sub.sites
                envs.append(sub.env)
            merged = {}
            for k in set(envs[0]) | set(envs[1]):
                a, b = envs[0].get(k), envs[1].get(k)
                merged[k] = a if a == b else None
            self.env = merged
        elif isinstance(st, (ast.For, ast.While, ast.With, ast.Try)):
            # not modelled: forget everything assigned inside
            for x in ast.walk(st):
                if isinstance(x, ast.Name) and isinstance(x.ctx, ast.Store):
                    self.env[x.id] = None
        else:
            for x in ast.walk(st):
                if isinstance(x, ast.Name) and isinstance(x.ctx, ast.Store):
                    self.env[x.id] = None


def unroll(pre_stmts, loop, k, call_pred):
    """Interpret pre_stmts, then the body of `for <target> in ...` k times.  Returns (sites, [env before the loop, env after iteration 0, ...])."""
    lv = [x.id for x in ast.walk(loop.target) if isinstance(x, ast.Name)]
    it = LenInterp(lv, -1)
    it.run(pre_stmts, call_pred)
    sites = []
    env = it.env
    ends = [dict(env)]
    for i in range(k):
        it = LenInterp(lv, i)
        it.env = dict(env)
        for v in lv:
            it.env.pop(v, None)
        it.run(loop.body, call_pred)
        sites += it.sites
        env = it.env
        ends.append(dict(env))
    return sites, ends
