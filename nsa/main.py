"""Entry point:  vcheck <PROP> [--tier quick|thorough]"""
import argparse
import importlib
import os
import sys
import traceback

sys.path.insert(0, os.path.dirname(os.path.dirname(os.path.abspath(__file__))))

from nsa.model import SourceModel, AnalysisError  # noqa: E402
from nsa.report import Ctx  # noqa: E402


def run_property(prop, tier, repo=None, overrides=None, quiet=False, write=True, reuse=None):
    """Returns (exit code, ctx)."""
    ctx = Ctx(prop, tier, quiet=quiet)
    try:
        mod = importlib.import_module(f"nsa.rules.{prop.lower()}")
        ctx.model = SourceModel(repo, overrides, reuse)
        mod.run(ctx)
        if tier == "thorough":
            if hasattr(mod, "thorough"):
                mod.thorough(ctx)
            if not overrides:
                from nsa.thorough import run_selftests
                run_selftests(ctx, repo)
    except AnalysisError as e:
        ctx.error(str(e))
    except ModuleNotFoundError as e:
        if e.name and e.name.startswith("nsa.rules"):
            ctx.error(f"no checker for {prop}")
        else:
            ctx.error("checker crashed: " + traceback.format_exc(limit=6).replace("\n", " | "))
    except Exception:
        ctx.error("checker crashed: " + traceback.format_exc(limit=6).replace("\n", " | "))
    try:
        code = ctx.finish(write=write)
    except Exception:
        print(f"ANALYSIS-ERROR property={prop} reporting crashed: " + traceback.format_exc(limit=6).replace("\n", " | "))
        code = 2
    return code, ctx


def main(argv=None):
    ap = argparse.ArgumentParser()
    ap.add_argument("prop")
    ap.add_argument("--tier", default=os.environ.get("VERIF_TIER", "quick"), choices=["quick", "thorough"])
    ap.add_argument("--repo", default=None)
    ap.add_argument("--replay", default=None, help="print a stored replay record and re-run the check")
    ap.add_argument("--no-evidence", action="store_true", help="do not (re)write evidence/replay files (used for scratch trees)")
    a = ap.parse_args(argv)
    if a.replay:
        try:
            print(open(a.replay).read())
        except OSError as e:
            print(f"cannot read replay file: {e}")
    code, _ = run_property(a.prop.upper(), a.tier, a.repo, write=not a.no_evidence)
    return code


if __name__ == "__main__":
    sys.exit(main())
