"""E1/E2 - source model, import tables, class hierarchy, method resolution.

Pure `ast`; never imports NIFTy.  Everything is re-parsed from the working
tree on each run.
"""
import ast
import hashlib
import os

REPO = os.environ.get("NSA_REPO", "/repo")
PKG = "nifty"


class AnalysisError(Exception):
    """Analysis broken (anchor vanished, file unparsable...) -> exit 2."""


class CanonCompare(ast.NodeTransformer):
    """Normal form of single comparisons, applied to every module when it is loaded, so that rules see one spelling:
       a > b  ->  b < a ;  a >= b  ->  b <= a ;  <const> == x  ->  x == <const>  (same for !=)."""

    def visit_Compare(self, node):
        self.generic_visit(node)
        if len(node.ops) != 1:
            return node
        op, l, r = node.ops[0], node.left, node.comparators[0]
        if isinstance(op, ast.Gt):
            return ast.copy_location(ast.Compare(left=r, ops=[ast.Lt()], comparators=[l]), node)
        if isinstance(op, ast.GtE):
            return ast.copy_location(ast.Compare(left=r, ops=[ast.LtE()], comparators=[l]), node)
        if isinstance(op, (ast.Eq, ast.NotEq)) and _is_literal(l) and not _is_literal(r):
            return ast.copy_location(ast.Compare(left=r, ops=[op], comparators=[l]), node)
        return node


def cc(text_or_node):
    """canonical (CanonCompare) source text of an expression given as text or node: `i > 1` -> `1 < i`"""
    import copy
    if isinstance(text_or_node, str):
        try:
            e = ast.parse(text_or_node, mode="eval").body
        except SyntaxError:
            return text_or_node
    else:
        e = copy.deepcopy(text_or_node)
    e = CanonCompare().visit(e)
    ast.fix_missing_locations(e)
    return ast.unparse(e)


def _is_literal(e):
    return isinstance(e, ast.Constant) or (isinstance(e, ast.UnaryOp) and isinstance(e.op, ast.USub) and isinstance(e.operand, ast.Constant))


def src(node):
    """Normalised source text of a node (position independent)."""
    if node is None:
        return "None"
    if isinstance(node, str):
        return node
    try:
        return ast.unparse(node)
    except Exception:  # pragma: no cover
        return ast.dump(node)


def short(node, n=120):
    s = " ".join(src(node).split())
    return s if len(s) <= n else s[: n - 3] + "..."


class FuncInfo:
    def __init__(self, module, qualname, node, cls=None, parent=None):
        self.module = module
        self.qualname = qualname
        self.node = node
        self.cls = cls
        self.parent = parent  # enclosing FuncInfo for nested functions
        self.nested = {}

    @property
    def name(self):
        return self.node.name

    @property
    def file(self):
        return self.module.relpath

    @property
    def key(self):
        return f"{self.module.relpath}::{self.qualname}"

    def params(self):
        a = self.node.args
        return [x.arg for x in a.posonlyargs + a.args + a.kwonlyargs] + (
            [a.vararg.arg] if a.vararg else []) + ([a.kwarg.arg] if a.kwarg else [])

    def __repr__(self):
        return f"<Func {self.key}>"


class ClassInfo:
    def __init__(self, module, qualname, node):
        self.module = module
        self.qualname = qualname
        self.node = node
        self.name = node.name
        self.methods = {}
        self.consts = {}  # class-level simple assignments name -> value node
        self.synthetic = {}  # methods bound by setattr loops: name -> (loopnode, factory FuncInfo/None)
        self.base_exprs = list(node.bases)
        self._mro = None
        self.local = False

    @property
    def file(self):
        return self.module.relpath

    @property
    def fq(self):
        return f"{self.module.name}.{self.qualname}"

    @property
    def key(self):
        return f"{self.module.relpath}::{self.qualname}"

    def __repr__(self):
        return f"<Class {self.fq}>"


class ModuleInfo:
    def __init__(self, name, path, relpath, tree, text, is_pkg):
        self.name = name
        self.path = path
        self.relpath = relpath
        self.tree = tree
        self.text = text
        self.is_pkg = is_pkg
        self.imports = {}  # local name -> fully qualified dotted target
        self.star_imports = []
        self.classes = {}
        self.functions = {}
        self.assigns = {}  # module level name -> value node (last one)
        self.all_functions = []  # incl. nested and methods
        self.sha256 = hashlib.sha256(text.encode()).hexdigest()

    def __repr__(self):
        return f"<Module {self.name}>"


class SourceModel:
    def __init__(self, repo=None, overrides=None, reuse=None):
        """overrides: {relpath: source text or ast.Module} used by the in-memory
        variant self-tests (thorough tier).  reuse: a SourceModel of the same tree whose parsed
        modules are shared for files that are not overridden (the trees are never mutated)."""
        self.repo = repo or REPO
        self.modules = {}
        self.by_relpath = {}
        self.consulted = set()
        self._subclasses = None
        overrides = overrides or {}
        root = os.path.join(self.repo, PKG)
        if not os.path.isdir(root):
            raise AnalysisError(f"package directory {root} missing")
        for dirpath, dirnames, filenames in os.walk(root):
            dirnames[:] = sorted(d for d in dirnames if d != "__pycache__")
            for fn in sorted(filenames):
                if not fn.endswith(".py"):
                    continue
                path = os.path.join(dirpath, fn)
                rel = os.path.relpath(path, self.repo)
                ov = overrides.get(rel)
                if ov is None and reuse is not None and rel in reuse.by_relpath:
                    old_m = reuse.by_relpath[rel]
                    m = ModuleInfo(old_m.name, path, rel, old_m.tree, old_m.text, old_m.is_pkg)
                    self.modules[m.name] = m
                    self.by_relpath[rel] = m
                    continue
                if isinstance(ov, ast.Module):
                    tree = ov
                    text = ast.unparse(ov)
                else:
                    if ov is not None:
                        text = ov
                    else:
                        with open(path, encoding="utf-8") as f:
                            text = f.read()
                    try:
                        tree = ast.parse(text, filename=path)
                    except SyntaxError as e:
                        raise AnalysisError(f"cannot parse {rel}: {e}")
                if os.environ.get("NSA_CANON_COMPARE", "1") == "1":
                    tree = CanonCompare().visit(tree)
                parts = rel[:-3].split(os.sep)
                is_pkg = parts[-1] == "__init__"
                if is_pkg:
                    parts = parts[:-1]
                name = ".".join(parts)
                m = ModuleInfo(name, path, rel, tree, text, is_pkg)
                self.modules[name] = m
                self.by_relpath[rel] = m
        for m in self.modules.values():
            self._index(m)

    # ------------------------------------------------------------------ E1
    def _index(self, m):
        pkg = m.name if m.is_pkg else m.name.rsplit(".", 1)[0]

        def rel_base(level, module):
            if level == 0:
                return module or ""
            parts = pkg.split(".")
            if level > 1:
                parts = parts[: len(parts) - (level - 1)]
            base = ".".join(parts)
            return f"{base}.{module}" if module else base

        for node in ast.walk(m.tree):
            if isinstance(node, ast.Import):
                for a in node.names:
                    if a.asname:
                        m.imports.setdefault(a.asname, a.name)
                    else:
                        m.imports.setdefault(a.name.split(".")[0], a.name.split(".")[0])
            elif isinstance(node, ast.ImportFrom):
                base = rel_base(node.level, node.module)
                for a in node.names:
                    if a.name == "*":
                        m.star_imports.append(base)
                    else:
                        m.imports.setdefault(a.asname or a.name, f"{base}.{a.name}")

        def visit_body(body, prefix, cls, parent):
            for st in body:
                if isinstance(st, (ast.FunctionDef, ast.AsyncFunctionDef)):
                    qn = f"{prefix}{st.name}"
                    fi = FuncInfo(m, qn, st, cls=cls, parent=parent)
                    m.all_functions.append(fi)
                    if cls is not None and parent is None:
                        cls.methods[st.name] = fi
                    elif parent is not None:
                        parent.nested[st.name] = fi
                    elif cls is None:
                        m.functions[st.name] = fi
                    visit_body(st.body, qn + ".", cls, fi)
                elif isinstance(st, ast.ClassDef):
                    qn = f"{prefix}{st.name}"
                    ci = ClassInfo(m, qn, st)
                    ci.local = parent is not None  # defined inside a function: not exported
                    if parent is None and cls is None:
                        m.classes[st.name] = ci
                    else:
                        m.classes.setdefault(qn, ci)
                    for s2 in st.body:
                        if isinstance(s2, ast.Assign):
                            for t in s2.targets:
                                if isinstance(t, ast.Name):
                                    ci.consts[t.id] = s2.value
                                elif isinstance(t, ast.Tuple) and isinstance(s2.value, ast.Tuple) \
                                        and len(t.elts) == len(s2.value.elts):
                                    for tt, vv in zip(t.elts, s2.value.elts):
                                        if isinstance(tt, ast.Name):
                                            ci.consts[tt.id] = vv
                                elif isinstance(t, ast.Tuple):
                                    for i, tt in enumerate(t.elts):
                                        if isinstance(tt, ast.Name):
                                            ci.consts[tt.id] = ast.Subscript(
                                                value=s2.value, slice=ast.Constant(i), ctx=ast.Load())
                        elif isinstance(s2, ast.AnnAssign) and isinstance(s2.target, ast.Name) and s2.value:
                            ci.consts[s2.target.id] = s2.value
                    visit_body(st.body, qn + ".", ci, None)
                elif isinstance(st, (ast.If, ast.Try, ast.With, ast.For, ast.While)) :
                    # definitions nested in compound statements
                    for fld in ("body", "orelse", "finalbody"):
                        visit_body(getattr(st, fld, []) or [], prefix, cls, parent)
                    for h in getattr(st, "handlers", []) or []:
                        visit_body(h.body, prefix, cls, parent)

        visit_body(m.tree.body, "", None, None)
        for st in m.tree.body:
            if isinstance(st, ast.Assign):
                for t in st.targets:
                    if isinstance(t, ast.Name):
                        m.assigns[t.id] = st.value
            elif isinstance(st, ast.AnnAssign) and isinstance(st.target, ast.Name) and st.value:
                m.assigns[st.target.id] = st.value
        # setattr loops:  for op in [...]: setattr(Cls, op, factory(op))
        for st in m.tree.body:
            if isinstance(st, ast.For):
                for s2 in ast.walk(st):
                    if isinstance(s2, ast.Call) and isinstance(s2.func, ast.Name) and s2.func.id == "setattr" \
                            and len(s2.args) == 3 and isinstance(s2.args[0], ast.Name):
                        ci = m.classes.get(s2.args[0].id)
                        if ci is not None:
                            ci.synthetic.setdefault("__loops__", []).append((st, s2))

    # ------------------------------------------------------------------ lookup
    def module(self, name, required=True):
        m = self.modules.get(name)
        if m is None and required:
            raise AnalysisError(f"anchor module {name} not found")
        if m is not None:
            self.consulted.add(m.relpath)
        return m

    def file(self, relpath, required=True):
        m = self.by_relpath.get(relpath)
        if m is None and required:
            raise AnalysisError(f"anchor file {relpath} not found")
        if m is not None:
            self.consulted.add(m.relpath)
        return m

    def cls(self, modname, clsname, required=True):
        m = self.module(modname, required)
        c = m.classes.get(clsname) if m else None
        if c is None and required:
            raise AnalysisError(f"anchor class {modname}.{clsname} not found")
        return c

    def func(self, modname, qualname, required=True):
        """qualname: 'f', 'Cls.m' or 'f.inner'."""
        m = self.module(modname, required)
        if m is None:
            return None
        for fi in m.all_functions:
            if fi.qualname == qualname:
                return fi
        if required:
            raise AnalysisError(f"anchor function {modname}.{qualname} not found")
        return None

    def resolve_fq(self, fq, depth=0):
        """Resolve a dotted name to ('class', ClassInfo) | ('func', FuncInfo) |
        ('module', ModuleInfo) | ('value', (ModuleInfo, node)) | ('ext', fq)."""
        if depth > 12:
            return ("ext", fq)
        if fq in self.modules:
            return ("module", self.modules[fq])
        if "." not in fq:
            return ("ext", fq)
        head, attr = fq.rsplit(".", 1)
        kind, obj = self.resolve_fq(head, depth + 1)
        if kind == "module":
            m = obj
            if attr in m.classes:
                return ("class", m.classes[attr])
            if attr in m.functions:
                return ("func", m.functions[attr])
            if attr in m.imports:
                return self.resolve_fq(m.imports[attr], depth + 1)
            if attr in m.assigns:
                return ("value", (m, m.assigns[attr]))
            sub = f"{m.name}.{attr}"
            if sub in self.modules:
                return ("module", self.modules[sub])
            for sm in m.star_imports:
                r = self.resolve_fq(f"{sm}.{attr}", depth + 1)
                if r[0] != "ext":
                    return r
            return ("ext", fq)
        if kind == "class":
            c = obj
            r = self.resolve_attr(c, attr)
            if r is not None:
                return r
            return ("ext", fq)
        return ("ext", fq)

    def dotted(self, node):
        """a.b.c expression -> 'a.b.c' or None."""
        parts = []
        while isinstance(node, ast.Attribute):
            parts.append(node.attr)
            node = node.value
        if isinstance(node, ast.Name):
            parts.append(node.id)
            return ".".join(reversed(parts))
        return None

    def resolve_expr(self, module, node):
        """Resolve a Name/Attribute expression in `module`'s global scope."""
        d = self.dotted(node)
        if d is None:
            return ("ext", src(node))
        head, *rest = d.split(".")
        if head in module.classes:
            base = f"{module.name}.{head}"
        elif head in module.functions:
            base = f"{module.name}.{head}"
        elif head in module.imports:
            base = module.imports[head]
        elif head in module.assigns:
            base = f"{module.name}.{head}"
        else:
            base = None
            for sm in module.star_imports:
                r = self.resolve_fq(f"{sm}.{head}")
                if r[0] != "ext":
                    base = f"{sm}.{head}"
                    break
            if base is None:
                return ("ext", d)
        return self.resolve_fq(".".join([base] + rest))

    def ext_name(self, module, node):
        """Fully qualified *external* dotted name for an expression such as
        np.add.at -> 'numpy.add.at' (or None)."""
        d = self.dotted(node)
        if d is None:
            return None
        head, *rest = d.split(".")
        if head in module.imports:
            return ".".join([module.imports[head]] + rest)
        return d

    # ------------------------------------------------------------------ E2
    def bases(self, c):
        out = []
        for b in c.base_exprs:
            kind, obj = self.resolve_expr(c.module, b)
            if kind == "class":
                out.append(obj)
            else:
                out.append(None)  # external base (object, ABC, NamedTuple...)
        return out

    def mro(self, c):
        if c._mro is not None:
            return c._mro
        c._mro = [c]  # recursion guard
        seqs = []
        bs = [b for b in self.bases(c) if b is not None]
        for b in bs:
            seqs.append(list(self.mro(b)))
        seqs.append(list(bs))
        res = [c]
        while True:
            seqs = [s for s in seqs if s]
            if not seqs:
                break
            for s in seqs:
                cand = s[0]
                if not any(cand in t[1:] for t in seqs):
                    break
            else:
                raise AnalysisError(f"inconsistent MRO for {c.fq}")
            res.append(cand)
            for s in seqs:
                if s and s[0] is cand:
                    del s[0]
        c._mro = res
        return res

    def all_classes(self):
        for m in self.modules.values():
            for c in m.classes.values():
                yield c

    def is_subclass(self, c, base):
        return base in self.mro(c)

    def subclasses(self, base, strict=True):
        out = []
        for c in self.all_classes():
            if base in self.mro(c) and (c is not base or not strict):
                out.append(c)
        out.sort(key=lambda c: c.fq)
        return out

    def resolve_attr(self, c, attr):
        """MRO lookup -> ('func', FuncInfo) | ('value',(ClassInfo,node)) | None."""
        for k in self.mro(c):
            if attr in k.methods:
                return ("func", k.methods[attr])
            if attr in k.consts:
                return ("value", (k, k.consts[attr]))
        return None

    def resolve_method(self, c, name):
        r = self.resolve_attr(c, name)
        if r and r[0] == "func":
            return r[1]
        return None

    def has_external_base(self, c):
        for k in self.mro(c):
            for b, be in zip(self.bases(k), k.base_exprs):
                if b is None and src(be) not in ("object",):
                    return True
        return False

    def digests(self):
        return {rel: self.by_relpath[rel].sha256 for rel in sorted(self.consulted)}


# ---------------------------------------------------------------------- helpers
def walk_no_nested(node, include_self=False):
    """ast.walk that does not descend into nested function/class/lambda bodies."""
    stack = [node] if include_self else list(ast.iter_child_nodes(node))
    while stack:
        n = stack.pop()
        yield n
        if isinstance(n, (ast.FunctionDef, ast.AsyncFunctionDef, ast.ClassDef, ast.Lambda)):
            continue
        stack.extend(ast.iter_child_nodes(n))


def calls_in(node, nested=False):
    it = ast.walk(node) if nested else walk_no_nested(node, include_self=True)
    return [n for n in it if isinstance(n, ast.Call)]


def is_self_attr(node, attr=None, selfname="self"):
    return (isinstance(node, ast.Attribute) and isinstance(node.value, ast.Name)
            and node.value.id == selfname and (attr is None or node.attr == attr))


def call_name(call):
    """Last identifier of the callee: f(...) -> 'f', a.b.c(...) -> 'c'."""
    f = call.func
    if isinstance(f, ast.Name):
        return f.id
    if isinstance(f, ast.Attribute):
        return f.attr
    return None


def stmt_targets(st):
    """Names/attribute-targets assigned by a statement (flattened)."""
    out = []

    def flat(t):
        if isinstance(t, (ast.Tuple, ast.List)):
            for e in t.elts:
                flat(e)
        elif isinstance(t, ast.Starred):
            flat(t.value)
        else:
            out.append(t)

    if isinstance(st, ast.Assign):
        for t in st.targets:
            flat(t)
    elif isinstance(st, (ast.AugAssign, ast.AnnAssign)):
        flat(st.target)
    elif isinstance(st, (ast.For, ast.AsyncFor)):
        flat(st.target)
    elif isinstance(st, (ast.With, ast.AsyncWith)):
        for it in st.items:
            if it.optional_vars is not None:
                flat(it.optional_vars)
    return out
