"""E5 - mode-specialising abstract interpreter (symbolic forward substitution).

A function body is executed abstractly with some names bound to constants
(e.g. mode=2, self._trafo=1): branch conditions that the constant evaluator
decides are taken one way, the others are explored both ways (and joined as
conditional expressions); single assignments are substituted forward, so every
`return` ends up as one expression over the function's inputs.  No formulas
are solved - termination is structural (loops are summarised, not unrolled).
"""
import ast
import copy

from .consteval import ConstEval, class_resolver, TOP, Unknown
from .model import src, call_name
from .terms import subst


class Spec:
    def __init__(self, model, cls, fi, consts=None, inline_methods=True, depth=0, facts=None):
        """consts: {'mode': 2, 'self._trafo': 1, ...};  facts: {source text of a condition: bool} assumed on the path"""
        from .model import cc
        self.facts = {cc(k): v for k, v in (facts or {}).items()}
        self.keep = set()   # names that stay symbolic (their definitions are recorded in self.defs)
        self.defs = {}
        self.breaks = []    # (env, [assumptions], stmt) for break/continue statements
        self.final_envs = []  # (env, [assumptions]) of paths that fall off the end
        self.model = model
        self.cls = cls
        self.fi = fi
        self.consts = dict(consts or {})
        self.returns = []   # (expr, [assumption texts], stmt)
        self.raises = []    # ([assumptions], stmt)
        self.loops = []     # (for stmt, iter expr (specialised), env snapshot, [assumptions])
        self.calls = []     # (call expr (specialised), [assumptions])
        self.falls_through = []  # [assumptions] of paths that fall off the end (return None)
        self.depth = depth
        self.inline_methods = inline_methods
        self._resolver = class_resolver(model, cls) if cls is not None else None

    # -------------------------------------------------------------- const eval
    def _attr(self, base, attr):
        k = f"{base}.{attr}"
        if k in self.consts:
            return self.consts[k]
        if self._resolver is not None:
            return self._resolver(base, attr)
        raise Unknown(k)

    def ceval(self, e, env):
        if self.facts:
            t = src(e)
            if t in self.facts:
                return self.facts[t]
            if isinstance(e, ast.BinOp) and isinstance(e.op, (ast.BitAnd, ast.BitOr)):
                a, b = self.ceval(e.left, env), self.ceval(e.right, env)
                if isinstance(e.op, ast.BitAnd):
                    if a is False or b is False:
                        return False
                    if a is True and b is True:
                        return True
                else:
                    if a is True or b is True:
                        return True
                    if a is False and b is False:
                        return False
            if isinstance(e, ast.UnaryOp) and isinstance(e.op, (ast.Not, ast.Invert)):
                a = self.ceval(e.operand, env)
                if a is True or a is False:
                    return not a
            if isinstance(e, ast.BoolOp):
                vals = [self.ceval(v, env) for v in e.values]
                if isinstance(e.op, ast.And):
                    if any(v is False for v in vals):
                        return False
                    if all(v is True for v in vals):
                        return True
                else:
                    if any(v is True for v in vals):
                        return True
                    if all(v is False for v in vals):
                        return False
        cenv = {k: v for k, v in self.consts.items() if "." not in k}
        for k, v in env.items():
            if isinstance(v, ast.Constant):
                cenv[k] = v.value
        ev = ConstEval(cenv, self._attr)
        return ev.try_eval(e)

    def peval(self, e, env):
        """Substitute known locals and fold what evaluates to a constant / decided conditional."""
        e = subst(e, {k: v for k, v in env.items() if v is not None})
        return self._fold(e)

    def _fold(self, e):
        if isinstance(e, (ast.Constant,)):
            return e
        v = self.ceval(e, {})
        if v is not TOP and isinstance(v, (int, float, bool, str, type(None))):
            return ast.Constant(value=v)
        if isinstance(e, ast.IfExp):
            t = self.ceval(e.test, {})
            if t is not TOP:
                return self._fold(e.body if t else e.orelse)
            return ast.IfExp(test=self._fold(e.test), body=self._fold(e.body), orelse=self._fold(e.orelse))
        if isinstance(e, ast.Call) and call_name(e) == "cond" and len(e.args) == 4:
            from .sibling import apply_cond
            ie = apply_cond(e)
            if ie is not None:
                return self._fold(ie)
        if isinstance(e, ast.Call) and call_name(e) == "where" and len(e.args) == 3:
            t = self.ceval(e.args[0], {})
            if t is True or t is False:
                return self._fold(e.args[1] if t else e.args[2])
        if isinstance(e, ast.Lambda):
            return e
        if isinstance(e, (ast.ListComp, ast.GeneratorExp, ast.SetComp, ast.DictComp)):
            bound = {n.id for g in e.generators for n in ast.walk(g.target) if isinstance(n, ast.Name)}
            if bound & {k for k in self.consts if "." not in k}:
                return e
            new = copy.copy(e)
            new.generators = []
            for g in e.generators:
                g2 = copy.copy(g)
                g2.iter = self._fold(g.iter)
                g2.ifs = [self._fold(c) for c in g.ifs]
                new.generators.append(g2)
            if isinstance(e, ast.DictComp):
                new.key, new.value = self._fold(e.key), self._fold(e.value)
            else:
                new.elt = self._fold(e.elt)
            return new
        new = copy.copy(e)
        for f, val in ast.iter_fields(e):
            if isinstance(val, ast.AST) and isinstance(val, ast.expr):
                setattr(new, f, self._fold(val))
            elif isinstance(val, list):
                lst = []
                for x in val:
                    if isinstance(x, ast.expr):
                        lst.append(self._fold(x))
                    elif isinstance(x, ast.keyword):
                        k2 = copy.copy(x)
                        k2.value = self._fold(x.value)
                        lst.append(k2)
                    else:
                        lst.append(x)
                setattr(new, f, lst)
        return new

    # -------------------------------------------------------------- execution
    def run(self, body=None, env=None):
        env = dict(env or {})
        fell = self._block(self.fi.node.body if body is None else body, env, [])
        for (e, assume) in fell:
            self.falls_through.append(assume)
            self.final_envs.append((e, assume))
        return self

    def _block(self, body, env, assume):
        """Executes statements; returns list of (env, assumptions) that fall through."""
        states = [(env, assume)]
        for st in body:
            nxt = []
            for (e, a) in states:
                nxt += self._stmt(st, e, a)
            states = nxt
            if not states:
                break
        return states

    def _record_calls(self, expr, assume):
        for c in ast.walk(expr):
            if isinstance(c, ast.Call):
                self.calls.append((c, list(assume)))

    def _stmt(self, st, env, assume):
        if isinstance(st, ast.Expr):
            if isinstance(st.value, ast.Constant):
                return [(env, assume)]
            v = self.peval(st.value, env)
            self._record_calls(v, assume)
            return [(env, assume)]
        if isinstance(st, ast.Assign):
            v = self.peval(st.value, env)
            self._record_calls(v, assume)
            env = dict(env)
            for t in st.targets:
                self._bind(t, v, env)
            return [(env, assume)]
        if isinstance(st, ast.AugAssign):
            if isinstance(st.target, ast.Name) and st.target.id in self.keep:
                return [(env, assume)]
            if isinstance(st.target, ast.Name):
                cur = env.get(st.target.id, ast.Name(id=st.target.id, ctx=ast.Load()))
                v = self._fold(ast.BinOp(left=cur, op=st.op, right=self.peval(st.value, env)))
                env = dict(env)
                env[st.target.id] = v
            return [(env, assume)]
        if isinstance(st, ast.AnnAssign):
            if st.value is not None and isinstance(st.target, ast.Name):
                env = dict(env)
                env[st.target.id] = self.peval(st.value, env)
            return [(env, assume)]
        if isinstance(st, ast.Return):
            v = self.peval(st.value, env) if st.value is not None else ast.Constant(value=None)
            self._record_calls(v, assume)
            self.returns.append((v, list(assume), st))
            return []
        if isinstance(st, ast.Raise):
            self.raises.append((list(assume), st))
            return []
        if isinstance(st, (ast.Break, ast.Continue)):
            self.breaks.append((env, list(assume), st))
            return []
        if isinstance(st, ast.If):
            t = self.peval(st.test, env)
            c = self.ceval(t, {})
            if c is not TOP:
                return self._block(st.body if c else st.orelse, env, assume)
            a = self._block(st.body, dict(env), assume + [src(t)])
            b = self._block(st.orelse, dict(env), assume + ["not (" + src(t) + ")"])
            return a + b
        if isinstance(st, (ast.For, ast.While)):
            it = self.peval(st.iter, env) if isinstance(st, ast.For) else None
            # names assigned in the loop become unknown inside and after it
            assigned = set()
            for x in ast.walk(st):
                if isinstance(x, (ast.Assign, ast.AugAssign, ast.AnnAssign)):
                    for t in (x.targets if isinstance(x, ast.Assign) else [x.target]):
                        for n in ast.walk(t):
                            if isinstance(n, ast.Name):
                                assigned.add(n.id)
                if isinstance(x, (ast.For,)):
                    for n in ast.walk(x.target):
                        if isinstance(n, ast.Name):
                            assigned.add(n.id)
            inner = {k: v for k, v in env.items() if k not in assigned}
            self.loops.append((st, it, dict(inner), list(assume)))
            sub = Spec(self.model, self.cls, self.fi, self.consts, self.inline_methods, self.depth)
            sub.returns, sub.raises, sub.loops, sub.calls = self.returns, self.raises, self.loops, self.calls
            sub._block(st.body, dict(inner), assume + [f"in loop {src(st.target) if isinstance(st, ast.For) else ''}"])
            return [(inner, assume)]
        if isinstance(st, ast.With):
            return self._block(st.body, env, assume)
        if isinstance(st, ast.Try):
            out = self._block(st.body, dict(env), assume)
            for h in st.handlers:
                out += self._block(h.body, dict(env), assume + [f"except {src(h.type) if h.type else ''}"])
            return out
        if isinstance(st, (ast.Import, ast.ImportFrom, ast.Pass, ast.Global, ast.Nonlocal, ast.Assert, ast.FunctionDef,
                           ast.ClassDef, ast.Delete)):
            return [(env, assume)]
        return [(env, assume)]

    def _bind(self, t, v, env):
        if isinstance(t, ast.Name):
            if t.id in self.keep:
                self.defs.setdefault(t.id, []).append(v)
                env[t.id] = ast.Name(id=t.id, ctx=ast.Load())
                return
            env[t.id] = v
        elif isinstance(t, (ast.Tuple, ast.List)):
            if isinstance(v, (ast.Tuple, ast.List)) and len(v.elts) == len(t.elts):
                for tt, vv in zip(t.elts, v.elts):
                    self._bind(tt, vv, env)
            else:
                for i, tt in enumerate(t.elts):
                    self._bind(tt, ast.Subscript(value=v, slice=ast.Constant(value=i), ctx=ast.Load()), env)
        # attribute / subscript stores do not change the local environment


# ------------------------------------------------------------------- Feat domain
class Feat:
    """factor = base with optional conjugation / reciprocal;  conj/recip in {0, 1, None(unknown)}"""

    def __init__(self, base, conj=0, recip=0):
        self.base, self.conj, self.recip = base, conj, recip

    def tog(self, conj=0, recip=0):
        def x(a, b):
            return None if a is None else a ^ b
        return Feat(self.base, x(self.conj, conj), x(self.recip, recip))

    def __repr__(self):
        s = self.base
        if self.conj:
            s = f"conj({s})"
        if self.recip:
            s = f"1/{s}"
        return s

    def key(self):
        return (self.base, self.conj, self.recip)


def _is_one(e):
    return isinstance(e, ast.Constant) and e.value in (1, 1.0)


def factor_feat(e, bases=("self._factor", "self._ldiag"), complex_flag="self._complex"):
    """Abstract value of a factor expression, or None."""
    s = src(e)
    if s in bases:
        return Feat(s)
    if isinstance(e, ast.Call):
        nm = call_name(e)
        if nm in ("conj", "conjugate"):
            arg = e.args[0] if e.args else (e.func.value if isinstance(e.func, ast.Attribute) else None)
            if isinstance(e.func, ast.Attribute) and src(e.func.value) not in ("np", "numpy", "jnp") and not e.args:
                arg = e.func.value
            f = factor_feat(arg, bases, complex_flag) if arg is not None else None
            return f.tog(conj=1) if f else None
        if nm == "AnyArray" and e.args:
            return factor_feat(e.args[0], bases, complex_flag)
    if isinstance(e, ast.BinOp) and isinstance(e.op, ast.Div) and _is_one(e.left):
        f = factor_feat(e.right, bases, complex_flag)
        return f.tog(recip=1) if f else None
    if isinstance(e, ast.IfExp) and src(e.test) == complex_flag:
        a, b = factor_feat(e.body, bases, complex_flag), factor_feat(e.orelse, bases, complex_flag)
        if a and b and a.base == b.base and a.recip == b.recip and b.conj == 0:
            return a  # conjugation is the identity on a real diagonal
        return None
    return None


def applied_feat(e, xnames=("x", "x.val", "samp.val"), bases=("self._factor", "self._ldiag"), complex_flag="self._complex"):
    """For an expression applying a factor to the input (x*f, x/f, mul_conj2(x,f), div_conj2(x,f)) return the Feat of the
    effective multiplier; None if not of that shape."""
    if isinstance(e, ast.Call) and call_name(e) in ("Field", "makeField") and len(e.args) == 2:
        return applied_feat(e.args[1], xnames, bases, complex_flag)
    if isinstance(e, ast.Call) and src(e.func).endswith("from_raw") and len(e.args) == 2:
        return applied_feat(e.args[1], xnames, bases, complex_flag)
    if isinstance(e, ast.IfExp) and src(e.test) == complex_flag:
        a, b = applied_feat(e.body, xnames, bases, complex_flag), applied_feat(e.orelse, xnames, bases, complex_flag)
        if a and b and a.base == b.base and a.recip == b.recip and b.conj == 0:
            return a
        return None
    if isinstance(e, ast.BinOp) and isinstance(e.op, (ast.Mult, ast.Div)):
        l, r = e.left, e.right
        if src(l) in xnames:
            f = factor_feat(r, bases, complex_flag)
            if f is None:
                return None
            return f.tog(recip=1) if isinstance(e.op, ast.Div) else f
        if src(r) in xnames and isinstance(e.op, ast.Mult):
            return factor_feat(l, bases, complex_flag)
    if isinstance(e, ast.Call) and call_name(e) in ("mul_conj2", "div_conj2", "mul_conj", "div_conj") and len(e.args) == 2 \
            and src(e.args[0]) in xnames:
        f = factor_feat(e.args[1], bases, complex_flag)
        if f is None:
            return None
        f = f.tog(conj=1)
        return f.tog(recip=1) if call_name(e).startswith("div") else f
    return None
