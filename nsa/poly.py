"""Polynomial normal form for small arithmetic terms (exact, Fractions).

poly: dict {monomial: Fraction}, monomial = sorted tuple of (symbol, power).
cpoly: pair (re, im) of polys - complex-valued terms over real symbols; supports .real/.imag/.conjugate()/abs()**2.
Terms outside the fragment raise KeyError (callers answer `undecided`).
"""
import ast
from fractions import Fraction

from .model import src, call_name


def p_const(c):
    return {(): Fraction(c).limit_denominator(10 ** 9)} if c else {}


def p_sym(s):
    return {((s, 1),): Fraction(1)}


def p_add(a, b, sg=1):
    out = dict(a)
    for k, v in b.items():
        out[k] = out.get(k, 0) + sg * v
    return {k: v for k, v in out.items() if v}


def p_mul(a, b):
    out = {}
    for ma, ca in a.items():
        for mb, cb in b.items():
            d = dict(ma)
            for s_, p_ in mb:
                d[s_] = d.get(s_, 0) + p_
            k = tuple(sorted((s_, p_) for s_, p_ in d.items() if p_))
            out[k] = out.get(k, 0) + ca * cb
    return {k: v for k, v in out.items() if v}


def p_diff(p, sym):
    out = {}
    for mono, c in p.items():
        d = dict(mono)
        if sym not in d:
            continue
        c2 = c * d[sym]
        d[sym] -= 1
        k = tuple(sorted((s_, p_) for s_, p_ in d.items() if p_))
        out[k] = out.get(k, 0) + c2
    return {k: v for k, v in out.items() if v}


def p_str(p):
    if not p:
        return "0"
    return " + ".join((f"{c}*" if c != 1 or not mono else "") + "*".join(f"{s_}^{n}" if n != 1 else s_ for s_, n in mono) or str(c)
                      for mono, c in sorted(p.items()))


def poly(e, env, product_calls=("vdot",)):
    """real polynomial of an ast expression; env maps names to symbols"""
    if isinstance(e, ast.Name):
        return p_sym(env[e.id])
    if isinstance(e, ast.Constant) and isinstance(e.value, (int, float)) and not isinstance(e.value, bool):
        return p_const(e.value)
    if isinstance(e, ast.UnaryOp) and isinstance(e.op, ast.USub):
        return {k: -v for k, v in poly(e.operand, env, product_calls).items()}
    if isinstance(e, ast.BinOp):
        if isinstance(e.op, ast.Add):
            return p_add(poly(e.left, env, product_calls), poly(e.right, env, product_calls))
        if isinstance(e.op, ast.Sub):
            return p_add(poly(e.left, env, product_calls), poly(e.right, env, product_calls), -1)
        if isinstance(e.op, ast.Mult):
            return p_mul(poly(e.left, env, product_calls), poly(e.right, env, product_calls))
        if isinstance(e.op, ast.Div):
            d = poly(e.right, env, product_calls)
            if list(d) == [()]:
                return {k: v / d[()] for k, v in poly(e.left, env, product_calls).items()}
            raise KeyError(src(e))
        if isinstance(e.op, ast.Pow) and isinstance(e.right, ast.Constant) and isinstance(e.right.value, int) and e.right.value >= 0:
            out = p_const(1)
            for _ in range(e.right.value):
                out = p_mul(out, poly(e.left, env, product_calls))
            return out
    if isinstance(e, ast.Call) and call_name(e) in product_calls and len(e.args) == 2:
        return p_mul(poly(e.args[0], env, product_calls), poly(e.args[1], env, product_calls))
    raise KeyError(src(e))


def cpoly(e, env):
    """complex polynomial (re, im); env maps names to (re poly, im poly)"""
    def c_mul(a, b):
        return (p_add(p_mul(a[0], b[0]), p_mul(a[1], b[1]), -1), p_add(p_mul(a[0], b[1]), p_mul(a[1], b[0])))
    if isinstance(e, ast.Name):
        return env[e.id]
    if isinstance(e, ast.Constant) and isinstance(e.value, (int, float)) and not isinstance(e.value, bool):
        return (p_const(e.value), {})
    if isinstance(e, ast.Constant) and isinstance(e.value, complex):
        return (p_const(e.value.real), p_const(e.value.imag))
    if isinstance(e, ast.Attribute) and e.attr == "real":
        return (cpoly(e.value, env)[0], {})
    if isinstance(e, ast.Attribute) and e.attr == "imag":
        return (cpoly(e.value, env)[1], {})
    if isinstance(e, ast.Call) and isinstance(e.func, ast.Attribute) and e.func.attr in ("conjugate", "conj") and not e.args:
        v = cpoly(e.func.value, env)
        return (v[0], {k: -c for k, c in v[1].items()})
    if isinstance(e, ast.UnaryOp) and isinstance(e.op, ast.USub):
        v = cpoly(e.operand, env)
        return ({k: -c for k, c in v[0].items()}, {k: -c for k, c in v[1].items()})
    if isinstance(e, ast.BinOp):
        if isinstance(e.op, (ast.Add, ast.Sub)):
            a, b = cpoly(e.left, env), cpoly(e.right, env)
            sg = 1 if isinstance(e.op, ast.Add) else -1
            return (p_add(a[0], b[0], sg), p_add(a[1], b[1], sg))
        if isinstance(e.op, ast.Mult):
            return c_mul(cpoly(e.left, env), cpoly(e.right, env))
        if isinstance(e.op, ast.Pow) and isinstance(e.right, ast.Constant) and isinstance(e.right.value, int) and e.right.value >= 0:
            base = e.left
            # abs(z)**2 / z.absolute()**2
            if e.right.value % 2 == 0 and ((isinstance(base, ast.Call) and call_name(base) in ("abs", "absolute") and
                                            (len(base.args) == 1 or isinstance(base.func, ast.Attribute)))):
                inner = base.args[0] if base.args else base.func.value
                z = cpoly(inner, env)
                m2 = (p_add(p_mul(z[0], z[0]), p_mul(z[1], z[1])), {})
                out = (p_const(1), {})
                for _ in range(e.right.value // 2):
                    out = c_mul(out, m2)
                return out
            out = (p_const(1), {})
            z = cpoly(base, env)
            for _ in range(e.right.value):
                out = c_mul(out, z)
            return out
    raise KeyError(src(e))
