"""E9 - obligations, floors, evidence, known findings, exit codes."""
import hashlib
import json
import os
import re
import time

VERIF = os.path.dirname(os.path.dirname(os.path.abspath(__file__)))
EVIDENCE_DIR = os.path.join(VERIF, "evidence")
REPLAY_DIR = os.path.join(EVIDENCE_DIR, "replay")
KNOWN = os.path.join(VERIF, "known_findings.json")

OK, BAD, UND = "discharged", "violated", "undecided"


def norm_key(s):
    return " ".join(str(s).split())


class Obligation:
    __slots__ = ("rule", "key", "verdict", "detail", "loc", "witness")

    def __init__(self, rule, key, verdict, detail=None, loc=None, witness=None):
        self.rule = rule
        self.key = norm_key(key)
        self.verdict = verdict
        self.detail = detail
        self.loc = loc
        self.witness = witness

    def as_dict(self):
        d = {"rule": self.rule, "instance": self.key, "verdict": self.verdict}
        if self.detail:
            d["detail"] = self.detail
        if self.loc:
            d["loc"] = self.loc
        if self.witness:
            d["witness"] = self.witness
        return d


class Ctx:
    def __init__(self, prop, tier="quick", model=None, quiet=False):
        self.prop = prop
        self.tier = tier
        self.model = model
        self.quiet = quiet
        self.obs = []
        self._index = {}
        self.floors = {}  # rule -> (min decided instances, note)
        self.rules = {}  # rule -> description
        self.notes = []
        self.errors = []  # analysis errors (exit 2)
        self.unresolved = []
        self.extra = {}
        self.assumptions = []
        self.functions_analysed = set()
        self.classes_analysed = set()
        self.selftest = None
        self.t0 = time.time()

    # -- recording ---------------------------------------------------------
    def rule(self, rid, text, floor=None):
        self.rules[rid] = text
        try:
            from .floors import FLOORS
            floor = FLOORS.get(rid, floor)
        except ImportError:
            pass
        if floor is not None:
            self.floors[rid] = floor

    def _loc(self, where, node=None):
        if where is None:
            return None
        f = getattr(where, "file", None) or (where if isinstance(where, str) else None)
        ln = getattr(node, "lineno", None) if node is not None else getattr(getattr(where, "node", None), "lineno", None)
        return f"{f}:{ln}" if ln else f

    def ob(self, rule, key, verdict, detail=None, where=None, node=None, witness=None):
        o = Obligation(rule, key, verdict, detail, self._loc(where, node), witness)
        idx = self._index.get((o.rule, o.key))
        if idx is not None:
            # the same instance reached along several specialised paths: keep one record, the worst verdict wins
            rank = {OK: 0, UND: 1, BAD: 2}
            if rank[o.verdict] > rank[self.obs[idx].verdict]:
                self.obs[idx] = o
            return self.obs[idx]
        self._index[(o.rule, o.key)] = len(self.obs)
        self.obs.append(o)
        return o

    def ok(self, rule, key, detail=None, where=None, node=None):
        return self.ob(rule, key, OK, detail, where, node)

    def bad(self, rule, key, detail=None, where=None, node=None, witness=None):
        return self.ob(rule, key, BAD, detail, where, node, witness)

    def und(self, rule, key, detail=None, where=None, node=None):
        return self.ob(rule, key, UND, detail, where, node)

    def check(self, rule, key, cond, detail=None, where=None, node=None, witness=None):
        """cond True -> discharged, False -> violated, None -> undecided."""
        v = OK if cond is True else BAD if cond is False else UND
        return self.ob(rule, key, v, detail, where, node, witness)

    def error(self, msg):
        self.errors.append(msg)

    def saw_func(self, fi):
        self.functions_analysed.add(fi.key)

    def saw_class(self, ci):
        self.classes_analysed.add(ci.key)

    # -- finishing ---------------------------------------------------------
    def counts(self):
        c = {OK: 0, BAD: 0, UND: 0}
        for o in self.obs:
            c[o.verdict] += 1
        return c

    def per_rule(self):
        out = {}
        for o in self.obs:
            r = out.setdefault(o.rule, {OK: 0, BAD: 0, UND: 0})
            r[o.verdict] += 1
        return out

    def check_floors(self):
        pr = self.per_rule()
        for rid, fl in self.floors.items():
            c = pr.get(rid, {OK: 0, BAD: 0, UND: 0})
            decided = c[OK] + c[BAD]
            if decided < fl:
                self.error(f"rule {rid}: only {decided} decided instance(s), floor is {fl} "
                           f"(undecided={c[UND]}) - anchors moved or idiom no longer recognised")

    def finish(self, write=True):
        """Print report lines, write evidence; returns exit code."""
        self.check_floors()
        known = load_known()
        lines = []
        n_viol = 0
        n_known = 0
        os.makedirs(REPLAY_DIR, exist_ok=True)
        seen = set()
        for o in self.obs:
            if o.verdict != BAD:
                continue
            ident = (o.rule, o.key)
            if ident in seen:
                continue
            seen.add(ident)
            kf = match_known(known, self.prop, o.rule, o.key)
            if kf is not None:
                n_known += 1
                lines.append(f"KNOWN-FINDING: property={self.prop} rule={o.rule} {kf['what_fails']} [{o.key}]")
                continue
            n_viol += 1
            h = hashlib.sha1(f"{o.rule}|{o.key}".encode()).hexdigest()[:10]
            rp = os.path.join(REPLAY_DIR, f"{self.prop}-{o.rule}-{h}.json")
            if write:
                with open(rp, "w") as f:
                    json.dump({"property": self.prop, "rule": o.rule, "rule_text": self.rules.get(o.rule),
                               "instance_key": o.key, "loc": o.loc, "detail": o.detail,
                               "witness": o.witness,
                               "replay_cmd": f"/verif/vcheck {self.prop} --tier {self.tier}"}, f, indent=1)
            lines.append(f"  rule {o.rule} at {o.loc}: {o.key}" + (f" -- {o.detail}" if o.detail else ""))
            lines.append(f"VIOLATION property={self.prop} replay={rp}")
        for e in self.errors:
            lines.append(f"ANALYSIS-ERROR property={self.prop} {e}")
        code = 1 if n_viol else (2 if self.errors else 0)
        if write:
            self.write_evidence(n_viol, n_known)
        c = self.counts()
        summary = (f"[{self.prop}/{self.tier}] obligations={len(self.obs)} discharged={c[OK]} "
                   f"violated={c[BAD]} (known={n_known}) undecided={c[UND]} "
                   f"errors={len(self.errors)} wall={time.time() - self.t0:.2f}s exit={code}")
        if not self.quiet:
            for ln in lines:
                print(ln)
            print(summary)
        return code

    def write_evidence(self, n_viol, n_known):
        os.makedirs(EVIDENCE_DIR, exist_ok=True)
        c = self.counts()
        pr = self.per_rule()
        samples = []
        per_rule_seen = {}
        for o in self.obs:
            k = per_rule_seen.get(o.rule, 0)
            if k < 3 or o.verdict != OK:
                samples.append(o.as_dict())
                per_rule_seen[o.rule] = k + 1
            if len(samples) >= 60:
                break
        distinct = len({(o.rule, o.key) for o in self.obs if o.verdict != UND})
        expl = ("Static analysis (ast-based) of /repo's working tree; NIFTy is never imported or run. "
                "Rules: " + "; ".join(f"{r}: {t}" for r, t in sorted(self.rules.items())))
        cov = {
            "explanation": expl,
            "obligations": len(self.obs),
            "discharged": c[OK],
            "violated": c[BAD],
            "undecided": c[UND],
            "known_findings_matched": n_known,
            "evaluations": max(len(self.obs), 1),
            "distinct_nontrivial": distinct,
            "rule": "one evaluation = one rule instance (obligation) located in the source and decided; "
                    "distinct = distinct (rule, instance key) pairs with a decided verdict",
            "per_rule": pr,
            "instance_floors": self.floors,
            "functions_analysed": len(self.functions_analysed),
            "classes_analysed": len(self.classes_analysed),
            "functions": sorted(self.functions_analysed)[:200],
            "unresolved_calls": self.unresolved[:100],
            "samples": samples,
            "exhaustive": bool(self.extra.get("exhaustive", False)),
            "files_sha256": self.model.digests() if self.model is not None else {},
            "analysis_errors": self.errors,
            "notes": self.notes,
        }
        if self.selftest is not None:
            cov["selftest"] = self.selftest
        for k, v in self.extra.items():
            if k != "exhaustive":
                cov[k] = v
        ev = {
            "property_id": self.prop,
            "tier": self.tier,
            "seed": int(os.environ.get("VERIF_SEED", "0") or 0),
            "level": "other",
            "coverage": cov,
            "assumptions": self.assumptions or [
                "Python's ast module parses the files as the interpreter would",
                "the structural clause checked is a necessary condition of the property (argument in DESIGN.md); "
                "the numerical behaviour itself is not decided",
            ],
            "wall_s": round(time.time() - self.t0, 3),
            "violations": n_viol,
        }
        tmp = os.path.join(EVIDENCE_DIR, f".{self.prop}.json.tmp{os.getpid()}")
        with open(tmp, "w") as f:
            json.dump(ev, f, indent=1, default=str)
        os.replace(tmp, os.path.join(EVIDENCE_DIR, f"{self.prop}.json"))


def load_known():
    try:
        with open(KNOWN) as f:
            return json.load(f).get("findings", [])
    except FileNotFoundError:
        return []


def match_known(known, prop, rule, key):
    for k in known:
        if k.get("property") == prop and k.get("rule") == rule and norm_key(k.get("instance_key", "")) == key:
            return k
    return None
