"""Prints a markdown table of rules / obligation counts from the evidence files (for DESIGN.md section 9)."""
import json, glob, os
HERE = os.path.dirname(os.path.dirname(os.path.abspath(__file__)))
rows = []
for f in sorted(glob.glob(os.path.join(HERE, "evidence", "C*.json"))):
    d = json.load(open(f))
    c = d["coverage"]
    for r, v in sorted(c["per_rule"].items()):
        rows.append((d["property_id"], r, v["discharged"], v["violated"], v["undecided"], c["instance_floors"].get(r, "")))
print("| property | rule | discharged | violated | undecided | floor |")
print("|---|---|---|---|---|---|")
for r in rows:
    print("| " + " | ".join(str(x) for x in r) + " |")
