"""Re-use of another property's rule under this property's rule id: the rule function runs against a proxy context that renames the
mapped rule ids and drops the obligations of every other rule it happens to emit."""


class _Proxy:
    def __init__(self, ctx, mapping, note):
        object.__setattr__(self, "_ctx", ctx)
        object.__setattr__(self, "_map", mapping)
        object.__setattr__(self, "_note", note)

    def __getattr__(self, name):
        return getattr(self._ctx, name)

    def __setattr__(self, name, value):
        setattr(self._ctx, name, value)

    def rule(self, rid, text, floor=None):
        if rid in self._map:
            self._ctx.rule(self._map[rid], text + f" [{self._note}]", floor=None)

    def ob(self, rule, key, verdict, detail=None, where=None, node=None, witness=None):
        if rule in self._map:
            return self._ctx.ob(self._map[rule], key, verdict, detail, where, node, witness)
        return None

    def ok(self, rule, key, detail=None, where=None, node=None):
        if rule in self._map:
            return self._ctx.ok(self._map[rule], key, detail, where, node)

    def bad(self, rule, key, detail=None, where=None, node=None, witness=None):
        if rule in self._map:
            return self._ctx.bad(self._map[rule], key, detail, where, node, witness)

    def und(self, rule, key, detail=None, where=None, node=None):
        if rule in self._map:
            return self._ctx.und(self._map[rule], key, detail, where, node)

    def check(self, rule, key, cond, detail=None, where=None, node=None, witness=None):
        if rule in self._map:
            return self._ctx.check(self._map[rule], key, cond, detail, where, node, witness)

    def error(self, msg):
        # an analysis error of the borrowed rule concerns the borrowed rule ids only if it names them
        if any(r in msg for r in self._map):
            self._ctx.error(msg)


def alias(ctx, fn, mapping, note, *args):
    """run fn(proxy, *args); mapping: {foreign rule id: own rule id}"""
    fn(_Proxy(ctx, mapping, note), *args)
