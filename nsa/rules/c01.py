"""C01 - linear-operator algebra: mode tables (exhaustive), capability composition, dispatch semantics."""
import ast

from ..consteval import ConstEval, class_consts_env, class_resolver, TOP
from ..model import src, short, walk_no_nested, is_self_attr, call_name
from ..util import cfg_of, known_atoms

LO = ("nifty.cl.operators.linear_operator", "LinearOperator")
OPS = "nifty.cl.operators."


def bits(c):
    return [k for k in range(4) if c & (1 << k)]


def r01_1(ctx):
    m = ctx.model
    L = m.cls(*LO)
    ctx.saw_class(L)
    ctx.rule("R01.1", "mode tables of LinearOperator satisfy their defining identities (transformation t acts on mode "
                      "index k by XOR): _modeTable, _capTable, _addInverse, _ilog, _validMode, _backwards, _all_ops, "
                      "mode constants, and _dom/_tgt select domain/target by direction - complete enumeration", floor=120)
    env = class_consts_env(m, L)
    need = ["TIMES", "ADJOINT_TIMES", "INVERSE_TIMES", "ADJOINT_INVERSE_TIMES", "ADJOINT_BIT", "INVERSE_BIT",
            "_ilog", "_validMode", "_modeTable", "_capTable", "_addInverse", "_backwards", "_all_ops"]
    for k in need:
        if k not in env:
            ctx.error(f"LinearOperator.{k} is missing or not a constant expression")
            return
    K = f"{L.key}::"
    exp_modes = {"TIMES": 1, "ADJOINT_TIMES": 2, "INVERSE_TIMES": 4, "ADJOINT_INVERSE_TIMES": 8}
    for k, v in exp_modes.items():
        ctx.check("R01.1", f"{K}{k} == {v}", env[k] == v, f"is {env[k]!r}", L)
    if "INVERSE_ADJOINT_TIMES" in env:
        ctx.check("R01.1", f"{K}INVERSE_ADJOINT_TIMES == ADJOINT_INVERSE_TIMES", env["INVERSE_ADJOINT_TIMES"] == env["ADJOINT_INVERSE_TIMES"], None, L)
    ctx.check("R01.1", f"{K}ADJOINT_BIT == 1", env["ADJOINT_BIT"] == 1, f"is {env['ADJOINT_BIT']!r}", L)
    ctx.check("R01.1", f"{K}INVERSE_BIT == 2", env["INVERSE_BIT"] == 2, f"is {env['INVERSE_BIT']!r}", L)
    mt, ct, ai, il, vm = env["_modeTable"], env["_capTable"], env["_addInverse"], env["_ilog"], env["_validMode"]
    try:
        for t in range(4):
            for k in range(4):
                ctx.check("R01.1", f"{K}_modeTable[{t}][{k}] == 1 << ({k} ^ {t})", mt[t][k] == 1 << (k ^ t), f"is {mt[t][k]!r}", L)
        for t in range(4):
            for c in range(16):
                exp = 0
                for k in bits(c):
                    exp |= 1 << (k ^ t)
                ctx.check("R01.1", f"{K}_capTable[{t}][{c}] == {exp}", ct[t][c] == exp, f"is {ct[t][c]!r}", L)
        for c in range(16):
            exp = c
            for k in bits(c):
                exp |= 1 << (k ^ 2)
            ctx.check("R01.1", f"{K}_addInverse[{c}] == {exp}", ai[c] == exp, f"is {ai[c]!r}", L)
        for mode in range(9):
            exp = {1: 0, 2: 1, 4: 2, 8: 3}.get(mode, -1)
            ctx.check("R01.1", f"{K}_ilog[{mode}] == {exp}", il[mode] == exp, f"is {il[mode]!r}", L)
            ctx.check("R01.1", f"{K}_validMode[{mode}] == {mode in (1, 2, 4, 8)}", bool(vm[mode]) == (mode in (1, 2, 4, 8)), f"is {vm[mode]!r}", L)
        ctx.check("R01.1", f"{K}len(_ilog) == len(_validMode) == 9", len(il) == 9 and len(vm) == 9, None, L)
    except (IndexError, TypeError) as e:
        ctx.bad("R01.1", f"{K}table shapes", f"table has the wrong shape: {e}", L)
    ctx.check("R01.1", f"{K}_backwards == ADJOINT_TIMES | INVERSE_TIMES", env["_backwards"] == 6, f"is {env['_backwards']!r}", L)
    ctx.check("R01.1", f"{K}_all_ops == 15", env["_all_ops"] == 15, f"is {env['_all_ops']!r}", L)
    # _dom / _tgt
    for name, dom_modes in (("_dom", {1, 8}), ("_tgt", {2, 4})):
        fi = m.resolve_method(L, name)
        if fi is None:
            ctx.error(f"LinearOperator.{name} missing")
            continue
        ctx.saw_func(fi)
        rets = [n for n in walk_no_nested(fi.node) if isinstance(n, ast.Return)]
        pm = fi.node.args.args[1].arg
        for mode in (1, 2, 4, 8):
            key = f"{K}{name}({mode}) is the {'domain' if mode in dom_modes else 'target'}"
            got = _select(m, L, fi, {pm: mode})
            exp = "domain" if mode in dom_modes else "target"
            ctx.check("R01.1", key, (got == exp) if got is not None else None, f"selects {got}", fi)
    # EndomorphicOperator: target is the domain
    E = m.cls(OPS + "endomorphic_operator", "EndomorphicOperator")
    ctx.saw_class(E)
    tp = m.resolve_attr(E, "target")
    ok_ = False
    if tp and tp[0] == "func":
        r = [n for n in walk_no_nested(tp[1].node) if isinstance(n, ast.Return)]
        ok_ = len(r) == 1 and src(r[0].value) in ("self._domain", "self.domain")
    ctx.check("R01.1", f"{E.key}::target is the domain", ok_, None, E)
    ctx.extra["exhaustive"] = True


def _select(model, cls, fi, env):
    """Evaluate a `return A if <const test> else B` / if-else body for fixed env -> 'domain' | 'target' | None."""
    ev = ConstEval(env, class_resolver(model, cls))

    def classify(e):
        s = src(e)
        if s in ("self.domain", "self._domain"):
            return "domain"
        if s in ("self.target", "self._target"):
            return "target"
        return None

    def ev_expr(e):
        if isinstance(e, ast.IfExp):
            t = ev.try_eval(e.test)
            if t is TOP:
                return None
            return ev_expr(e.body if t else e.orelse)
        return classify(e)

    def walk(body):
        for st in body:
            if isinstance(st, ast.Return):
                return ev_expr(st.value)
            if isinstance(st, ast.If):
                t = ev.try_eval(st.test)
                if t is TOP:
                    return None
                r = walk(st.body if t else st.orelse)
                if r is not None:
                    return r
        return None
    return walk(fi.node.body)


# --------------------------------------------------------------------------- R01.2
class CapForm:
    """Symbolic capability: const mask & fold over collections & caps of single sources, optionally through a table."""

    def __init__(self):
        self.const = None
        self.folds = []      # (collection expr text, op '&' or other, guarded_skip_none)
        self.sources = []    # cap of single expression text
        self.table = None    # (table name, [index texts])
        self.unknown = []

    def __repr__(self):
        return f"Cap(const={self.const}, folds={self.folds}, sources={self.sources}, table={self.table}, unknown={self.unknown})"


def _cap_source(e):
    """X.capability / X._capability -> text of X"""
    if isinstance(e, ast.Attribute) and e.attr in ("capability", "_capability"):
        return src(e.value)
    return None


def cap_formula(model, cls, init):
    f = CapForm()
    ev = ConstEval({}, class_resolver(model, cls))
    loops = {}
    for st in ast.walk(init.node):
        if isinstance(st, ast.For):
            for s2 in ast.walk(st):
                loops.setdefault(id(s2), st)
    for st in walk_no_nested(init.node):
        if isinstance(st, ast.Assign) and any(is_self_attr(t, "_capability") for t in st.targets):
            v = st.value
            c = ev.try_eval(v)
            if c is not TOP and isinstance(c, int):
                f.const = c
                continue
            s = _cap_source(v)
            if s is not None:
                f.sources.append(s)
                continue
            if isinstance(v, ast.Subscript):
                idx = []
                cur = v
                while isinstance(cur, ast.Subscript):
                    idx.append(cur.slice)
                    cur = cur.value
                idx.reverse()
                if is_self_attr(cur):
                    inner = _cap_source(idx[-1])
                    if inner is not None:
                        f.table = (cur.attr, [src(i) for i in idx[:-1]], inner)
                        continue
            f.unknown.append(src(st))
        elif isinstance(st, ast.AugAssign) and is_self_attr(st.target, "_capability"):
            s = _cap_source(st.value)
            op = {ast.BitAnd: "&", ast.BitOr: "|", ast.BitXor: "^"}.get(type(st.op), "?")
            lp = loops.get(id(st))
            if s is not None and lp is not None and isinstance(lp.target, ast.Name) and lp.target.id == s:
                f.folds.append((src(lp.iter), op))
            elif s is not None:
                f.sources.append(("aug" + op, s))
            else:
                c = ev.try_eval(st.value)
                f.unknown.append(src(st))
    return f


def r01_2(ctx):
    m = ctx.model
    ctx.rule("R01.2", "capability composition: sums advertise (TIMES|ADJOINT) & all constituents, chains and block-diagonals "
                      "15 & all constituents (folding with & over the very collection that is stored and applied), adapters "
                      "_capTable[trafo][cap], inversion enablers _addInverse[cap], pure wrappers the wrapped capability", floor=7)
    spec = [
        ("sum_operator", "SumOperator", ("fold", 3, "_ops")),
        ("chain_operator", "ChainOperator", ("fold", 15, "_ops")),
        ("block_diagonal_operator", "BlockDiagonalOperator", ("fold", 15, "_ops")),
        ("operator_adapter", "OperatorAdapter", ("table", "_capTable", ["self._trafo"], "_op")),
        ("inversion_enabler", "InversionEnabler", ("table", "_addInverse", [], "_op")),
        ("sandwich_operator", "SandwichOperator", ("wrap", "_op")),
        ("sampling_enabler", "SamplingEnabler", ("wrap", "_op")),
    ]
    for modn, clsn, what in spec:
        c = m.cls(OPS + modn, clsn)
        ctx.saw_class(c)
        init = m.resolve_method(c, "__init__")
        ctx.saw_func(init)
        f = cap_formula(m, c, init)
        key = f"{c.key}::capability formula"
        stored = {}  # attr -> text of stored value
        for st in walk_no_nested(init.node):
            if isinstance(st, ast.Assign):
                for t in st.targets:
                    if is_self_attr(t):
                        stored[t.attr] = st.value
        if f.unknown:
            ctx.und("R01.2", key, f"unmodelled capability statements: {f.unknown}", init)
            continue
        if what[0] == "fold":
            _, const, coll_attr = what
            good = f.const == const and len(f.folds) == 1 and not f.sources and f.table is None
            detail = f"{f}"
            if good:
                coll, op = f.folds[0]
                # collection iterated is the stored collection itself (or the parameter stored unchanged)
                sv = stored.get(coll_attr)
                same = coll == f"self.{coll_attr}" or (sv is not None and isinstance(sv, ast.Name) and coll == sv.id)
                if op != "&":
                    good, detail = False, f"constituent capabilities are combined with `{op}=` instead of `&=`"
                elif not same:
                    good, detail = False, (f"fold ranges over `{coll}`, which is not the stored collection "
                                           f"self.{coll_attr} = {src(sv) if sv is not None else '?'}")
                else:
                    # apply must iterate the same stored collection
                    ap = m.resolve_method(c, "apply")
                    uses = any(is_self_attr(x, coll_attr) for x in ast.walk(ap.node))
                    if not uses:
                        good, detail = False, f"apply does not use self.{coll_attr}"
            else:
                if f.const != const:
                    detail = f"fold starts from mask {f.const}, expected {const}: " + detail
            ctx.check("R01.2", key, good, detail, init)
        elif what[0] == "table":
            _, tname, idx, attr = what
            sv = stored.get(attr)
            good = f.table is not None and f.table[0] == tname and f.table[1] == idx and f.const is None and not f.folds \
                and f.table[2] in (f"self.{attr}", src(sv) if sv is not None else None)
            ctx.check("R01.2", key, good, f"{f}; expected self.{tname}{''.join('[' + i + ']' for i in idx)}[self.{attr}.capability]", init)
        else:
            _, attr = what
            sv = stored.get(attr)
            cands = {f"self.{attr}"}
            if sv is not None:
                cands.add(src(sv))
            good = len(f.sources) == 1 and f.sources[0] in cands and f.const is None and not f.folds and f.table is None
            # apply must delegate to the same wrapped operator
            ap = m.resolve_method(c, "apply")
            deleg = False
            if ap is not None and ap.cls is c:
                deleg = any(isinstance(x, ast.Call) and call_name(x) == "apply" and src(x.func.value) == f"self.{attr}"
                            for x in ast.walk(ap.node))
            else:
                deleg = any(isinstance(st, ast.Assign) and any(is_self_attr(t, "apply") for t in st.targets)
                            and src(st.value) == f"self.{attr}.apply" for st in walk_no_nested(init.node))
            ctx.check("R01.2", key, good and deleg, f"{f}; delegates apply to self.{attr}: {deleg}", init)
    # HarmonicTransformOperator: delegating wrapper advertising only what both candidates support
    # (checked in C09)


def run(ctx):
    r01_1(ctx)
    r01_2(ctx)
