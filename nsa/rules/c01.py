"""C01 - linear-operator algebra: mode tables (exhaustive), capability composition, dispatch semantics."""
import ast

from ..consteval import ConstEval, class_consts_env, class_resolver, TOP
from ..model import src, short, walk_no_nested, is_self_attr, call_name
from ..util import cfg_of, known_atoms, find_nodes

LO = ("nifty.cl.operators.linear_operator", "LinearOperator")
OPS = "nifty.cl.operators."


def bits(c):
    return [k for k in range(4) if c & (1 << k)]


def r01_1(ctx):
    m = ctx.model
    L = m.cls(*LO)
    ctx.saw_class(L)
    ctx.rule("R01.1", "mode tables of LinearOperator satisfy their defining identities (transformation t acts on mode "
                      "index k by XOR): _modeTable, _capTable, _addInverse, _ilog, _validMode, _backwards, _all_ops, "
                      "mode constants, and _dom/_tgt select domain/target by direction - complete enumeration", floor=120)
    env = class_consts_env(m, L)
    need = ["TIMES", "ADJOINT_TIMES", "INVERSE_TIMES", "ADJOINT_INVERSE_TIMES", "ADJOINT_BIT", "INVERSE_BIT",
            "_ilog", "_validMode", "_modeTable", "_capTable", "_addInverse", "_backwards", "_all_ops"]
    for k in need:
        if k not in env:
            ctx.error(f"LinearOperator.{k} is missing or not a constant expression")
            return
    K = f"{L.key}::"
    exp_modes = {"TIMES": 1, "ADJOINT_TIMES": 2, "INVERSE_TIMES": 4, "ADJOINT_INVERSE_TIMES": 8}
    for k, v in exp_modes.items():
        ctx.check("R01.1", f"{K}{k} == {v}", env[k] == v, f"is {env[k]!r}", L)
    if "INVERSE_ADJOINT_TIMES" in env:
        ctx.check("R01.1", f"{K}INVERSE_ADJOINT_TIMES == ADJOINT_INVERSE_TIMES", env["INVERSE_ADJOINT_TIMES"] == env["ADJOINT_INVERSE_TIMES"], None, L)
    ctx.check("R01.1", f"{K}ADJOINT_BIT == 1", env["ADJOINT_BIT"] == 1, f"is {env['ADJOINT_BIT']!r}", L)
    ctx.check("R01.1", f"{K}INVERSE_BIT == 2", env["INVERSE_BIT"] == 2, f"is {env['INVERSE_BIT']!r}", L)
    mt, ct, ai, il, vm = env["_modeTable"], env["_capTable"], env["_addInverse"], env["_ilog"], env["_validMode"]
    try:
        for t in range(4):
            for k in range(4):
                ctx.check("R01.1", f"{K}_modeTable[{t}][{k}] == 1 << ({k} ^ {t})", mt[t][k] == 1 << (k ^ t), f"is {mt[t][k]!r}", L)
        for t in range(4):
            for c in range(16):
                exp = 0
                for k in bits(c):
                    exp |= 1 << (k ^ t)
                ctx.check("R01.1", f"{K}_capTable[{t}][{c}] == {exp}", ct[t][c] == exp, f"is {ct[t][c]!r}", L)
        for c in range(16):
            exp = c
            for k in bits(c):
                exp |= 1 << (k ^ 2)
            ctx.check("R01.1", f"{K}_addInverse[{c}] == {exp}", ai[c] == exp, f"is {ai[c]!r}", L)
        for mode in range(9):
            exp = {1: 0, 2: 1, 4: 2, 8: 3}.get(mode, -1)
            ctx.check("R01.1", f"{K}_ilog[{mode}] == {exp}", il[mode] == exp, f"is {il[mode]!r}", L)
            ctx.check("R01.1", f"{K}_validMode[{mode}] == {mode in (1, 2, 4, 8)}", bool(vm[mode]) == (mode in (1, 2, 4, 8)), f"is {vm[mode]!r}", L)
        ctx.check("R01.1", f"{K}len(_ilog) == len(_validMode) == 9", len(il) == 9 and len(vm) == 9, None, L)
    except (IndexError, TypeError) as e:
        ctx.bad("R01.1", f"{K}table shapes", f"table has the wrong shape: {e}", L)
    ctx.check("R01.1", f"{K}_backwards == ADJOINT_TIMES | INVERSE_TIMES", env["_backwards"] == 6, f"is {env['_backwards']!r}", L)
    ctx.check("R01.1", f"{K}_all_ops == 15", env["_all_ops"] == 15, f"is {env['_all_ops']!r}", L)
    # _dom / _tgt
    for name, dom_modes in (("_dom", {1, 8}), ("_tgt", {2, 4})):
        fi = m.resolve_method(L, name)
        if fi is None:
            ctx.error(f"LinearOperator.{name} missing")
            continue
        ctx.saw_func(fi)
        rets = [n for n in walk_no_nested(fi.node) if isinstance(n, ast.Return)]
        pm = fi.node.args.args[1].arg
        for mode in (1, 2, 4, 8):
            key = f"{K}{name}({mode}) is the {'domain' if mode in dom_modes else 'target'}"
            got = _select(m, L, fi, {pm: mode})
            exp = "domain" if mode in dom_modes else "target"
            ctx.check("R01.1", key, (got == exp) if got is not None else None, f"selects {got}", fi)
    # EndomorphicOperator: target is the domain
    E = m.cls(OPS + "endomorphic_operator", "EndomorphicOperator")
    ctx.saw_class(E)
    tp = m.resolve_attr(E, "target")
    ok_ = False
    if tp and tp[0] == "func":
        r = [n for n in walk_no_nested(tp[1].node) if isinstance(n, ast.Return)]
        ok_ = len(r) == 1 and src(r[0].value) in ("self._domain", "self.domain")
    ctx.check("R01.1", f"{E.key}::target is the domain", ok_, None, E)
    ctx.extra["exhaustive"] = True


def _select(model, cls, fi, env):
    """Evaluate a `return A if <const test> else B` / if-else body for fixed env -> 'domain' | 'target' | None."""
    ev = ConstEval(env, class_resolver(model, cls))

    def classify(e):
        s = src(e)
        if s in ("self.domain", "self._domain"):
            return "domain"
        if s in ("self.target", "self._target"):
            return "target"
        return None

    def ev_expr(e):
        if isinstance(e, ast.IfExp):
            t = ev.try_eval(e.test)
            if t is TOP:
                return None
            return ev_expr(e.body if t else e.orelse)
        return classify(e)

    def walk(body):
        for st in body:
            if isinstance(st, ast.Return):
                return ev_expr(st.value)
            if isinstance(st, ast.If):
                t = ev.try_eval(st.test)
                if t is TOP:
                    return None
                r = walk(st.body if t else st.orelse)
                if r is not None:
                    return r
        return None
    return walk(fi.node.body)


# --------------------------------------------------------------------------- R01.2
class CapForm:
    """Symbolic capability: const mask & fold over collections & caps of single sources, optionally through a table."""

    def __init__(self):
        self.const = None
        self.folds = []      # (collection expr text, op '&' or other, guarded_skip_none)
        self.sources = []    # cap of single expression text
        self.table = None    # (table name, [index texts])
        self.unknown = []

    def __repr__(self):
        return f"Cap(const={self.const}, folds={self.folds}, sources={self.sources}, table={self.table}, unknown={self.unknown})"


def _cap_source(e):
    """X.capability / X._capability -> text of X"""
    if isinstance(e, ast.Attribute) and e.attr in ("capability", "_capability"):
        return src(e.value)
    return None


def cap_formula(model, cls, init):
    f = CapForm()
    ev = ConstEval({}, class_resolver(model, cls))
    loops = {}
    for st in ast.walk(init.node):
        if isinstance(st, ast.For):
            for s2 in ast.walk(st):
                loops.setdefault(id(s2), st)
    for st in walk_no_nested(init.node):
        if isinstance(st, ast.Assign) and any(is_self_attr(t, "_capability") for t in st.targets):
            v = st.value
            c = ev.try_eval(v)
            if c is not TOP and isinstance(c, int):
                f.const = c
                continue
            s = _cap_source(v)
            if s is not None:
                f.sources.append(s)
                continue
            if isinstance(v, ast.Subscript):
                idx = []
                cur = v
                while isinstance(cur, ast.Subscript):
                    idx.append(cur.slice)
                    cur = cur.value
                idx.reverse()
                if is_self_attr(cur):
                    inner = _cap_source(idx[-1])
                    if inner is not None:
                        f.table = (cur.attr, [src(i) for i in idx[:-1]], inner)
                        continue
            f.unknown.append(src(st))
        elif isinstance(st, ast.AugAssign) and is_self_attr(st.target, "_capability"):
            s = _cap_source(st.value)
            op = {ast.BitAnd: "&", ast.BitOr: "|", ast.BitXor: "^"}.get(type(st.op), "?")
            lp = loops.get(id(st))
            if s is not None and lp is not None and isinstance(lp.target, ast.Name) and lp.target.id == s:
                f.folds.append((src(lp.iter), op))
            elif s is not None:
                f.sources.append(("aug" + op, s))
            else:
                c = ev.try_eval(st.value)
                f.unknown.append(src(st))
    return f


def r01_2(ctx):
    m = ctx.model
    ctx.rule("R01.2", "capability composition: sums advertise (TIMES|ADJOINT) & all constituents, chains and block-diagonals "
                      "15 & all constituents (folding with & over the very collection that is stored and applied), adapters "
                      "_capTable[trafo][cap], inversion enablers _addInverse[cap], pure wrappers the wrapped capability", floor=7)
    spec = [
        ("sum_operator", "SumOperator", ("fold", 3, "_ops")),
        ("chain_operator", "ChainOperator", ("fold", 15, "_ops")),
        ("block_diagonal_operator", "BlockDiagonalOperator", ("fold", 15, "_ops")),
        ("operator_adapter", "OperatorAdapter", ("table", "_capTable", ["self._trafo"], "_op")),
        ("inversion_enabler", "InversionEnabler", ("table", "_addInverse", [], "_op")),
        ("sandwich_operator", "SandwichOperator", ("wrap", "_op")),
        ("sampling_enabler", "SamplingEnabler", ("wrap", "_op")),
    ]
    for modn, clsn, what in spec:
        c = m.cls(OPS + modn, clsn)
        ctx.saw_class(c)
        init = m.resolve_method(c, "__init__")
        ctx.saw_func(init)
        f = cap_formula(m, c, init)
        key = f"{c.key}::capability formula"
        stored = {}  # attr -> text of stored value
        for st in walk_no_nested(init.node):
            if isinstance(st, ast.Assign):
                for t in st.targets:
                    if is_self_attr(t):
                        stored[t.attr] = st.value
        if f.unknown:
            ctx.und("R01.2", key, f"unmodelled capability statements: {f.unknown}", init)
            continue
        if what[0] == "fold":
            _, const, coll_attr = what
            good = f.const == const and len(f.folds) == 1 and not f.sources and f.table is None
            detail = f"{f}"
            if good:
                coll, op = f.folds[0]
                # collection iterated is the stored collection itself (or the parameter stored unchanged)
                sv = stored.get(coll_attr)
                same = coll == f"self.{coll_attr}" or (sv is not None and isinstance(sv, ast.Name) and coll == sv.id)
                if op != "&":
                    good, detail = False, f"constituent capabilities are combined with `{op}=` instead of `&=`"
                elif not same:
                    good, detail = False, (f"fold ranges over `{coll}`, which is not the stored collection "
                                           f"self.{coll_attr} = {src(sv) if sv is not None else '?'}")
                else:
                    # apply must iterate the same stored collection
                    ap = m.resolve_method(c, "apply")
                    uses = any(is_self_attr(x, coll_attr) for x in ast.walk(ap.node))
                    if not uses:
                        good, detail = False, f"apply does not use self.{coll_attr}"
            else:
                if f.const != const:
                    detail = f"fold starts from mask {f.const}, expected {const}: " + detail
            ctx.check("R01.2", key, good, detail, init)
        elif what[0] == "table":
            _, tname, idx, attr = what
            sv = stored.get(attr)
            good = f.table is not None and f.table[0] == tname and f.table[1] == idx and f.const is None and not f.folds \
                and f.table[2] in (f"self.{attr}", src(sv) if sv is not None else None)
            ctx.check("R01.2", key, good, f"{f}; expected self.{tname}{''.join('[' + i + ']' for i in idx)}[self.{attr}.capability]", init)
        else:
            _, attr = what
            sv = stored.get(attr)
            cands = {f"self.{attr}"}
            if sv is not None:
                cands.add(src(sv))
            good = len(f.sources) == 1 and f.sources[0] in cands and f.const is None and not f.folds and f.table is None
            # apply must delegate to the same wrapped operator
            ap = m.resolve_method(c, "apply")
            deleg = False
            if ap is not None and ap.cls is c:
                deleg = any(isinstance(x, ast.Call) and call_name(x) == "apply" and src(x.func.value) == f"self.{attr}"
                            for x in ast.walk(ap.node))
            else:
                deleg = any(isinstance(st, ast.Assign) and any(is_self_attr(t, "apply") for t in st.targets)
                            and src(st.value) == f"self.{attr}.apply" for st in walk_no_nested(init.node))
            ctx.check("R01.2", key, good and deleg, f"{f}; delegates apply to self.{attr}: {deleg}", init)
    # HarmonicTransformOperator: delegating wrapper advertising only what both candidates support
    # (checked in C09)


def run(ctx):
    r01_1(ctx)
    r01_2(ctx)


# --------------------------------------------------------------------------- R01.3
from ..modespec import Spec, applied_feat, factor_feat  # noqa: E402

MODES = (1, 2, 4, 8)
ILOG = {1: 0, 2: 1, 4: 2, 8: 3}


def _feat_ok(f, k):
    return f is not None and f.conj == (k & 1) and f.recip == ((k >> 1) & 1)


def r01_3(ctx):
    m = ctx.model
    R = "R01.3"
    ctx.rule(R, "dispatch semantics per mode (mode-specialised abstract interpretation): chain order and _flip_modes order, "
                "sum term-wise application with the same-position sign, adapter mode remapping / XOR composition / domain "
                "selection / sampling flag, scaling and diagonal factors conjugated iff k&1 and reciprocal iff k&2 for the "
                "effective transformation k, simplifier arithmetic respects that reciprocal does not distribute over sums, "
                "inversion enabler flips by ilog(mode)^INVERSE_BIT, sandwich/block-diagonal delegate the unchanged mode", floor=60)
    # ---- ScalingOperator
    S = m.cls(OPS + "scaling_operator", "ScalingOperator")
    ctx.saw_class(S)
    ap = S.methods["apply"]
    ctx.saw_func(ap)
    xn = ap.params()[1]
    for mode in MODES:
        sp = Spec(m, S, ap, {ap.params()[2]: mode}).run()
        k = ILOG[mode]
        decided = 0
        for e, assume, st in sp.returns:
            f = applied_feat(e, xnames=(xn,))
            if f is None:
                continue
            decided += 1
            ctx.check(R, f"{ap.key}::mode {mode}: factor conjugated iff k&1, reciprocal iff k&2 (k={k})", _feat_ok(f, k),
                      f"applies {f!r} (expression `{src(e)}`)", ap, st)
        if not decided:
            ctx.und(R, f"{ap.key}::mode {mode}", f"no return of the form x*f recognised: {[src(e) for e, _, _ in sp.returns]}", ap)
    fl = S.methods["_flip_modes"]
    ctx.saw_func(fl)
    for t in range(4):
        sp = Spec(m, S, fl, {fl.params()[1]: t}).run()
        for e, assume, st in sp.returns:
            key = f"{fl.key}::trafo {t}: new factor conjugated iff t&1, reciprocal iff t&2"
            if isinstance(e, ast.Call) and call_name(e) == "ScalingOperator" and len(e.args) >= 2:
                f = factor_feat(e.args[1])
                ctx.check(R, key, _feat_ok(f, t) if f is not None else None, f"new factor `{src(e.args[1])}`", fl, st)
            elif src(e) == "self" and t == 0:
                ctx.ok(R, key, "returns self", fl, st)
            else:
                ctx.und(R, key, src(e), fl, st)
    # ---- DiagonalOperator
    D = m.cls(OPS + "diagonal_operator", "DiagonalOperator")
    ctx.saw_class(D)
    ap = D.methods["apply"]
    ctx.saw_func(ap)
    xn = ap.params()[1]
    for mode in MODES:
        for t in range(4):
            sp = Spec(m, D, ap, {ap.params()[2]: mode, "self._trafo": t}).run()
            k = ILOG[mode] ^ t
            key = f"{ap.key}::mode {mode}, stored trafo {t}: diagonal conjugated iff k&1, reciprocal iff k&2 (k={k})"
            feats = [(applied_feat(e, xnames=(f"{xn}.val", xn)), e, st) for e, a, st in sp.returns]
            if len(feats) != 1 or feats[0][0] is None:
                ctx.und(R, key, f"returns {[src(e) for _, e, _ in feats]}", ap)
            else:
                f, e, st = feats[0]
                ctx.check(R, key, _feat_ok(f, k), f"applies {f!r}", ap, st)
    gad = D.methods["_get_actual_diag"]
    ctx.saw_func(gad)
    for t in range(4):
        sp = Spec(m, D, gad, {"self._trafo": t}).run()
        key = f"{gad.key}::stored trafo {t}"
        if len(sp.returns) != 1:
            ctx.und(R, key, f"{len(sp.returns)} returns", gad)
            continue
        f = factor_feat(sp.returns[0][0])
        ctx.check(R, key, _feat_ok(f, t) if f is not None else None, f"returns `{src(sp.returns[0][0])}`", gad, sp.returns[0][2])
    fl = D.methods["_flip_modes"]
    ctx.saw_func(fl)
    rr = [r for r in walk_no_nested(fl.node) if isinstance(r, ast.Return)]
    tp = fl.params()[1]
    okk = len(rr) == 1 and isinstance(rr[0].value, ast.Call) and call_name(rr[0].value) == "_from_ldiag" and len(rr[0].value.args) == 4 \
        and src(rr[0].value.args[1]) == "self._ldiag" and src(rr[0].value.args[3]) in (f"self._trafo ^ {tp}", f"{tp} ^ self._trafo")
    ctx.check(R, f"{fl.key}::keeps the raw diagonal and composes transformations by XOR", okk, src(rr[0].value) if rr else None, fl)
    # simplifier arithmetic
    for name in ("_combine_prod", "_combine_sum", "_scale", "_add", "get_sqrt"):
        fi = D.methods.get(name)
        if fi is None:
            continue
        ctx.saw_func(fi)
        sp = Spec(m, D, fi, {}).run()
        for e, assume, st in sp.returns:
            if not (isinstance(e, ast.Call) and call_name(e) == "_from_ldiag" and len(e.args) == 4):
                continue
            diag, tr = e.args[1], e.args[3]
            key = f"{fi.key}::_from_ldiag({short(diag, 50)}, trafo={src(tr)}) [{'; '.join(assume)}]"
            raw = [x for x in ast.walk(diag) if isinstance(x, ast.Attribute) and x.attr == "_ldiag"]
            resolved = [x for x in ast.walk(diag) if isinstance(x, ast.Call) and call_name(x) == "_get_actual_diag"]
            has_add = any(isinstance(x, ast.BinOp) and isinstance(x.op, (ast.Add, ast.Sub)) for x in ast.walk(diag))
            tr_zero = isinstance(tr, ast.Constant) and tr.value == 0
            if resolved and not raw:
                ctx.check(R, key, tr_zero, "operands are the actual (transformation-resolved) diagonals, so the result must be stored with trafo 0", fi, st)
            elif raw and not resolved:
                if tr_zero:
                    # raw diagonals stored as untransformed: only right if every operand's trafo is known to be 0
                    known0 = all(any(f"{src(x.value)}._trafo == 0" in a for a in assume) for x in raw)
                    ctx.check(R, key, True if known0 else False,
                              "raw (lazily transformed) diagonals are combined but stored with trafo 0", fi, st)
                else:
                    # lazily keeping the transformation: conj distributes over + and *, the reciprocal only over *
                    no_recip = any(("_trafo < 2" in a or "_trafo <= 1" in a or "& self.INVERSE_BIT == 0" in a or "_trafo in (0, 1)" in a)
                                   and not a.startswith("not") for a in assume)
                    same = len(raw) == 1 or any("_trafo ==" in a and not a.startswith("not") for a in assume)
                    known_zero = any("self._trafo == 0" in a and not a.startswith("not") for a in assume)
                    # addends that are not raw diagonals (a scalar, another array)
                    def addends(x):
                        if isinstance(x, ast.BinOp) and isinstance(x.op, (ast.Add, ast.Sub)):
                            return addends(x.left) + addends(x.right)
                        return [x]
                    foreign = [x for x in addends(diag) if not any(isinstance(y, ast.Attribute) and y.attr == "_ldiag" for y in ast.walk(x))]
                    if has_add and foreign and not known_zero:
                        ctx.bad(R, key, f"`{src(foreign[0])}` is added to a raw diagonal while its lazy transformation is kept: "
                                        "conj(d + s) != conj(d) + s for complex s, 1/(d + s) != 1/d + s", fi, st)
                    elif has_add and len(raw) > 1 and not no_recip:
                        ctx.bad(R, key, "raw diagonals are added while a lazy transformation that may contain the inverse bit is kept: "
                                        "1/(a+b) != 1/a + 1/b", fi, st)
                    elif name == "get_sqrt" or len(raw) == 1:
                        ctx.ok(R, key, "single raw diagonal with its transformation kept", fi, st)
                    else:
                        ctx.check(R, key, True if same else None, "product of raw diagonals keeps a common lazy transformation", fi, st)
            elif raw and resolved:
                ctx.bad(R, key, "mixes raw and transformation-resolved diagonals", fi, st)
    # sign flags travel with their own operand in the sum-combiners
    for modn, clsn in (("diagonal_operator", "DiagonalOperator"), ("block_diagonal_operator", "BlockDiagonalOperator")):
        cc = m.cls(OPS + modn, clsn)
        fi = cc.methods.get("_combine_sum")
        if fi is None:
            continue
        ctx.saw_func(fi)
        ps = fi.params()
        if len(ps) < 4:
            ctx.und(R, f"{fi.key}::sign flags", "signature changed", fi)
            continue
        other, sneg, oneg = ps[1], ps[2], ps[3]
        pairs = []   # (operand owner 'self'|other, flag name)
        for n in ast.walk(fi.node):
            # form 1:  X * (-1 if FLAG else 1)
            if isinstance(n, ast.BinOp) and isinstance(n.op, ast.Mult) and isinstance(n.right, ast.IfExp) and isinstance(n.right.test, ast.Name):
                owner = "self" if "self." in src(n.left) else (other if f"{other}." in src(n.left) else None)
                pairs.append((owner, n.right.test.id))
            # form 2:  SumOperator.make([v1, v2], [f1, f2]) with (v1, v2) from zip(..., self._ops, op._ops)
            if isinstance(n, ast.Call) and src(n.func).endswith("SumOperator.make") and len(n.args) == 2 \
                    and isinstance(n.args[0], ast.List) and isinstance(n.args[1], ast.List) and len(n.args[0].elts) == len(n.args[1].elts) == 2:
                zips = [g for g in ast.walk(fi.node) if isinstance(g, (ast.comprehension, ast.For)) and isinstance(g.iter, ast.Call) and call_name(g.iter) == "zip"]
                if zips and isinstance(zips[0].target, ast.Tuple):
                    tnames = [src(e) for e in zips[0].target.elts]
                    zargs = [src(a) for a in zips[0].iter.args]
                    own = {}
                    for tn_, za in zip(tnames, zargs):
                        own[tn_] = "self" if za.startswith("self.") and "_ops" in za else (other if za.startswith(f"{other}.") and "_ops" in za else None)
                    for v_, f_ in zip(n.args[0].elts, n.args[1].elts):
                        # the operand may be wrapped (a missing block replaced by the identity): its owner is the zipped name it mentions
                        names_ = [z.id for z in ast.walk(v_) if isinstance(z, ast.Name) and z.id in own and own[z.id] is not None]
                        pairs.append((own.get(src(v_)) or (own[names_[0]] if len(set(names_)) == 1 else None), src(f_)))
        key = f"{fi.key}::each sign flag is applied to its own operand"
        if not pairs or any(o is None for o, f_ in pairs):
            ctx.und(R, key, f"{pairs}", fi)
        else:
            good = all((o == "self" and f_ == sneg) or (o == other and f_ == oneg) for o, f_ in pairs)
            ctx.check(R, key, good, f"operand/flag pairs {pairs}; expected self<->{sneg}, {other}<->{oneg}", fi)
    # SumOperator.simplify: the collected scalar takes the sign of a diagonal only on the path on which that diagonal absorbs it
    simp = m.func(OPS + "sum_operator", "SumOperator.simplify")
    ctx.saw_func(simp)
    scfg = cfg_of(simp)
    signs = [n for n in scfg.nodes if n.kind == "stmt" and isinstance(n.ast, ast.AugAssign) and isinstance(n.ast.op, ast.Mult)
             and isinstance(n.ast.target, ast.Name) and isinstance(n.ast.value, ast.IfExp) and "neg" in src(n.ast.value.test)]
    for sn_ in signs:
        v = sn_.ast.target.id
        absorb = [n.id for n, c_ in find_nodes(scfg, lambda q: isinstance(q, ast.Call) and call_name(q) == "_add" and [src(a) for a in q.args] == [v])]
        heads = [n.id for n in scfg.nodes if n.kind == "for"]
        esc = set(heads) & scfg.reachable_after(sn_.id, avoid=absorb, include_exc=False)
        ctx.check(R, f"{simp.key}::`{sn_.text()}` only on the path where the diagonal absorbs the scalar", bool(absorb) and not esc,
                  "the sign of a diagonal term is applied to the collected scalar although the term may be skipped afterwards", simp, sn_.ast)
    # BlockDiagonalOperator admits any LinearOperator as a block (its own isinstance validation): every attribute it reads from a
    # block must exist on LinearOperator, otherwise combining block operators (which creates chain/sum blocks) cannot be built
    Bc = m.cls(OPS + "block_diagonal_operator", "BlockDiagonalOperator")
    Lc = m.cls(*LO)
    bi = Bc.methods["__init__"]
    ctx.saw_func(bi)
    admitted = any(isinstance(n, ast.Call) and src(n) .startswith("isinstance(") and src(n).endswith(", LinearOperator)") for n in ast.walk(bi.node))
    blockvars = set()
    for n in ast.walk(bi.node):
        if isinstance(n, ast.comprehension) or isinstance(n, ast.For):
            it = src(n.iter)
            if "operators" in it or "self._ops" in it:
                tg = n.target
                elts = tg.elts if isinstance(tg, ast.Tuple) else [tg]
                if it.endswith(".items()") and len(elts) == 2:
                    elts = elts[1:]
                for e in elts:
                    if isinstance(e, ast.Name):
                        blockvars.add(e.id)
    reads = {}
    for n in ast.walk(bi.node):
        if isinstance(n, ast.Attribute) and isinstance(n.value, ast.Name) and n.value.id in blockvars and isinstance(n.ctx, ast.Load):
            reads.setdefault(n.attr, n)
    for attr, node in sorted(reads.items()):
        defined = m.resolve_attr(Lc, attr) is not None
        guarded = False
        for g in ast.walk(bi.node):
            if isinstance(g, ast.Call) and isinstance(g.func, ast.Name) and g.func.id in ("getattr", "hasattr") and len(g.args) >= 2 \
                    and isinstance(g.args[1], ast.Constant) and g.args[1].value == attr:
                guarded = True
        ctx.check(R, f"{bi.key}::block attribute `.{attr}` exists on every admitted block type (LinearOperator)",
                  (defined or guarded) if admitted else None,
                  f"`.{attr}` is read from a block but LinearOperator does not define it: blocks produced by combining block operators "
                  "(ChainOperator, SumOperator) make the constructor raise AttributeError", bi, node)
    for attr_g in [g for g in ast.walk(bi.node) if isinstance(g, ast.Call) and isinstance(g.func, ast.Name) and g.func.id == "getattr"
                   and len(g.args) == 3 and isinstance(g.args[0], ast.Name) and g.args[0].id in blockvars]:
        ctx.ok(R, f"{bi.key}::block attribute `.{attr_g.args[1].value}` is read defensively", None, bi, attr_g)
    # ---- ChainOperator
    C = m.cls(OPS + "chain_operator", "ChainOperator")
    ctx.saw_class(C)
    ap = C.methods["apply"]
    ctx.saw_func(ap)
    xn, mn = ap.params()[1:3]
    for mode in MODES:
        sp = Spec(m, C, ap, {mn: mode}).run()
        key = f"{ap.key}::mode {mode}: constituents visited {'in stored order' if mode in (2, 4) else 'reversed'}, each with the same mode"
        if len(sp.loops) != 1:
            ctx.und(R, key, f"{len(sp.loops)} loops", ap)
            continue
        lp, it, env, assume = sp.loops[0]
        want = "self._ops" if mode in (2, 4) else "reversed(self._ops)"
        body_calls = [c for c in ast.walk(lp) if isinstance(c, ast.Call) and call_name(c) == "apply"]
        tgt = lp.target.id if isinstance(lp.target, ast.Name) else None
        good_call = len(body_calls) == 1 and src(body_calls[0].func.value) == tgt and [src(a) for a in body_calls[0].args] == [xn, mn]
        upd = any(isinstance(s_, ast.Assign) and src(s_.targets[0]) == xn and s_.value is body_calls[0] for s_ in lp.body) if body_calls else False
        ret_ok = len(sp.returns) == 1 and src(sp.returns[0][0]) == xn
        got = src(it).replace("self._ops[::-1]", "reversed(self._ops)").replace("tuple(reversed(self._ops))", "reversed(self._ops)")
        ctx.check(R, key, got == want and good_call and upd and ret_ok,
                  f"iterates `{src(it)}`, calls {[src(c) for c in body_calls]}, returns {[src(r[0]) for r in sp.returns]}", ap, lp)
    fl = C.methods["_flip_modes"]
    ctx.saw_func(fl)
    tp = fl.params()[1]
    for t in range(4):
        sp = Spec(m, C, fl, {tp: t}).run()
        key = f"{fl.key}::trafo {t}"
        if t == 0:
            ctx.check(R, key + ": identity", len(sp.returns) == 1 and src(sp.returns[0][0]) == "self", None, fl)
            continue
        if len(sp.returns) != 1:
            ctx.und(R, key, f"{len(sp.returns)} returns / {len(sp.raises)} raises", fl)
            continue
        e = sp.returns[0][0]
        want_it = "reversed(self._ops)" if t in (1, 2) else "self._ops"
        okk = False
        detail = src(e)
        if isinstance(e, ast.Call) and call_name(e) == "make" and len(e.args) == 1 and isinstance(e.args[0], (ast.ListComp, ast.GeneratorExp)):
            lc = e.args[0]
            g = lc.generators[0]
            elt = lc.elt
            okk = src(g.iter) == want_it and isinstance(elt, ast.Call) and call_name(elt) == "_flip_modes" \
                and src(elt.func.value) == src(g.target) and len(elt.args) == 1 and isinstance(elt.args[0], ast.Constant) and elt.args[0].value == t
        ctx.check(R, key + f": order {'reversed' if t in (1, 2) else 'kept'}, every constituent flipped with {t}", okk, detail, fl)
    # ---- SumOperator
    SU = m.cls(OPS + "sum_operator", "SumOperator")
    ctx.saw_class(SU)
    ap = SU.methods["apply"]
    ctx.saw_func(ap)
    xn, mn = ap.params()[1:3]
    lps = [n for n in walk_no_nested(ap.node) if isinstance(n, ast.For)]
    key = f"{ap.key}::every term applied with `mode` to x.extract(op._dom(mode)); sign taken from the same position"
    if len(lps) != 1:
        ctx.und(R, key, f"{len(lps)} loops", ap)
    else:
        lp = lps[0]
        okz = src(lp.iter) == "zip(self._ops, self._neg)" and isinstance(lp.target, ast.Tuple) and len(lp.target.elts) == 2
        on, nn = (src(lp.target.elts[0]), src(lp.target.elts[1])) if okz else (None, None)
        calls = [c for c in ast.walk(lp) if isinstance(c, ast.Call) and call_name(c) == "apply"]
        okc = len(calls) == 1 and src(calls[0].func.value) == on and [src(a) for a in calls[0].args] == [f"{xn}.extract({on}._dom({mn}))", mn]
        body = src(lp)
        tn = None
        for s_ in ast.walk(lp):
            if isinstance(s_, ast.Assign) and calls and s_.value is calls[0] and isinstance(s_.targets[0], ast.Name):
                tn = s_.targets[0].id
        oks = tn is not None and (f"-{tn} if {nn} else {tn}" in body) and (f"flexible_addsub({tn}, {nn})" in body)
        ctx.check(R, key, okz and okc and oks, f"loop `{src(lp.iter)}`, call {[src(c) for c in calls]}", ap, lp)
    fa = m.func(FLDMOD, "Field.flexible_addsub", required=False) if False else None
    adj = SU.methods.get("adjoint")
    if adj is not None:
        rr = [r for r in walk_no_nested(adj.node) if isinstance(r, ast.Return)]
        ctx.check(R, f"{adj.key}::adjoint of a sum is the sum of adjoints with the same signs",
                  len(rr) == 1 and src(rr[0].value) == "self.make([op.adjoint for op in self._ops], self._neg)", src(rr[0].value) if rr else None, adj)
    # ---- OperatorAdapter
    A = m.cls(OPS + "operator_adapter", "OperatorAdapter")
    ctx.saw_class(A)
    ap = A.methods["apply"]
    ctx.saw_func(ap)
    xn, mn = ap.params()[1:3]
    for t in (1, 2, 3):
        for mode in MODES:
            sp = Spec(m, A, ap, {mn: mode, "self._trafo": t}).run()
            want = 1 << (ILOG[mode] ^ t)
            key = f"{ap.key}::trafo {t}, mode {mode} -> wrapped mode {want}"
            if len(sp.returns) != 1:
                ctx.und(R, key, f"{len(sp.returns)} returns", ap)
                continue
            e = sp.returns[0][0]
            okk = isinstance(e, ast.Call) and src(e.func) == "self._op.apply" and len(e.args) == 2 and src(e.args[0]) == xn \
                and isinstance(e.args[1], ast.Constant) and e.args[1].value == want
            ctx.check(R, key, okk, src(e), ap, sp.returns[0][2])
    fl = A.methods["_flip_modes"]
    ctx.saw_func(fl)
    tp = fl.params()[1]
    for t0 in (1, 2, 3):
        for t in range(4):
            sp = Spec(m, A, fl, {tp: t, "self._trafo": t0}).run()
            nt = t0 ^ t
            key = f"{fl.key}::stored {t0}, flip {t} -> {nt}"
            if len(sp.returns) != 1:
                ctx.und(R, key, f"{len(sp.returns)} returns", fl)
                continue
            e = sp.returns[0][0]
            if nt == 0:
                ctx.check(R, key, src(e) == "self._op", src(e), fl)
            else:
                okk = isinstance(e, ast.Call) and call_name(e) == "OperatorAdapter" and len(e.args) == 2 and src(e.args[0]) == "self._op" \
                    and isinstance(e.args[1], ast.Constant) and e.args[1].value == nt
                ctx.check(R, key, okk, src(e), fl)
    ini = A.methods["__init__"]
    ctx.saw_func(ini)
    dom = [s_ for s_ in walk_no_nested(ini.node) if isinstance(s_, ast.Assign) and is_self_attr(s_.targets[0], "_domain")]
    tgt = [s_ for s_ in walk_no_nested(ini.node) if isinstance(s_, ast.Assign) and is_self_attr(s_.targets[0], "_target")]
    ctx.check(R, f"{ini.key}::domain/target are _dom/_tgt(1 << trafo) of the wrapped operator",
              len(dom) == 1 and len(tgt) == 1 and src(dom[0].value) == "self._op._dom(1 << self._trafo)" and src(tgt[0].value) == "self._op._tgt(1 << self._trafo)",
              f"{src(dom[0].value) if dom else None} / {src(tgt[0].value) if tgt else None}", ini)
    ds = A.methods["draw_sample"]
    ctx.saw_func(ds)
    fin = ds.params()[1]
    for t in (1, 2, 3):
        sp = Spec(m, A, ds, {"self._trafo": t}).run()
        key = f"{ds.key}::trafo {t}: from_inverse {'negated' if t & 2 else 'passed on'}"
        if len(sp.returns) != 1:
            ctx.und(R, key, f"{len(sp.returns)} returns", ds)
            continue
        e = sp.returns[0][0]
        a0 = src(e.args[0]) if isinstance(e, ast.Call) and e.args else None
        ctx.check(R, key, isinstance(e, ast.Call) and src(e.func) == "self._op.draw_sample" and a0 == (f"not {fin}" if t & 2 else fin), src(e), ds)
    # ---- InversionEnabler
    IE = m.cls(OPS + "inversion_enabler", "InversionEnabler")
    ctx.saw_class(IE)
    ap = IE.methods["apply"]
    ctx.saw_func(ap)
    xn, mn = ap.params()[1:3]
    for mode in MODES:
        sp = Spec(m, IE, ap, {mn: mode}).run()
        flips = [c for c, a in sp.calls if call_name(c) == "_flip_modes"]
        inv = [c for c in flips if src(c.func.value) == "self._op"]
        pre = [c for c in flips if src(c.func.value) != "self._op"]
        key = f"{ap.key}::mode {mode}: CG operator is op flipped by ilog(mode)^INVERSE_BIT = {ILOG[mode] ^ 2}; preconditioner flipped by {ILOG[mode]}"
        okk = len(inv) >= 1 and all(isinstance(c.args[0], ast.Constant) and c.args[0].value == (ILOG[mode] ^ 2) for c in inv) and \
            len(pre) >= 1 and all(isinstance(c.args[0], ast.Constant) and c.args[0].value == ILOG[mode] for c in pre)
        ctx.check(R, key, okk, f"{[src(c) for c in flips]}", ap)
        native = [e for e, a, st in sp.returns if isinstance(e, ast.Call) and src(e.func) == "self._op.apply"]
        ctx.check(R, f"{ap.key}::mode {mode}: native modes are delegated unchanged",
                  len(native) == 1 and [src(a) for a in native[0].args] == [xn, str(mode)] or
                  (len(native) == 1 and isinstance(native[0].args[1], ast.Constant) and native[0].args[1].value == mode), f"{[src(e) for e in native]}", ap)
    # ---- pure delegations
    for modn, clsn, attr in (("sandwich_operator", "SandwichOperator", "_op"),):
        c = m.cls(OPS + modn, clsn)
        ap = c.methods["apply"]
        rr = [r for r in walk_no_nested(ap.node) if isinstance(r, ast.Return)]
        xn, mn = ap.params()[1:3]
        ctx.check(R, f"{ap.key}::delegates (x, mode) unchanged", len(rr) == 1 and src(rr[0].value) == f"self.{attr}.apply({xn}, {mn})", src(rr[0].value) if rr else None, ap)
    B = m.cls(OPS + "block_diagonal_operator", "BlockDiagonalOperator")
    ap = B.methods["apply"]
    xn, mn = ap.params()[1:3]
    calls = [c for c in ast.walk(ap.node) if isinstance(c, ast.Call) and call_name(c) == "apply"]
    okk = len(calls) == 1 and (([src(a) for a in calls[0].args] + [f"{k.arg}={src(k.value)}" for k in calls[0].keywords]) in (["v", f"mode={mn}"], ["v", mn]))
    zipok = any(isinstance(g, ast.comprehension) and src(g.iter) == f"zip(self._ops, {xn}.values())" for g in ast.walk(ap.node))
    ctx.check(R, f"{ap.key}::block-wise delegation with the unchanged mode, blocks paired with the input's entries in order", okk and zipok,
              f"{[src(c) for c in calls]}", ap)


FLDMOD = "nifty.cl.field"


def run(ctx):  # noqa: F811
    r01_1(ctx)
    r01_2(ctx)
    r01_3(ctx)


_run_c01_base = run


def run(ctx):  # noqa: F811
    _run_c01_base(ctx)
    # simplification in SandwichOperator.make (shared with C11): scaling bun -> |f|^2 * cheese
    from .c11 import r11_5
    r11_5(ctx, ctx.model, rid="R01.4")
    # sign bookkeeping of nested sums (shared with C02)
    from .c02 import r02_8
    r02_8(ctx, ctx.model, rid="R01.5")


# ---------------------------------------------------------------------------------------------------------------- R01.6
# external element-wise primitives that do NOT broadcast their operands (fact table; ducc0 asserts equal shapes)
NON_BROADCASTING = {"ducc0.misc.experimental.mul_conj", "ducc0.misc.experimental.div_conj"}


def r01_6(ctx, m, rid="R01.6"):
    """partial-space diagonals hold a reshaped diagonal with size-1 axes: every helper applied to it must broadcast"""
    from ..util import cfg_of, calls_named, known_atoms
    mod = m.module(OPS + "diagonal_operator")
    ctx.rule(rid, "DiagonalOperator: a helper that hands the (possibly reshaped, size-1-axes) diagonal to an external primitive "
                  "that does not broadcast (ducc mul_conj/div_conj) does so only under an operand shape-equality guard, and "
                  "its other path is the broadcasting arithmetic expression - so adjoint modes of partial-space complex "
                  "diagonals act like the other modes", floor=2)
    ext = {n: fq for n, fq in mod.imports.items() if fq in NON_BROADCASTING}
    seen = 0
    for fi in mod.all_functions:
        cfg = None
        for c in walk_no_nested(fi.node):
            if not (isinstance(c, ast.Call) and isinstance(c.func, ast.Name) and c.func.id in ext):
                continue
            cfg = cfg or cfg_of(fi)
            seen += 1
            ctx.saw_func(fi)
            key = f"{fi.key}::{c.func.id} only on equally shaped operands"
            hit = [n for n, x in calls_named(cfg, c.func.id) if x is c]
            if not hit or len(c.args) != 2:
                ctx.und(rid, key, f"call `{src(c)}` not located in the flow graph", fi, c)
                continue

            def base(e):
                # a.val -> a ; a -> a
                while isinstance(e, ast.Attribute) and e.attr in ("val", "_val"):
                    e = e.value
                return src(e)
            a, b = base(c.args[0]), base(c.args[1])
            ok = False
            for t, pol in known_atoms(cfg, hit[0].id):
                if pol and isinstance(t, ast.Compare) and len(t.ops) == 1 and isinstance(t.ops[0], ast.Eq):
                    l, r = t.left, t.comparators[0]
                    if all(isinstance(z, ast.Attribute) and z.attr == "shape" for z in (l, r)) and {base(l.value), base(r.value)} == {a, b}:
                        ok = True
            bc = any(isinstance(z, ast.Call) and call_name(z) in ("broadcast_to", "broadcast_arrays") for z in ast.walk(c))
            ctx.check(rid, key, ok or bc, f"`{src(c)}` reached without a `{a}.shape == {b}.shape` guard", fi, c)
    if not seen:
        ctx.ok(rid, f"{mod.name}::no non-broadcasting primitive imported", "helpers use broadcasting arithmetic only", mod)
        ctx.ok(rid, f"{mod.name}::no non-broadcasting primitive imported (2)", "", mod)


_run_c01_b = run


def run(ctx):  # noqa: F811
    _run_c01_b(ctx)
    r01_6(ctx, ctx.model)


# ---------------------------------------------------------------------------------------------------------------- R01.7
def r01_7(ctx, m, rid="R01.7"):
    """merging adjacent block-diagonal factors of a chain keeps the composition order in every block"""
    C = m.cls(OPS + "chain_operator", "ChainOperator")
    B = m.cls(OPS + "block_diagonal_operator", "BlockDiagonalOperator")
    ctx.rule(rid, "ChainOperator.simplify merges adjacent BlockDiagonalOperators as earlier._combine_chain(later) (earlier = applied "
                  "last) and BlockDiagonalOperator._combine_chain composes block-wise in that order: own block after the argument's "
                  "block, blocks paired position-wise", floor=2)
    # call site
    site = None
    for fi in C.methods.values():
        for c in walk_no_nested(fi.node):
            if isinstance(c, ast.Call) and call_name(c) == "_combine_chain" and isinstance(c.func, ast.Attribute):
                site = (fi, c)
    key = f"{C.key}::merge call: receiver is the preceding (outer) factor, argument the following one"
    if site is None:
        ctx.und(rid, key, "no _combine_chain call in ChainOperator - merge not performed or renamed", C)
    else:
        fi, c = site
        ctx.saw_func(fi)
        recv = c.func.value
        loops = [lp for lp in walk_no_nested(fi.node) if isinstance(lp, ast.For) and any(x is c for x in ast.walk(lp))]
        ok = None
        if loops and isinstance(loops[-1].target, ast.Name) and len(c.args) == 1:
            lv = loops[-1].target.id
            acc = recv.value if isinstance(recv, ast.Subscript) else None
            if acc is not None and src(recv.slice) == "-1" and src(c.args[0]) == lv:
                # accumulator grows by append in iteration order -> [-1] precedes the loop variable
                app = any(isinstance(z, ast.Call) and call_name(z) == "append" and isinstance(z.func, ast.Attribute) and src(z.func.value) == src(acc)
                          for z in ast.walk(loops[-1]))
                ok = True if app else None
            elif isinstance(recv, ast.Name) and recv.id == lv and isinstance(c.args[0], ast.Subscript) and src(c.args[0].slice) == "-1":
                ok = False
        ctx.check(rid, key, ok, f"`{src(c)}`", fi, c)
    # block-wise order
    fi = B.methods.get("_combine_chain")
    key = f"{B.key}._combine_chain::block = own block after the argument's block"
    if fi is None:
        ctx.und(rid, key, "method missing", B)
        return
    ctx.saw_func(fi)
    other = fi.params()[1]
    comps = [n for n in walk_no_nested(fi.node) if isinstance(n, (ast.DictComp, ast.ListComp, ast.GeneratorExp, ast.For))]
    verdict, detail = None, "no block-wise comprehension / loop over zip(self._ops, other._ops) recognised"
    for cp in comps:
        g = cp if isinstance(cp, ast.For) else cp.generators[0]
        if not (isinstance(g.iter, ast.Call) and call_name(g.iter) == "zip" and isinstance(g.target, ast.Tuple) and len(g.target.elts) == len(g.iter.args)):
            continue
        role = {}
        for t, a in zip(g.target.elts, g.iter.args):
            if isinstance(t, ast.Name):
                if src(a) == "self._ops":
                    role[t.id] = "S"
                elif src(a) == f"{other}._ops":
                    role[t.id] = "O"
        if set(role.values()) != {"S", "O"}:
            continue
        if isinstance(cp, ast.For):
            # the composition of two present blocks: the call / matmul / make([..]) whose two operands are the zipped names
            cands = [z for b in cp.body for z in ast.walk(b) if (isinstance(z, ast.Call) and isinstance(z.func, ast.Name) and z.func.id in role
                                                                 and len(z.args) == 1 and isinstance(z.args[0], ast.Name) and z.args[0].id in role)
                     or (isinstance(z, ast.BinOp) and isinstance(z.op, ast.MatMult) and isinstance(z.left, ast.Name) and isinstance(z.right, ast.Name))]
            if not cands:
                continue
            v = cands[0]
        else:
            v = cp.value if isinstance(cp, ast.DictComp) else cp.elt
        pair = None
        if isinstance(v, ast.Call) and isinstance(v.func, ast.Name) and len(v.args) == 1 and isinstance(v.args[0], ast.Name):
            pair = (v.func.id, v.args[0].id)
        elif isinstance(v, ast.BinOp) and isinstance(v.op, ast.MatMult) and isinstance(v.left, ast.Name) and isinstance(v.right, ast.Name):
            pair = (v.left.id, v.right.id)
        elif isinstance(v, ast.Call) and call_name(v) == "make" and len(v.args) == 1 and isinstance(v.args[0], (ast.List, ast.Tuple)) \
                and len(v.args[0].elts) == 2 and all(isinstance(z, ast.Name) for z in v.args[0].elts):
            pair = tuple(z.id for z in v.args[0].elts)
        if pair and all(p in role for p in pair):
            r = (role[pair[0]], role[pair[1]])
            detail = f"`{src(v)}` composes {r[0]}∘{r[1]} (S = own block, O = argument's block)"
            verdict = r == ("S", "O") if r in (("S", "O"), ("O", "S")) else None
    ctx.check(rid, key, verdict, detail, fi)


_run_c01_c = run


def run(ctx):  # noqa: F811
    _run_c01_c(ctx)
    r01_7(ctx, ctx.model)


# ---------------------------------------------------------------------------------------------------------------- R01.8
def r01_8(ctx, m, rid="R01.8"):
    """missing blocks of a block-diagonal operator are the identity in every method that combines blocks"""
    B = m.cls(OPS + "block_diagonal_operator", "BlockDiagonalOperator")
    ctx.rule(rid, "BlockDiagonalOperator stores a documented missing block as None (= unity): every method that walks self._ops tests the "
                  "block against None before it calls it, composes it or hands it to another operator's constructor - apply does, and "
                  "so must the combiners the chain / sum simplifications call", floor=3)
    for name, fi in sorted(B.methods.items()):
        if name in ("__init__", "__repr__"):
            continue
        loops = [z for z in ast.walk(fi.node) if isinstance(z, (ast.comprehension, ast.For)) and "_ops" in src(z.iter)]
        if not loops:
            continue
        ctx.saw_func(fi)
        # names bound to blocks
        names = set()
        for lp in loops:
            it = lp.iter
            tg = lp.target
            if isinstance(it, ast.Call) and call_name(it) == "zip" and isinstance(tg, ast.Tuple):
                for t, a in zip(tg.elts, it.args):
                    if "_ops" in src(a) and isinstance(t, ast.Name):
                        names.add(t.id)
            elif isinstance(tg, ast.Name):
                names.add(tg.id)
        tested = {z.left.id for z in ast.walk(fi.node) if isinstance(z, ast.Compare) and isinstance(z.left, ast.Name) and z.left.id in names
                  and isinstance(z.ops[0], (ast.Is, ast.IsNot)) and isinstance(z.comparators[0], ast.Constant) and z.comparators[0].value is None}
        # helper lambdas / functions that receive the block and test it count as well
        for z in ast.walk(fi.node):
            if isinstance(z, ast.Call) and isinstance(z.func, ast.Name):
                lam = [st.value for st in ast.walk(fi.node) if isinstance(st, ast.Assign) and src(st.targets[0]) == z.func.id and isinstance(st.value, ast.Lambda)]
                if lam and any(isinstance(q, ast.Compare) and isinstance(q.ops[0], (ast.Is, ast.IsNot)) for q in ast.walk(lam[0])):
                    tested |= {a.id for a in z.args if isinstance(a, ast.Name) and a.id in names}
        used = {z.id for z in ast.walk(fi.node) if isinstance(z, ast.Name) and z.id in names and isinstance(z.ctx, ast.Load)}
        ctx.check(rid, f"{fi.key}::blocks {sorted(used)} are tested against None before use", used <= tested,
                  f"never tested: {sorted(used - tested)} (a missing block is None)" if not used <= tested else "", fi)


_run_c01_d = run


def run(ctx):  # noqa: F811
    _run_c01_d(ctx)
    r01_8(ctx, ctx.model)


# ---------------------------------------------------------------------------------------------------------------- R01.9
def r01_9(ctx, m, rid="R01.9"):
    """partial-space diagonal: the diagonal's axes are in the order of `spaces`, the reshape assumes the order of the domain"""
    D = m.cls(OPS + "diagonal_operator", "DiagonalOperator")
    init = D.methods["__init__"]
    ctx.rule(rid, "DiagonalOperator(diagonal, domain, spaces): the constructor pairs diagonal.domain[i] with domain[spaces[i]] for ANY "
                  "order of `spaces`, and reshapes the values to the domain-ordered broadcast shape: before that reshape the axes are "
                  "permuted into domain order (a transpose keyed by the sorted order of the spaces), or unsorted spaces are refused - "
                  "otherwise spaces=(2, 0) silently uses transposed entries", floor=1)
    ctx.saw_func(init)
    key = f"{init.key}::diagonal axes are brought into domain order before the reshape"
    resh = [z for z in ast.walk(init.node) if isinstance(z, ast.Call) and isinstance(z.func, ast.Attribute) and z.func.attr == "reshape"]
    if not resh:
        ctx.und(rid, key, "no reshape of the diagonal found", init)
        return
    tr = [z for z in ast.walk(init.node) if isinstance(z, ast.Call) and (call_name(z) in ("transpose", "moveaxis", "swapaxes", "einsum"))]
    keyed = any(isinstance(z, ast.Call) and call_name(z) in ("argsort", "sorted") and "spaces" in src(z) for z in ast.walk(init.node))
    refuse = any(isinstance(st, ast.If) and any(isinstance(b, ast.Raise) for b in st.body) and "sorted" in src(st.test) and "spaces" in src(st.test)
                 for st in ast.walk(init.node))
    ctx.check(rid, key, bool((tr and keyed) or refuse),
              "transpose keyed by the sorted order of the spaces" if (tr and keyed) else ("unsorted spaces are refused" if refuse else
              "the values are reshaped in the order the diagonal came in, whatever the order of `spaces`"), init, resh[0])


_run_c01_e = run


def run(ctx):  # noqa: F811
    _run_c01_e(ctx)
    r01_9(ctx, ctx.model)
