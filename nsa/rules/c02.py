"""C02 - structural discipline of every LinearOperator subclass."""
import ast

from ..model import src, short, walk_no_nested, is_self_attr, call_name
from ..initflow import attr_summary
from ..util import cfg_of, find_nodes, known_atoms, returns_of

LINOP = ("nifty.cl.operators.linear_operator", "LinearOperator")
ENDO = ("nifty.cl.operators.endomorphic_operator", "EndomorphicOperator")


def population(ctx):
    m = ctx.model
    L = m.cls(*LINOP)
    E = m.cls(*ENDO)
    subs = m.subclasses(L)
    local = [c for c in subs if c.local]
    if local:
        ctx.notes.append("exempt (classes defined inside a function are not exported by the library): "
                         + ", ".join(c.key for c in local))
    subs = [c for c in subs if not c.local]
    return L, E, subs


def _overrides(model, c, base, name):
    """Does a class strictly below `base` in c's MRO define `name`?"""
    for k in model.mro(c):
        if k is base:
            return False
        if name in k.methods or name in k.consts:
            return True
    return False


def is_abstract(model, c, L):
    """No usable apply: inherits LinearOperator.apply (raises NotImplementedError)."""
    ap = model.resolve_method(c, "apply")
    return ap is None or ap.cls is L


def run(ctx):
    m = ctx.model
    L, E, subs = population(ctx)
    Op = m.cls("nifty.cl.operators.operator", "Operator")
    ctx.extra["linear_operator_subclasses"] = len(subs)

    # ------------------------------------------------------------------ R02.1
    ctx.rule("R02.1", "every concrete LinearOperator subclass assigns _domain, _capability (and _target unless "
                      "endomorphic) on every normal exit of __init__ (helpers and super().__init__ followed)", floor=50)
    for c in subs:
        ctx.saw_class(c)
        init = m.resolve_method(c, "__init__")
        if init is None or init.cls in (L, Op) or init.cls is None:
            # no constructor of its own: abstract helper base or built through __new__
            if is_abstract(m, c, L):
                continue
            ctx.und("R02.1", f"{c.key}::__init__", "no __init__ in the hierarchy below LinearOperator", c)
            continue
        if is_abstract(m, c, L) and not m.subclasses(c):
            continue
        must, may, normal = attr_summary(m, c, init)
        ctx.saw_func(init)
        if not normal:
            continue  # constructor always raises (abstract)
        need = {"_domain": "domain", "_capability": "capability"}
        if E not in m.mro(c):
            need["_target"] = "target"
        abstract = is_abstract(m, c, L)
        for attr, prop in need.items():
            key = f"{c.key}::__init__ assigns {attr}"
            if _overrides(m, c, L, prop):
                ctx.ok("R02.1", key, f"property `{prop}` is overridden", c)
                continue
            if attr in must:
                ctx.ok("R02.1", key, None, init)
            elif abstract:
                continue  # base class whose subclasses complete the construction
            elif attr in may:
                ctx.bad("R02.1", key, f"{attr} is assigned only on some paths through {init.key}", init)
            else:
                # look for a near miss to make the report diagnosable
                near = [a for a in may if a.startswith(attr[:6])]
                ctx.bad("R02.1", key, f"{attr} is never assigned by {init.key}"
                        + (f" (assigns {sorted(near)} instead)" if near else ""), init)

    # ------------------------------------------------------------------ R02.2
    ctx.rule("R02.2", "in every apply(self, x, mode) a call to self._check_input / self._check_mode dominates every "
                      "return and every use of x, unless apply is a pure delegation to a wrapped operator", floor=50)
    applies = []
    for c in subs:
        if "apply" in c.methods:
            applies.append(c.methods["apply"])
    ctx.extra["apply_methods"] = len(applies)
    for fi in applies:
        ctx.saw_func(fi)
        r02_2(ctx, fi)


CHECKS = ("_check_input", "_check_mode")


def _is_delegation(fi):
    """apply body is `return <something>.apply(x, <mode expr>)` (optionally after
    statements that do not touch x)."""
    rets = returns_of(fi)
    if not rets:
        return False
    for r in rets:
        v = r.value
        if not (isinstance(v, ast.Call) and call_name(v) in ("apply", "_apply") or
                (isinstance(v, ast.Call) and isinstance(v.func, ast.Attribute) and
                 v.func.attr in ("times", "adjoint_times", "inverse_times", "adjoint_inverse_times", "__call__"))):
            return False
    return True


def r02_2(ctx, fi):
    a = fi.node.args
    pnames = [x.arg for x in a.args]
    if len(pnames) < 3:
        ctx.und("R02.2", f"{fi.key}::signature", "apply does not have (self, x, mode)", fi)
        return
    xname, mname = pnames[1], pnames[2]
    cfg = cfg_of(fi)
    chk = [n for n, c in find_nodes(cfg, lambda q: isinstance(q, ast.Call) and call_name(q) in CHECKS
                                    and isinstance(q.func, ast.Attribute) and isinstance(q.func.value, ast.Name)
                                    and q.func.value.id == "self")]
    key = f"{fi.key}::input check dominates"
    body = [s for s in fi.node.body if not (isinstance(s, ast.Expr) and isinstance(s.value, ast.Constant))]
    if not chk:
        if _is_delegation(fi):
            ctx.ok("R02.2", key, "pure delegation (the wrapped operator checks)", fi)
        elif len(body) == 1 and isinstance(body[0], ast.Raise):
            ctx.ok("R02.2", key, "apply always raises", fi)
        else:
            ctx.bad("R02.2", key, "apply neither calls self._check_input/_check_mode nor purely delegates", fi)
        return
    # every return and every use of x must be unreachable when the check nodes are removed
    avoid = [n.id for n in chk]
    reach = cfg.reachable(cfg.entry.id, avoid=avoid, include_exc=False)
    offenders = []
    for nid in sorted(reach):
        n = cfg.nodes[nid]
        if n.kind == "stmt" and isinstance(n.ast, ast.Return):
            offenders.append(n)
        elif n.kind not in ("entry", "exit", "raise") and any(u.id == xname for u in cfg.node_uses(n)):
            offenders.append(n)
    if offenders:
        o = offenders[0]
        wit = cfg.describe_path(cfg.path(cfg.entry.id, o.id, avoid=avoid, include_exc=False))
        ctx.bad("R02.2", key, f"`{o.text()[:80]}` is reachable without passing the input check", fi, o.ast, witness=wit)
    else:
        # check receives x and mode
        good = True
        for n in chk:
            for _, c in find_nodes(cfg, lambda q: isinstance(q, ast.Call) and call_name(q) in CHECKS):
                args = [src(z) for z in c.args]
                if call_name(c) == "_check_input" and args[:2] != [xname, mname]:
                    good = False
                if call_name(c) == "_check_mode" and args[:1] != [mname]:
                    good = False
        ctx.check("R02.2", key, good, "check is called with other arguments than (x, mode)", fi)


# --------------------------------------------------------------------------- R02.3 / R02.4 (mode-specialised)
from ..consteval import ConstEval, class_resolver, TOP  # noqa: E402
from ..modespec import Spec  # noqa: E402

CTORS_FIRST = {"Field", "makeField", "MultiField", "full", "from_raw", "cast_domain", "from_random"}


def capability_const(model, c):
    """Constant capability mask assigned in __init__ (or helpers), None if not constant."""
    vals = set()
    for k in model.mro(c):
        for fi in k.methods.values():
            for st in walk_no_nested(fi.node):
                if isinstance(st, ast.Assign) and any(is_self_attr(t, "_capability") for t in st.targets):
                    v = ConstEval({}, class_resolver(model, c)).try_eval(st.value)
                    vals.add(v if (v is not TOP and isinstance(v, int)) else None)
                if isinstance(st, ast.AugAssign) and is_self_attr(st.target, "_capability"):
                    vals.add(None)
        if vals:
            break
    if len(vals) == 1 and None not in vals:
        return vals.pop()
    return None


def domain_label(e, mode, xn):
    """Label of a domain-valued expression under fixed mode: 'DOMAIN' | 'TARGET' | None"""
    s = src(e)
    if s in ("self._domain", "self.domain"):
        return "DOMAIN"
    if s in ("self._target", "self.target"):
        return "TARGET"
    if s in (f"{xn}.domain", f"{xn}._domain"):
        return "DOMAIN" if mode in (1, 8) else "TARGET"
    if isinstance(e, ast.Call) and src(e.func) in ("self._tgt", "self._dom") and len(e.args) == 1:
        a = e.args[0]
        if isinstance(a, ast.Constant) and a.value in (1, 2, 4, 8):
            dom_modes = (2, 4) if src(e.func) == "self._tgt" else (1, 8)
            return "DOMAIN" if a.value in dom_modes else "TARGET"
    return None


def result_domain_expr(e):
    """Domain argument of a locally constructed result, or None."""
    if not isinstance(e, ast.Call):
        return None
    nm = call_name(e)
    f = src(e.func)
    if nm in ("Field", "makeField", "MultiField") and f in ("Field", "makeField", "MultiField") and e.args:
        return e.args[0]
    if f in ("Field.from_raw", "Field.full", "full", "MultiField.full") and e.args:
        return e.args[0]
    if f == "MultiField.from_dict":
        for kw in e.keywords:
            if kw.arg == "domain":
                return kw.value
        if len(e.args) >= 2:
            return e.args[1]
        return None
    if nm == "cast_domain" and e.args:
        return e.args[0]
    return None


def spec_returns(model, c, fi, consts, depth=0, env=None):
    """Specialised return expressions, following `return self._helper(...)` one or two levels."""
    sp = Spec(model, c, fi, consts).run(env=env)
    out = []
    for e, a, st in sp.returns:
        if depth < 2 and isinstance(e, ast.Call) and isinstance(e.func, ast.Attribute) and isinstance(e.func.value, ast.Name) \
                and e.func.value.id == "self":
            callee = model.resolve_method(c, e.func.attr)
            if callee is not None and callee.cls is not None and callee.name not in ("apply",) and not callee.name.startswith("__"):
                ps = callee.params()[1:]
                sub = {}
                env2 = {}
                for p, arg in zip(ps, e.args):
                    if isinstance(arg, ast.Constant):
                        sub[p] = arg.value
                    else:
                        env2[p] = arg
                for kw in e.keywords:
                    if isinstance(kw.value, ast.Constant):
                        sub[kw.arg] = kw.value.value
                    elif kw.arg:
                        env2[kw.arg] = kw.value
                # keep `self.X` constants
                sub.update({k: v for k, v in consts.items() if "." in k})
                xarg = None
                inner, _sp2 = spec_returns(model, c, callee, sub, depth + 1, env2)
                for e2, a2, st2, xn2, fi2 in inner:
                    out.append((e2, a + a2, st2, xn2, fi2))
                continue
        out.append((e, a, st, None, fi))
    return out, sp


def r02_34(ctx, m, L, E, subs):
    ctx.rule("R02.3", "capability subset of handled modes: for every mode in a constant capability mask the mode-specialised apply "
                      "reaches a return with a value (no unconditional raise, no fall-through to None)", floor=30)
    ctx.rule("R02.4", "mode-typed result domain: under mode m every locally constructed result is built on _tgt(m) (target for "
                      "TIMES/ADJOINT_INVERSE, domain for ADJOINT/INVERSE); endomorphic operators are exempt from the distinction", floor=40)
    for c in subs:
        ap = c.methods.get("apply")
        if ap is None or len(ap.params()) < 3:
            continue
        xn, mn = ap.params()[1:3]
        cap = capability_const(m, c)
        endo = E in m.mro(c)
        modes = [md for md in (1, 2, 4, 8) if cap is None or (cap & md)]
        for md in modes:
            try:
                res, sp = spec_returns(m, c, ap, {mn: md})
            except RecursionError:
                ctx.und("R02.3", f"{ap.key}::mode {md}", "specialisation did not terminate", ap)
                continue
            if cap is not None:
                valued = [r for r in res if not (isinstance(r[0], ast.Constant) and r[0].value is None)]
                key = f"{ap.key}::advertised mode {md} is handled"
                if valued:
                    ctx.ok("R02.3", key, f"{len(valued)} return(s)", ap)
                elif sp.falls_through and not sp.raises:
                    ctx.bad("R02.3", key, f"capability {cap} advertises mode {md} but apply falls off the end (returns None) for it", ap)
                elif sp.raises and not res and not sp.falls_through:
                    ctx.bad("R02.3", key, f"capability {cap} advertises mode {md} but apply always raises for it", ap, sp.raises[0][1])
                else:
                    ctx.und("R02.3", key, "no return recognised", ap)
            for e, assume, st, _, fi_ in res:
                de = result_domain_expr(e)
                if de is None:
                    continue
                key = f"{ap.key}::mode {md}: `{short(e, 60)}`"
                lab = domain_label(de, md, xn if fi_ is ap else fi_.params()[1] if len(fi_.params()) > 1 else xn)
                want = "TARGET" if md in (1, 8) else "DOMAIN"
                if lab is None:
                    ctx.und("R02.4", key, f"domain expression `{src(de)}` not classified", fi_, st)
                elif endo:
                    ctx.ok("R02.4", key, "endomorphic: domain and target coincide", fi_, st)
                else:
                    ctx.check("R02.4", key, lab == want, f"result is labelled with the operator's {lab.lower()} but mode {md} maps onto the "
                              f"{want.lower()}", fi_, st)


_old_run = run


def run(ctx):  # noqa: F811
    _old_run(ctx)
    m = ctx.model
    L, E, subs = population(ctx)
    r02_34(ctx, m, L, E, subs)


# --------------------------------------------------------------------------- R02.5 / R02.6
VIEW_ATTRS = {"real", "imag", "T", "flat"}
VIEW_CALLS = {"reshape", "view", "ravel", "transpose", "swapaxes", "squeeze", "asnumpy", "astype_view"}
FRESH_CALLS = {"copy", "val_rw", "asnumpy_rw", "zeros", "empty", "ones", "zeros_like", "empty_like", "ones_like", "full", "full_like",
               "array", "astype", "conjugate", "conj", "sqrt", "exp", "log", "abs", "sum", "concatenate", "stack", "tile", "repeat",
               "to_dict", "to_global_data_rw"}
INPLACE_CALLS = {"fill", "sort", "itemset", "put", "partition", "resize", "setfield"}
SCATTER_FUNCS = {"add.at", "special_add_at", "copyto", "put_along_axis", "putmask", "place"}


def alias_kind(e, xn, env):
    """'ALIAS' if the expression denotes (a view of) the input's buffer, 'FRESH' if newly allocated, None unknown.
    env: name -> kind"""
    if isinstance(e, ast.Name):
        return env.get(e.id)
    if isinstance(e, ast.Attribute):
        if e.attr in ("val", "raw", "_val") and alias_kind(e.value, xn, env) in ("FIELD", "ALIAS"):
            return "ALIAS"
        if e.attr in VIEW_ATTRS:
            return alias_kind(e.value, xn, env) if alias_kind(e.value, xn, env) in ("ALIAS",) else None
        return None
    if isinstance(e, ast.Subscript):
        base = alias_kind(e.value, xn, env)
        if base == "FIELD":
            return "FIELD"  # x[key] of a MultiField is a Field
        if base == "ALIAS":
            # basic slicing gives a view, advanced indexing a copy: only literal slices / ints / Ellipsis are views
            def basic(s):
                if isinstance(s, ast.Slice):
                    return True
                if isinstance(s, ast.Constant) and (isinstance(s.value, int) or s.value is Ellipsis):
                    return True
                if isinstance(s, ast.Tuple):
                    return all(basic(x) for x in s.elts)
                if isinstance(s, ast.Call) and src(s.func) == "slice":
                    return True
                return False
            return "ALIAS" if basic(e.slice) else None
        return None
    if isinstance(e, ast.Call):
        nm = call_name(e)
        if nm in FRESH_CALLS:
            return "FRESH"
        if isinstance(e.func, ast.Attribute) and nm in VIEW_CALLS:
            b = alias_kind(e.func.value, xn, env)
            if b == "FIELD" and nm == "asnumpy":
                return "ALIAS"
            return "ALIAS" if b == "ALIAS" else None
        if nm in ("values",) and isinstance(e.func, ast.Attribute) and alias_kind(e.func.value, xn, env) == "FIELD":
            return None
        return None
    if isinstance(e, (ast.BinOp, ast.UnaryOp, ast.Compare)):
        return "FRESH"
    if isinstance(e, ast.IfExp):
        a, b = alias_kind(e.body, xn, env), alias_kind(e.orelse, xn, env)
        if "ALIAS" in (a, b):
            return "ALIAS"
        return a if a == b else None
    return None


def input_mutations(fn_node, xn):
    """Flow-sensitive (statement order, branches merged pessimistically) scan for stores into aliases of the input buffer.
    Returns (list of (stmt, description), number of store sites examined)."""
    found = []
    sites = [0]

    def store_target(t, env, st):
        base = t
        while isinstance(base, (ast.Subscript, ast.Attribute)) and not (isinstance(base, ast.Attribute) and base.attr in ("val", "raw", "_val")):
            base = base.value
        k = alias_kind(base, xn, env) if not isinstance(base, ast.Name) else env.get(base.id)
        sites[0] += 1
        if k == "ALIAS":
            found.append((st, f"store into `{src(t)}`, which is (a view of) the input's buffer"))

    def block(body, env):
        for st in body:
            if isinstance(st, ast.Assign):
                for t in st.targets:
                    if isinstance(t, ast.Subscript):
                        store_target(t, env, st)
                    elif isinstance(t, ast.Attribute) and t.attr in ("real", "imag"):
                        store_target(t, env, st)
                k = alias_kind(st.value, xn, env)
                for t in st.targets:
                    if isinstance(t, ast.Name):
                        env[t.id] = k
                    elif isinstance(t, ast.Tuple):
                        for e in t.elts:
                            if isinstance(e, ast.Name):
                                env[e.id] = None
            elif isinstance(st, ast.AugAssign):
                t = st.target
                if isinstance(t, ast.Subscript):
                    store_target(t, env, st)
                elif isinstance(t, ast.Name):
                    sites[0] += 1
                    if env.get(t.id) == "ALIAS":
                        found.append((st, f"in-place `{src(st)}` on (a view of) the input's buffer"))
            elif isinstance(st, ast.Expr) and isinstance(st.value, ast.Call):
                check_call(st.value, env, st)
            elif isinstance(st, ast.If):
                e1, e2 = dict(env), dict(env)
                block(st.body, e1)
                block(st.orelse, e2)
                for k in set(e1) | set(e2):
                    a, b = e1.get(k), e2.get(k)
                    env[k] = "ALIAS" if "ALIAS" in (a, b) else (a if a == b else None)
            elif isinstance(st, (ast.For, ast.While)):
                if isinstance(st, ast.For):
                    itk = alias_kind(st.iter, xn, env)
                    for n in ast.walk(st.target):
                        if isinstance(n, ast.Name):
                            env[n.id] = None
                block(st.body, env)
                block(st.body, env)
            elif isinstance(st, ast.With):
                block(st.body, env)
            elif isinstance(st, ast.Try):
                block(st.body, env)
                for h in st.handlers:
                    block(h.body, env)
            if isinstance(st, (ast.Assign, ast.Return, ast.Expr, ast.AugAssign)):
                for c in ast.walk(st):
                    if isinstance(c, ast.Call) and not (isinstance(st, ast.Expr) and c is st.value):
                        check_call(c, env, st)

    def check_call(c, env, st):
        f = src(c.func)
        nm = call_name(c)
        for kw in c.keywords:
            if kw.arg == "out":
                sites[0] += 1
                if alias_kind(kw.value, xn, env) == "ALIAS":
                    found.append((st, f"`out={src(kw.value)}` writes into the input's buffer"))
        if any(f.endswith(s_) for s_ in SCATTER_FUNCS) and c.args:
            sites[0] += 1
            if alias_kind(c.args[0], xn, env) == "ALIAS":
                found.append((st, f"`{short(c, 60)}` accumulates into the input's buffer"))
        if isinstance(c.func, ast.Attribute) and nm in INPLACE_CALLS:
            sites[0] += 1
            if alias_kind(c.func.value, xn, env) == "ALIAS":
                found.append((st, f"`{short(c, 60)}` modifies the input's buffer in place"))
    block(fn_node.body, {xn: "FIELD"})
    return found, sites[0]


POSITIVE_CONTROL = '''
class _Bad:
    def apply(self, x, mode):
        v = x.val
        w = v.reshape(-1)
        w[0] = 0.
        return x
'''


def r02_56(ctx, m, L, E, subs):
    ctx.rule("R02.6", "applying an operator never modifies its input: no store (subscript / augmented assignment / out= / scatter / "
                      "in-place method) targets a name that may denote the input's buffer or a view of it; val_rw()/copy()/arithmetic "
                      "results are fresh", floor=50)
    pc = ast.parse(POSITIVE_CONTROL).body[0].body[0]
    f, _ = input_mutations(pc, "x")
    if not f:
        ctx.error("R02.6 positive control (store through a reshaped view of x.val) was not flagged")
    tot_sites = 0
    for c in subs:
        for fi in c.methods.values():
            ps = fi.params()
            if fi.name == "apply" and len(ps) >= 2:
                xn = ps[1]
            elif len(ps) >= 2 and ps[1] in ("x", "inp", "fld", "field") and fi.name.startswith("_"):
                xn = ps[1]
            else:
                continue
            found, sites = input_mutations(fi.node, xn)
            tot_sites += sites
            ctx.saw_func(fi)
            key = f"{fi.key}::does not write into `{xn}`"
            if found:
                st, why = found[0]
                ctx.bad("R02.6", key, why + (f" (+{len(found) - 1} more)" if len(found) > 1 else ""), fi, st)
            else:
                ctx.ok("R02.6", key, f"{sites} store site(s) examined", fi)
    ctx.extra["R02.6_store_sites"] = tot_sites

    ctx.rule("R02.5", "accumulate-scatter adjoints: where one direction gathers through an integer index attribute that may repeat, "
                      "every store through the same index attribute in the class is an accumulating form (np.add.at / special_add_at / +=)", floor=4)
    # candidates: classes with a gather `a[... self.I ...]` (Load) where I is also used in a store/scatter
    EXEMPT = {"MaskOperator": "boolean mask (injective)", "SliceOperator": "slices (injective)", "ValueInserter": "single index (injective)",
              "DomainTupleFieldInserter": "single position (injective)", "LowerTriangularInserter": "index set of distinct positions"}
    for c in subs:
        idx_loads, idx_stores, accum = {}, {}, {}
        for fi in c.methods.values():
            for n in ast.walk(fi.node):
                if isinstance(n, ast.Subscript):
                    attrs = [x.attr for x in ast.walk(n.slice) if is_self_attr(x)]
                    for a in attrs:
                        (idx_loads if isinstance(n.ctx, ast.Load) else idx_stores).setdefault(a, []).append((fi, n))
                if isinstance(n, ast.Call) and any(src(n.func).endswith(s_) for s_ in ("add.at", "special_add_at")):
                    for arg in n.args[1:3]:
                        for x in ast.walk(arg):
                            if is_self_attr(x):
                                accum.setdefault(x.attr, []).append((fi, n))
        # only index attributes that some method of the class scatters through with an accumulating primitive, plus the
        # confirmed gather indices of the frozen table
        TABLE = {("DOFDistributor", "_dofdex"), ("_Distributor", "_dofdex"), ("RegriddingOperator", "_bindex")}
        cand = set(accum) | {a for (cn, a) in TABLE if cn == c.name}
        for a in sorted(cand):
            key = f"{c.key}::scatter through self.{a} accumulates"
            if c.name in EXEMPT:
                ctx.ok("R02.5", key, f"exempt: {EXEMPT[c.name]}", c)
                continue
            plain = []
            for fi, n in idx_stores.get(a, []):
                # find the enclosing statement
                for st in ast.walk(fi.node):
                    if isinstance(st, ast.Assign) and any(t is n for t in st.targets):
                        plain.append((fi, st))
                    if isinstance(st, ast.AugAssign) and st.target is n and not isinstance(st.op, ast.Add):
                        plain.append((fi, st))
            if plain:
                fi, st = plain[0]
                ctx.bad("R02.5", key, f"`{short(st)}` stores through an index that may repeat: contributions overwrite each other instead "
                                      "of being summed (the adjoint of a gather is a scatter-ADD)", fi, st)
            else:
                ctx.ok("R02.5", key, f"accumulating: {[short(n) for _, n in accum.get(a, [])][:2]}", c)


_old_run2 = run


def run(ctx):  # noqa: F811
    _old_run2(ctx)
    m = ctx.model
    L, E, subs = population(ctx)
    r02_56(ctx, m, L, E, subs)


_run_c02_base = run


def run(ctx):  # noqa: F811
    _run_c02_base(ctx)
    # LinearInterpolator: matrix construction (shared with C35)
    from .c35 import r35_4
    r35_4(ctx, ctx.model, rid="R02.7")


# ---------------------------------------------------------------------------------------------------------------- R02.8 - R02.10
def r02_8(ctx, m, rid="R02.8"):
    """sign bookkeeping when a nested sum is unpacked: outer sign XOR inner sign"""
    import itertools
    S = m.cls("nifty.cl.operators.sum_operator", "SumOperator")
    fi = S.methods.get("simplify")
    ctx.rule(rid, "SumOperator.simplify: when a nested SumOperator is unpacked, each inner term's sign flag becomes (inner flag XOR "
                  "outer flag) - decided by the truth table of the expression that builds the new flags", floor=1)
    key = f"{S.key}.simplify::unpacked sign = inner XOR outer"
    if fi is None:
        ctx.und(rid, key, "simplify missing", S)
        return
    ctx.saw_func(fi)
    loops = [lp for lp in walk_no_nested(fi.node) if isinstance(lp, ast.For) and isinstance(lp.target, ast.Tuple) and len(lp.target.elts) == 2
             and any(isinstance(t, ast.If) and "isinstance" in src(t.test) and "SumOperator" in src(t.test) for t in lp.body)]
    if not loops:
        ctx.und(rid, key, "unpacking loop not found", fi)
        return
    lp = loops[0]
    opn, ngn = [src(x) for x in lp.target.elts]
    br = [t for t in lp.body if isinstance(t, ast.If) and "SumOperator" in src(t.test)][0]

    def elem_fn(stmts, assume):
        """returns python callable n -> new flag for the AugAssign/extend into the flag list under the assumed value of the outer flag"""
        for st in stmts:
            if isinstance(st, ast.If) and src(st.test).replace(" ", "") in (ngn, f"not{ngn}"):
                tv = assume if src(st.test).replace(" ", "") == ngn else not assume
                r = elem_fn(st.body if tv else st.orelse, assume)
                if r is not None:
                    return r
            if isinstance(st, ast.AugAssign) and isinstance(st.op, ast.Add) and "_neg" in src(st.value):
                v = st.value
                if isinstance(v, ast.IfExp) and src(v.test).replace(" ", "") in (ngn, f"not{ngn}"):
                    tv = assume if src(v.test).replace(" ", "") == ngn else not assume
                    v = v.body if tv else v.orelse
                if isinstance(v, ast.Call) and call_name(v) in ("list", "tuple") and len(v.args) == 1 and src(v.args[0]) == f"{opn}._neg":
                    return lambda n: n
                if isinstance(v, ast.ListComp) and len(v.generators) == 1 and src(v.generators[0].iter) == f"{opn}._neg":
                    var = src(v.generators[0].target)
                    elt = v.elt
                    return lambda n, elt=elt, var=var: _bool_eval(elt, {var: n, ngn: assume})
                return None
        return None
    table = {}
    for ng, n in itertools.product((False, True), repeat=2):
        f = elem_fn(br.body, ng)
        if f is None:
            ctx.und(rid, key, "flag expression not understood", fi, br)
            return
        try:
            table[(n, ng)] = bool(f(n))
        except KeyError as exc:
            ctx.und(rid, key, f"flag expression not boolean over (inner, outer): {exc}", fi, br)
            return
    wrong = {k: v for k, v in table.items() if v != (k[0] != k[1])}
    ctx.check(rid, key, not wrong, f"(inner, outer) -> new flag: {table}" + (f"; wrong for {sorted(wrong)}: X - (A - B) would become X - A - B" if wrong else ""), fi, br)


def _bool_eval(e, env):
    if isinstance(e, ast.Name):
        return env[e.id]
    if isinstance(e, ast.Constant) and isinstance(e.value, bool):
        return e.value
    if isinstance(e, ast.UnaryOp) and isinstance(e.op, ast.Not):
        return not _bool_eval(e.operand, env)
    if isinstance(e, ast.BoolOp):
        vs = [_bool_eval(v, env) for v in e.values]
        return all(vs) if isinstance(e.op, ast.And) else any(vs)
    if isinstance(e, ast.BinOp) and isinstance(e.op, ast.BitXor):
        return _bool_eval(e.left, env) != _bool_eval(e.right, env)
    if isinstance(e, ast.Compare) and len(e.ops) == 1 and isinstance(e.ops[0], (ast.NotEq, ast.Eq, ast.Is, ast.IsNot)):
        a, b = _bool_eval(e.left, env), _bool_eval(e.comparators[0], env)
        return (a != b) if isinstance(e.ops[0], (ast.NotEq, ast.IsNot)) else (a == b)
    if isinstance(e, ast.IfExp):
        return _bool_eval(e.body, env) if _bool_eval(e.test, env) else _bool_eval(e.orelse, env)
    raise KeyError(src(e))


def r02_9(ctx, m):
    """freshly allocated result buffers carry the dtype of the input"""
    L = m.cls("nifty.cl.operators.linear_operator", "LinearOperator")
    ctx.rule("R02.9", "result buffers that apply() allocates with np.zeros/empty/ones/full and then fills from the input are given an "
                      "explicit dtype taken from the input (a default float64 buffer silently drops the imaginary part of complex input)", floor=1)
    n = 0
    for c in m.subclasses(L):
        if c.local:
            continue
        for name, fi in c.methods.items():
            if name not in ("apply", "_times", "_adjoint_times", "_apply_cartesian"):
                continue
            xn = fi.params()[1] if len(fi.params()) > 1 else None
            for st in walk_no_nested(fi.node):
                if isinstance(st, ast.Assign) and isinstance(st.value, ast.Call) and call_name(st.value) in ("zeros", "empty", "ones", "full") \
                        and src(st.value.func).startswith(("np.", "xp.", "numpy.")) and isinstance(st.targets[0], ast.Name):
                    call = st.value
                    dt = [k.value for k in call.keywords if k.arg == "dtype"] or list(call.args[(2 if call_name(call) == "full" else 1):][:1])
                    filled = any(isinstance(s2, ast.Assign) and isinstance(s2.targets[0], ast.Subscript) and src(s2.targets[0].value) == st.targets[0].id
                                 for s2 in walk_no_nested(fi.node))
                    if not filled:
                        continue
                    n += 1
                    good = bool(dt) and xn is not None and (f"{xn}.dtype" in src(dt[0]) or "dtype" in src(dt[0]))
                    ctx.check("R02.9", f"{fi.key}::{short(st, 60)}", good,
                              None if good else f"`{src(call)}` has no dtype: the buffer is float64 whatever the input is", fi, st)
    if n == 0:
        ctx.und("R02.9", "nifty.cl::plain result allocations in apply", "none found", None)


def r02_10(ctx, m):
    O = m.cls("nifty.cl.operators.outer_product_operator", "OuterProduct")
    ap = O.methods["apply"]
    ctx.rule("R02.10", "OuterProduct: the forward action multiplies by the stored field, so the adjoint contracts with its complex "
                       "CONJUGATE (tensordot(conj(f), y) over the field's axes)", floor=1)
    from ..modespec import Spec
    xn, mn = ap.params()[1:3]
    fw = [src(e).replace(" ", "") for e, a, st in Spec(m, O, ap, {mn: 1}).run().returns]
    ad = [src(e).replace(" ", "") for e, a, st in Spec(m, O, ap, {mn: 2}).run().returns]
    key = f"{ap.key}::adjoint contracts with the conjugated field"
    if len(fw) != 1 or len(ad) != 1 or "outer(self._field.val," not in fw[0]:
        ctx.und("R02.10", key, f"forward {fw}, adjoint {ad}", ap)
        return
    good = "tensordot(self._field.val.conj()," in ad[0] or "tensordot(self._field.val.conjugate()," in ad[0] or "tensordot(self._field.conjugate().val," in ad[0] \
        or "tensordot(np.conj(self._field.val)," in ad[0]
    ctx.check("R02.10", key, good, f"adjoint: {ad[0][:140]}" + ("" if good else " - <y, A x> != <A^H y, x> for a complex field"), ap)


_run_c02c = run


def run(ctx):  # noqa: F811
    _run_c02c(ctx)
    r02_8(ctx, ctx.model)
    r02_9(ctx, ctx.model)
    r02_10(ctx, ctx.model)


def r02_11(ctx, m):
    """aliases of rules owned by other properties whose code lives in nifty/cl/operators, plus the regridding broadcast shape"""
    from .c11 import r11_5
    from .c03 import r03_45
    r11_5(ctx, m, rid="R02.11")
    r03_45(ctx, rid4="R02.12", only4=True)
    ctx.rule("R02.13", "RegriddingOperator.apply: the 1-d interpolation weights of axis d are broadcast with a shape that has one entry "
                       "per axis of the WHOLE array, (1,)*d + (-1,) + (1,)*(ndim-d-1) with ndim = number of axes of the target - an "
                       "axis count that stops at the regridded sub-space puts the weights on the wrong axis when further sub-spaces follow", floor=1)
    R = m.cls("nifty.cl.operators.regridding_operator", "RegriddingOperator")
    ap = R.methods["apply"]
    ctx.saw_func(ap)
    resh = [c for c in walk_no_nested(ap.node) if isinstance(c, ast.Call) and call_name(c) == "reshape" and c.args and "(-1,)" in src(c.args[0])]
    key = f"{ap.key}::weights are broadcast over all axes"
    if not resh:
        ctx.und("R02.13", key, "reshape of the weights not found", ap)
        return
    loc = {src(st.targets[0]): st.value for st in walk_no_nested(ap.node) if isinstance(st, ast.Assign) and isinstance(st.targets[0], ast.Name)}
    import re as _re
    for c in resh:
        t = src(c.args[0]).replace(" ", "")
        mt = _re.fullmatch(r"\(1,\)\*(\w+)\+\(-1,\)\+\(1,\)\*\((\w+)-(\w+)-1\)", t)
        if not mt or mt.group(1) != mt.group(3):
            ctx.und("R02.13", key, f"shape `{src(c.args[0])}` not recognised", ap, c)
            continue
        nname = mt.group(2)
        nd = src(loc[nname]).replace(" ", "") if nname in loc else nname
        whole = nd in ("len(self.target.shape)", "len(self._target.shape)", "len(self._tgt(mode).shape)", "len(self._dom(mode).shape)", "v.ndim", "len(v.shape)", "x.val.ndim",
                       "len(curshp)", "len(tgtshp)", "len(self.domain.shape)", "len(self._domain.shape)")
        if whole:
            ctx.ok("R02.13", key, f"{nname} = {nd}", ap, c)
        elif ".axes[" in nd:
            ctx.bad("R02.13", key, f"{nname} = {nd} counts the axes up to one sub-space only; the array has len(target.shape) axes", ap, c)
        else:
            ctx.und("R02.13", key, f"{nname} = {nd} not recognised", ap, c)


_run_c02d = run


def run(ctx):  # noqa: F811
    _run_c02d(ctx)
    r02_11(ctx, ctx.model)


# ---------------------------------------------------------------------------------------------------------------- R02.14
def r02_14(ctx, m, rid="R02.14"):
    """volume-weighted reductions are not self-adjoint: an apply that uses one needs a separate adjoint branch"""
    ctx.rule(rid, "LinearOperator.apply with ADJOINT_TIMES: a volume-weighted reduction of the input (s_mean / mean / integrate / "
                  "s_integrate / weight) is the operator 1 w^T / V, whose adjoint w 1^T / V is a different map wherever the pixel "
                  "volumes are not uniform - an apply that uses one therefore distinguishes the modes (a formula that only forwards "
                  "`mode` to an inner operator is the adjoint on regular grids only)", floor=1)
    base = m.cls("nifty.cl.operators.linear_operator", "LinearOperator")
    red = {"s_mean", "mean", "integrate", "s_integrate", "weight"}
    n = 0
    for mod in m.modules.values():
        if not mod.name.startswith("nifty.cl."):
            continue
        for c in mod.classes.values():
            if base not in m.mro(c):
                continue
            ap = c.methods.get("apply")
            if ap is None or len(ap.params()) < 3:
                continue
            xn, mn = ap.params()[1], ap.params()[2]
            uses = [z for z in ast.walk(ap.node) if isinstance(z, ast.Call) and isinstance(z.func, ast.Attribute) and z.func.attr in red
                    and any(isinstance(q, ast.Name) and q.id == xn for q in ast.walk(z.func.value))]
            if not uses:
                continue
            n += 1
            ctx.saw_func(ap)
            branches = any(isinstance(z, ast.Compare) and any(isinstance(q, ast.Name) and q.id == mn for q in ast.walk(z)) for z in ast.walk(ap.node)) or \
                any(isinstance(z, ast.BinOp) and isinstance(z.op, ast.BitAnd) and any(isinstance(q, ast.Name) and q.id == mn for q in ast.walk(z)) for z in ast.walk(ap.node))
            ctx.check(rid, f"{ap.key}::`{short(uses[0], 40)}` is used under a mode distinction", branches,
                      "" if branches else f"`{src(uses[0])}` enters the same formula in TIMES and ADJOINT_TIMES", ap, uses[0])
    if not n:
        ctx.und(rid, "LinearOperator.apply population", "no apply uses a volume-weighted reduction", "nifty/cl/operators")


_run_c02z = run


def run(ctx):  # noqa: F811
    _run_c02z(ctx)
    r02_14(ctx, ctx.model)
