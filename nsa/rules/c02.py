"""C02 - structural discipline of every LinearOperator subclass."""
import ast

from ..model import src, short, walk_no_nested, is_self_attr, call_name
from ..initflow import attr_summary
from ..util import cfg_of, find_nodes, known_atoms, returns_of

LINOP = ("nifty.cl.operators.linear_operator", "LinearOperator")
ENDO = ("nifty.cl.operators.endomorphic_operator", "EndomorphicOperator")


def population(ctx):
    m = ctx.model
    L = m.cls(*LINOP)
    E = m.cls(*ENDO)
    subs = m.subclasses(L)
    local = [c for c in subs if c.local]
    if local:
        ctx.notes.append("exempt (classes defined inside a function are not exported by the library): "
                         + ", ".join(c.key for c in local))
    subs = [c for c in subs if not c.local]
    return L, E, subs


def _overrides(model, c, base, name):
    """Does a class strictly below `base` in c's MRO define `name`?"""
    for k in model.mro(c):
        if k is base:
            return False
        if name in k.methods or name in k.consts:
            return True
    return False


def is_abstract(model, c, L):
    """No usable apply: inherits LinearOperator.apply (raises NotImplementedError)."""
    ap = model.resolve_method(c, "apply")
    return ap is None or ap.cls is L


def run(ctx):
    m = ctx.model
    L, E, subs = population(ctx)
    Op = m.cls("nifty.cl.operators.operator", "Operator")
    ctx.extra["linear_operator_subclasses"] = len(subs)

    # ------------------------------------------------------------------ R02.1
    ctx.rule("R02.1", "every concrete LinearOperator subclass assigns _domain, _capability (and _target unless "
                      "endomorphic) on every normal exit of __init__ (helpers and super().__init__ followed)", floor=50)
    for c in subs:
        ctx.saw_class(c)
        init = m.resolve_method(c, "__init__")
        if init is None or init.cls in (L, Op) or init.cls is None:
            # no constructor of its own: abstract helper base or built through __new__
            if is_abstract(m, c, L):
                continue
            ctx.und("R02.1", f"{c.key}::__init__", "no __init__ in the hierarchy below LinearOperator", c)
            continue
        if is_abstract(m, c, L) and not m.subclasses(c):
            continue
        must, may, normal = attr_summary(m, c, init)
        ctx.saw_func(init)
        if not normal:
            continue  # constructor always raises (abstract)
        need = {"_domain": "domain", "_capability": "capability"}
        if E not in m.mro(c):
            need["_target"] = "target"
        abstract = is_abstract(m, c, L)
        for attr, prop in need.items():
            key = f"{c.key}::__init__ assigns {attr}"
            if _overrides(m, c, L, prop):
                ctx.ok("R02.1", key, f"property `{prop}` is overridden", c)
                continue
            if attr in must:
                ctx.ok("R02.1", key, None, init)
            elif abstract:
                continue  # base class whose subclasses complete the construction
            elif attr in may:
                ctx.bad("R02.1", key, f"{attr} is assigned only on some paths through {init.key}", init)
            else:
                # look for a near miss to make the report diagnosable
                near = [a for a in may if a.startswith(attr[:6])]
                ctx.bad("R02.1", key, f"{attr} is never assigned by {init.key}"
                        + (f" (assigns {sorted(near)} instead)" if near else ""), init)

    # ------------------------------------------------------------------ R02.2
    ctx.rule("R02.2", "in every apply(self, x, mode) a call to self._check_input / self._check_mode dominates every "
                      "return and every use of x, unless apply is a pure delegation to a wrapped operator", floor=50)
    applies = []
    for c in subs:
        if "apply" in c.methods:
            applies.append(c.methods["apply"])
    ctx.extra["apply_methods"] = len(applies)
    for fi in applies:
        ctx.saw_func(fi)
        r02_2(ctx, fi)


CHECKS = ("_check_input", "_check_mode")


def _is_delegation(fi):
    """apply body is `return <something>.apply(x, <mode expr>)` (optionally after
    statements that do not touch x)."""
    rets = returns_of(fi)
    if not rets:
        return False
    for r in rets:
        v = r.value
        if not (isinstance(v, ast.Call) and call_name(v) in ("apply", "_apply") or
                (isinstance(v, ast.Call) and isinstance(v.func, ast.Attribute) and
                 v.func.attr in ("times", "adjoint_times", "inverse_times", "adjoint_inverse_times", "__call__"))):
            return False
    return True


def r02_2(ctx, fi):
    a = fi.node.args
    pnames = [x.arg for x in a.args]
    if len(pnames) < 3:
        ctx.und("R02.2", f"{fi.key}::signature", "apply does not have (self, x, mode)", fi)
        return
    xname, mname = pnames[1], pnames[2]
    cfg = cfg_of(fi)
    chk = [n for n, c in find_nodes(cfg, lambda q: isinstance(q, ast.Call) and call_name(q) in CHECKS
                                    and isinstance(q.func, ast.Attribute) and isinstance(q.func.value, ast.Name)
                                    and q.func.value.id == "self")]
    key = f"{fi.key}::input check dominates"
    body = [s for s in fi.node.body if not (isinstance(s, ast.Expr) and isinstance(s.value, ast.Constant))]
    if not chk:
        if _is_delegation(fi):
            ctx.ok("R02.2", key, "pure delegation (the wrapped operator checks)", fi)
        elif len(body) == 1 and isinstance(body[0], ast.Raise):
            ctx.ok("R02.2", key, "apply always raises", fi)
        else:
            ctx.bad("R02.2", key, "apply neither calls self._check_input/_check_mode nor purely delegates", fi)
        return
    # every return and every use of x must be unreachable when the check nodes are removed
    avoid = [n.id for n in chk]
    reach = cfg.reachable(cfg.entry.id, avoid=avoid, include_exc=False)
    offenders = []
    for nid in sorted(reach):
        n = cfg.nodes[nid]
        if n.kind == "stmt" and isinstance(n.ast, ast.Return):
            offenders.append(n)
        elif n.kind not in ("entry", "exit", "raise") and any(u.id == xname for u in cfg.node_uses(n)):
            offenders.append(n)
    if offenders:
        o = offenders[0]
        wit = cfg.describe_path(cfg.path(cfg.entry.id, o.id, avoid=avoid, include_exc=False))
        ctx.bad("R02.2", key, f"`{o.text()[:80]}` is reachable without passing the input check", fi, o.ast, witness=wit)
    else:
        # check receives x and mode
        good = True
        for n in chk:
            for _, c in find_nodes(cfg, lambda q: isinstance(q, ast.Call) and call_name(q) in CHECKS):
                args = [src(z) for z in c.args]
                if call_name(c) == "_check_input" and args[:2] != [xname, mname]:
                    good = False
                if call_name(c) == "_check_mode" and args[:1] != [mname]:
                    good = False
        ctx.check("R02.2", key, good, "check is called with other arguments than (x, mode)", fi)
