"""C03 - point-wise table: value column == plain evaluation, derivative column == derivative (term rewriting + sympy as
normaliser); metric request threaded through the combinators."""
import ast
import glob
import sys

from ..model import src, short, walk_no_nested, call_name
from ..terms import subst
from ..util import cfg_of

PW = "nifty.cl.pointwise"
LIN = "nifty.cl.linearization"
OPM = "nifty.cl.operators.operator"
SMOOTH = ["sqrt", "sin", "cos", "tan", "exp", "expm1", "log", "log10", "log1p", "sinh", "cosh", "tanh", "sigmoid", "reciprocal",
          "power", "exponentiate", "arctan"]


def _load_sympy():
    try:
        import sympy  # noqa: F401
        return sympy
    except Exception:
        pass
    for pat in ("/opt/veriftools/wheels/mpmath-*.whl", "/opt/veriftools/wheels/sympy-*.whl"):
        for w in glob.glob(pat):
            if w not in sys.path:
                sys.path.insert(0, w)
    try:
        import sympy
        return sympy
    except Exception:
        return None


def helper_terms(mod, g):
    """(value term, derivative term, param names) of a helper given as Lambda or function name, with single-assignment locals inlined."""
    if isinstance(g, ast.Lambda):
        params = [a.arg for a in g.args.args]
        body = g.body
        if isinstance(body, ast.BinOp) and isinstance(body.op, ast.Mult) and isinstance(body.left, ast.Constant) and body.left.value == 2 \
                and isinstance(body.right, ast.Tuple) and len(body.right.elts) == 1:
            return body.right.elts[0], body.right.elts[0], params
        if isinstance(body, ast.Tuple) and len(body.elts) == 2:
            return body.elts[0], body.elts[1], params
        return None
    if isinstance(g, ast.Name) and g.id in mod.functions:
        fn = mod.functions[g.id].node
        params = [a.arg for a in fn.args.args]
        env = {}
        for st in fn.body:
            if isinstance(st, ast.Assign) and len(st.targets) == 1 and isinstance(st.targets[0], ast.Name):
                env[st.targets[0].id] = subst(st.value, env)
            elif isinstance(st, ast.Return):
                v = st.value
                if isinstance(v, ast.Tuple) and len(v.elts) == 2:
                    return subst(v.elts[0], env), subst(v.elts[1], env), params
                return None
            elif isinstance(st, (ast.If, ast.Expr)):
                continue
            else:
                return None
    return None


def plain_term(mod, f, params):
    """term of plain evaluation f(v, *extra)"""
    args = [ast.Name(id=p, ctx=ast.Load()) for p in params]
    if isinstance(f, ast.Lambda):
        mp = {a.arg: b for a, b in zip(f.args.args, args)}
        return subst(f.body, mp)
    if isinstance(f, ast.Name) and f.id in mod.functions:
        fn = mod.functions[f.id].node
        rets = [s_ for s_ in fn.body if isinstance(s_, ast.Return)]
        if len(fn.body) == 1 and rets:
            mp = {a.arg: b for a, b in zip(fn.args.args, args)}
            return subst(rets[0].value, mp)
        return None
    if isinstance(f, (ast.Attribute, ast.Name)):
        return ast.Call(func=f, args=args, keywords=[])
    return None


def to_sympy(sp, e, syms):
    np_funcs = {"sin": sp.sin, "cos": sp.cos, "tan": sp.tan, "exp": sp.exp, "log": sp.log, "sinh": sp.sinh, "cosh": sp.cosh,
                "tanh": sp.tanh, "sqrt": sp.sqrt, "arctan": sp.atan, "abs": sp.Abs,
                "expm1": lambda x: sp.exp(x) - 1, "log1p": lambda x: sp.log(1 + x), "log10": lambda x: sp.log(x) / sp.log(10),
                "sinc": lambda x: sp.sin(sp.pi * x) / (sp.pi * x), "power": lambda a, b: a ** b, "reciprocal": lambda x: 1 / x}
    if isinstance(e, ast.Constant) and isinstance(e.value, (int, float)):
        return sp.nsimplify(e.value)
    if isinstance(e, ast.Name):
        if e.id in syms:
            return syms[e.id]
        raise ValueError(e.id)
    if isinstance(e, ast.Attribute) and src(e) in ("np.pi", "numpy.pi"):
        return sp.pi
    if isinstance(e, ast.UnaryOp) and isinstance(e.op, ast.USub):
        return -to_sympy(sp, e.operand, syms)
    if isinstance(e, ast.BinOp):
        a, b = to_sympy(sp, e.left, syms), to_sympy(sp, e.right, syms)
        if isinstance(e.op, ast.Add):
            return a + b
        if isinstance(e.op, ast.Sub):
            return a - b
        if isinstance(e.op, ast.Mult):
            return a * b
        if isinstance(e.op, ast.Div):
            return a / b
        if isinstance(e.op, ast.Pow):
            return a ** b
    if isinstance(e, ast.Call) and isinstance(e.func, ast.Attribute) and src(e.func.value) in ("np", "numpy") and e.func.attr in np_funcs:
        return np_funcs[e.func.attr](*[to_sympy(sp, a, syms) for a in e.args])
    if isinstance(e, ast.Subscript):  # fv[sel] -> fv
        return to_sympy(sp, e.value, syms)
    raise ValueError(src(e))


def run(ctx):
    m = ctx.model
    mod = m.module(PW)
    tbl = mod.assigns.get("ptw_dict")
    if not isinstance(tbl, ast.Dict):
        ctx.error("pointwise.ptw_dict is not a dict literal")
        return
    entries = {k.value: v for k, v in zip(tbl.keys, tbl.values) if isinstance(k, ast.Constant)}
    ctx.extra["ptw_entries"] = sorted(entries)
    ctx.rule("R03.1", "value column: the first component returned by each entry's (value, derivative) helper is the same term as "
                      "the entry's plain function applied to the argument (single-assignment locals inlined)", floor=18)
    ctx.rule("R03.2", "derivative column: for the smooth single-expression entries the second component equals the symbolic "
                      "derivative of the value term (rule-based differentiation, sympy used only to normalise the two terms)", floor=15)
    sp = _load_sympy()
    if sp is None:
        ctx.notes.append("sympy not importable: R03.2 undecided")
    decided2 = 0
    for name, pair in sorted(entries.items()):
        key = f"{mod.relpath}::ptw_dict[{name!r}]"
        if not (isinstance(pair, ast.Tuple) and len(pair.elts) == 2):
            ctx.und("R03.1", key, "entry is not a (f, g) pair", mod.relpath, pair)
            continue
        f, g = pair.elts
        ht = helper_terms(mod, g)
        if ht is None:
            # piece-wise helpers: compare statement lists of fv[...] assignments where a named plain function exists
            if isinstance(f, ast.Name) and f.id in mod.functions and isinstance(g, ast.Name) and g.id in mod.functions:
                def pieces(fn, var):
                    return sorted((src(s_.targets[0]).replace(" ", ""), src(s_.value)) for s_ in fn.body
                                  if isinstance(s_, ast.Assign) and isinstance(s_.targets[0], ast.Subscript) and src(s_.targets[0].value) == var)
                def masks(fn):
                    from ..terms import norm
                    out = {}
                    for s_ in fn.body:
                        if isinstance(s_, ast.Assign) and isinstance(s_.targets[0], ast.Name) and s_.targets[0].id.startswith("sel"):
                            v = s_.value
                            if isinstance(v, ast.Compare) and len(v.ops) == 1 and isinstance(v.ops[0], ast.Lt) and isinstance(v.left, ast.Constant):
                                v = ast.Compare(left=v.comparators[0], ops=[ast.Gt()], comparators=[v.left])
                            out[s_.targets[0].id] = src(v)
                    return out
                def ret_names(fn):
                    for s_ in fn.body:
                        if isinstance(s_, ast.Return):
                            v_ = s_.value
                            if isinstance(v_, ast.Tuple):
                                return [e.id if isinstance(e, ast.Name) else None for e in v_.elts]
                            return [v_.id if isinstance(v_, ast.Name) else None]
                    return [None]
                fvn_f = ret_names(mod.functions[f.id].node)[0]
                gn_names = ret_names(mod.functions[g.id].node)
                fvn_g = gn_names[0]
                dfvn_g = gn_names[1] if len(gn_names) > 1 else None

                def canon(lst, a, b):
                    return sorted((t.replace(a + "[", "fv[", 1) if a else t, v) for t, v in lst)
                pf = canon(pieces(mod.functions[f.id].node, fvn_f), fvn_f, None)
                pg = canon(pieces(mod.functions[g.id].node, fvn_g), fvn_g, None)
                ctx.check("R03.1", key, pf == pg and masks(mod.functions[f.id].node) == masks(mod.functions[g.id].node) and bool(pf),
                          f"plain {pf} / {masks(mod.functions[f.id].node)} vs helper {pg} / {masks(mod.functions[g.id].node)}", mod.relpath, pair)
                if sp is not None:
                    gn = mod.functions[g.id].node
                    dpieces = dict((t.replace(dfvn_g + "[", "dfv[", 1), v) for t, v in pieces(gn, dfvn_g)) if dfvn_g else {}
                    v_ = sp.Symbol("v", real=True)
                    okd = True
                    why = []
                    for tgt, val in pg:
                        dk = tgt.replace("fv[", "dfv[")
                        if dk not in dpieces:
                            okd = None
                            continue
                        try:
                            fv_ = to_sympy(sp, ast.parse(val, mode="eval").body, {"v": v_})
                            dv_ = to_sympy(sp, ast.parse(dpieces[dk], mode="eval").body, {"v": v_})
                            if sp.simplify(sp.diff(fv_, v_) - dv_) != 0:
                                okd = False
                                why.append(f"{tgt}: d/dv {val} != {dpieces[dk]}")
                        except Exception as ex:
                            okd = None if okd else okd
                            why.append(f"{tgt}: {ex}")
                    ctx.check("R03.2", key, okd, "; ".join(why) or "piece-wise derivative matches", mod.relpath, pair)
                    decided2 += okd is not None
            else:
                ctx.und("R03.1", key, "helper shape not modelled (piece-wise without a named plain twin)", mod.relpath, pair)
            continue
        val, der, params = ht
        pt = plain_term(mod, f, params)
        if pt is None:
            ctx.und("R03.1", key, "plain function shape not modelled", mod.relpath, pair)
        else:
            ctx.check("R03.1", key, src(val) == src(pt), f"helper value `{src(val)}` vs plain `{src(pt)}`", mod.relpath, pair)
        if name in SMOOTH or name == "sinc":
            if sp is None:
                ctx.und("R03.2", key, "sympy unavailable", mod.relpath, pair)
                continue
            try:
                syms = {p: sp.Symbol(p, real=True) for p in params}
                fv_ = to_sympy(sp, val, syms)
                dv_ = to_sympy(sp, der, syms)
                d = sp.diff(fv_, syms[params[0]])
                diff = sp.simplify(d - dv_)
                if diff != 0:
                    diff = sp.simplify((d - dv_).rewrite(sp.exp))
                ctx.check("R03.2", key, diff == 0, f"d/dv [{src(val)}] = {d}, table has `{src(der)}`", mod.relpath, pair)
                decided2 += 1
                # the derivative helper must not divide by something that vanishes where function and derivative are regular
                v0sym = syms[params[0]]
                inst = {syms[p_]: sp.Integer(2) for p_ in params[1:]}
                for dn_ in [x.right for x in ast.walk(der) if isinstance(x, ast.BinOp) and isinstance(x.op, ast.Div)]:
                    try:
                        D_ = to_sympy(sp, dn_, syms).subs(inst)
                        if v0sym not in D_.free_symbols:
                            continue
                        roots = [r_ for r_ in sp.solve(D_, v0sym) if r_.is_real]
                        for r_ in roots[:2]:
                            l_d = sp.limit(d.subs(inst), v0sym, r_)
                            l_f = sp.limit(fv_.subs(inst), v0sym, r_)
                            if l_d.is_finite and l_f.is_finite:
                                ctx.bad("R03.2", key + f" [regular at {params[0]} = {r_}]",
                                        f"the derivative helper `{src(der)}` divides by `{src(dn_)}`, which vanishes at {params[0]} = {r_} where the "
                                        f"function and its derivative are finite (e.g. extra arguments = 2: f' -> {l_d}): 0/0 = NaN in the Jacobian",
                                        mod.relpath, pair)
                    except Exception:
                        continue
            except Exception as ex:
                ctx.und("R03.2", key, f"term not translated: {ex}", mod.relpath, pair)
    # sinc: special structure (value np.sinc(v), derivative on the non-zero branch)
    if "sinc" in entries and sp is not None:
        fn = mod.functions.get("_sinc_helper")
        if fn is not None:
            body = {src(s_.targets[0]): s_.value for s_ in fn.node.body if isinstance(s_, ast.Assign)}
            key = f"{mod.relpath}::ptw_dict['sinc'] derivative away from 0"
            try:
                v_ = sp.Symbol("v", real=True, nonzero=True)
                fv_ = sp.sin(sp.pi * v_) / (sp.pi * v_)
                dexpr = body.get("df[sel]")
                dv_ = to_sympy(sp, dexpr, {"v": v_, "fv": fv_})
                ctx.check("R03.2", key, sp.simplify(sp.diff(fv_, v_) - dv_) == 0, f"table has `{src(dexpr)}`", mod.relpath, dexpr)
                ctx.check("R03.1", f"{mod.relpath}::ptw_dict['sinc'] value", src(body.get("fv")) == "np.sinc(v)", None, mod.relpath)
            except Exception as ex:
                ctx.und("R03.2", key, str(ex), mod.relpath)

    # ------------------------------------------------------------------ R03.3
    ctx.rule("R03.3", "metric request is threaded: every linearization created while processing an incoming one takes want_metric "
                      "from it (Linearization.new / trivial_jac / add_metric / make_var defaults, _OpProd.apply, operator sums)", floor=6)
    L = m.cls(LIN, "Linearization")
    ctx.saw_class(L)
    for name, want in (("new", "Linearization(val, jac, metric, self._want_metric)"), ("trivial_jac", "self.make_var(self._val, self._want_metric)"),
                       ("add_metric", "self.new(self._val, self._jac, metric)")):
        fi = L.methods[name]
        ctx.saw_func(fi)
        rr = [r for r in walk_no_nested(fi.node) if isinstance(r, ast.Return)]
        ctx.check("R03.3", f"{fi.key}::keeps the metric request", len(rr) == 1 and src(rr[0].value) == want, src(rr[0].value) if rr else None, fi)
    mv = L.methods["make_var"]
    rr = [r for r in walk_no_nested(mv.node) if isinstance(r, ast.Return)]
    ctx.check("R03.3", f"{mv.key}::passes want_metric to the constructor",
              len(rr) == 1 and any(kw.arg == "want_metric" and src(kw.value) == mv.params()[1] for kw in rr[0].value.keywords), None, mv)
    ini = L.methods["__init__"]
    st = [s_ for s_ in walk_no_nested(ini.node) if isinstance(s_, ast.Assign) and src(s_.targets[0]) == "self._want_metric"]
    ctx.check("R03.3", f"{ini.key}::stores want_metric", len(st) == 1 and src(st[0].value) == "want_metric", None, ini)
    prod = m.func(OPM, "_OpProd.apply")
    ctx.saw_func(prod)
    cfg = cfg_of(prod)
    xn = prod.params()[1]
    mvs = [c for c in walk_no_nested(prod.node) if isinstance(c, ast.Call) and call_name(c) == "make_var"]
    wmn = src(mvs[0].args[1]) if mvs and len(mvs[0].args) == 2 else None
    wm = [s_ for s_ in walk_no_nested(prod.node) if isinstance(s_, ast.Assign) and src(s_.targets[0]) == wmn]
    okk = len(mvs) == 2 and all(len(c.args) == 2 and src(c.args[1]) == wmn for c in mvs) and len(wm) == 1 and \
        isinstance(wm[0].value, ast.IfExp) and src(wm[0].value.body) == f"{xn}.want_metric" and src(wm[0].value.orelse) == "False"
    # wm must be read before x is rebound to its value
    if okk:
        rebinding = [s_ for s_ in prod.node.body if isinstance(s_, ast.Assign) and src(s_.targets[0]) == xn]
        okk = all(wm[0].lineno < r.lineno for r in rebinding)
    ctx.check("R03.3", f"{prod.key}::both factors are linearized with the incoming want_metric", okk,
              f"{[src(c) for c in mvs]}; wm = {src(wm[0].value) if wm else None}", prod)
    rr = [r for r in walk_no_nested(prod.node) if isinstance(r, ast.Return)]
    ctx.check("R03.3", f"{prod.key}::result is built with .new() of a factor's linearization (keeps the request)",
              any(isinstance(r.value, ast.Call) and isinstance(r.value.func, ast.Attribute) and r.value.func.attr == "new"
                  and isinstance(r.value.func.value, ast.Name) and any(
                      isinstance(s_, ast.Assign) and src(s_.targets[0]) == r.value.func.value.id and isinstance(s_.value, ast.Call)
                      and src(s_.value.func) in ("self._op1", "self._op2") for s_ in walk_no_nested(prod.node)) for r in rr), None, prod)
    aos = m.func(OPM, "_OpSum._apply_operator_sum")
    xn = aos.params()[0]
    ctx.check("R03.3", f"{aos.key}::summands are linearized with the incoming want_metric",
              f"Linearization.make_var({xn}.val.extract(oo.domain), {xn}.want_metric)" in src(aos.node), None, aos)


def r03_45(ctx, rid4="R03.4", only4=False):
    m = ctx.model
    JO = "nifty.cl.operators.jax_operator"
    ES = "nifty.cl.operators.einsum"
    ctx.rule(rid4, "JAX wrappers: the adjoint of the Jacobian is the conjugate transpose - the transposed (vjp) function is applied "
                      "to the conjugated cotangent and the result is conjugated again; the forward branch applies the function "
                      "unchanged", floor=2)
    J = m.cls(JO, "JaxLinearOperator")
    ctx.saw_class(J)
    ap = J.methods["apply"]
    ctx.saw_func(ap)
    from ..modespec import Spec
    xn, mn = ap.params()[1:3]
    for mode in (1, 2):
        sp = Spec(m, J, ap, {mn: mode}).run()
        key = f"{ap.key}::mode {mode}"
        if len(sp.returns) != 1:
            ctx.und(rid4, key, f"{len(sp.returns)} returns", ap)
            continue
        e = sp.returns[0][0]
        t = src(e)
        if mode == 1:
            ctx.check(rid4, key + ": forward applies func to x", "self._func(" in t and "conjugate" not in t and "self._func_T" not in t
                      and t.startswith("makeField(self._target"), t, ap)
        else:
            inner_conj = f"self._func_T(_anyarray2jax({xn}.conjugate().val))" in t or f"self._func_T(_anyarray2jax({xn}.val.conjugate()))" in t \
                or f"self._func_T(_anyarray2jax({xn}.conj().val))" in t
            outer_conj = t.endswith(".conjugate()") or t.endswith(".conj()")
            ctx.check(rid4, key + ": adjoint = conj(func_T(conj(x))) on the domain", inner_conj and outer_conj and t.startswith("makeField(self._domain"),
                      f"{t}: {'cotangent conjugated' if inner_conj else 'cotangent NOT conjugated'}, "
                      f"{'result conjugated' if outer_conj else 'result NOT conjugated (wrong for complex domains, invisible for real ones)'}", ap)

    if only4:
        return
    ctx.rule("R03.5", "MultiLinearEinsum: value and Jacobian look the factors up with the same precedence (current position first, "
                      "static fields only for keys that are not part of the input)", floor=1)
    M = m.cls(ES, "MultiLinearEinsum")
    ctx.saw_class(M)
    ap = M.methods["apply"]
    ctx.saw_func(ap)
    # lookups of the form  A[k] if k in A else B[k]  (possibly with .val suffixes)
    looks = []
    for n in ast.walk(ap.node):
        if isinstance(n, ast.IfExp) and isinstance(n.test, ast.Compare) and len(n.test.ops) == 1 and isinstance(n.test.ops[0], ast.In) \
                and isinstance(n.body, ast.Subscript) and src(n.body.slice) == src(n.test.left):
            first = src(n.test.comparators[0])
            other = src(n.orelse)
            looks.append((("static" if "_stat_mf" in first or first.startswith("stat") else "position"),
                          ("static" if "_stat_mf" in other or other.startswith("stat") else "position"), n))
    key = f"{ap.key}::factor lookups prefer the position over static fields, in the value and in every partial Jacobian"
    if len(looks) < 2:
        ctx.und("R03.5", key, f"{len(looks)} lookups recognised", ap)
    else:
        ctx.check("R03.5", key, all(a == "position" and b == "static" for a, b, n in looks),
                  f"{[(a, b, src(n)[:60]) for a, b, n in looks]}: a lookup that prefers the static fields builds the Jacobian from stale "
                  "factors when the static fields also contain input keys", ap)


_run_c03 = run


def run(ctx):  # noqa: F811
    _run_c03(ctx)
    r03_45(ctx)


def r03_6(ctx, rid="R03.6"):
    """scalar-affine operations on a Linearization carry the metric"""
    from ..util import cfg_of, known_atoms
    m = ctx.model
    L = m.cls(LIN, "Linearization")
    ctx.rule(rid, "a requested metric is carried through scalar-affine arithmetic: in Linearization's arithmetic methods every "
                      "return reachable under np.isscalar(<operand>) is `self`, a delegation to another method of self, or "
                      "self.new(value, jacobian, metric) with a metric term built from self._metric (two-argument new() drops it)", floor=4)
    for name, fi in sorted(L.methods.items()):
        if not (name.startswith("__") or name in ("_myadd", "outer")) or name in ("__init__", "__neg__", "__repr__", "__getitem__"):
            continue
        params = fi.params()
        if len(params) < 2:
            continue
        ctx.saw_func(fi)
        cfg = cfg_of(fi)
        for n in cfg.nodes:
            if n.kind != "stmt" or not isinstance(n.ast, ast.Return) or n.ast.value is None:
                continue
            atoms = known_atoms(cfg, n.id)

            def ev(t):
                """truth of a guard under the assumption that the operand is a scalar (None = unknown)"""
                if isinstance(t, ast.Call) and src(t.func).endswith("isscalar") and t.args and src(t.args[0]) in params[1:]:
                    return True
                if isinstance(t, ast.UnaryOp) and isinstance(t.op, ast.Not):
                    r_ = ev(t.operand)
                    return None if r_ is None else not r_
                if isinstance(t, ast.BoolOp):
                    vs = [ev(x) for x in t.values]
                    if isinstance(t.op, ast.Or):
                        return True if any(x is True for x in vs) else (False if all(x is False for x in vs) else None)
                    return False if any(x is False for x in vs) else (True if all(x is True for x in vs) else None)
                return None
            vals = [(ev(t), pol) for t, pol in atoms]
            if any(v_ is not None and v_ != pol for v_, pol in vals):
                continue  # not reachable with a scalar operand
            if not any(v_ is not None for v_, pol in vals):
                continue  # no scalar case distinguished on this path
            v = n.ast.value
            key = f"{fi.key}::scalar operand: `{short(n.ast, 70)}` keeps the metric"
            if src(v) in ("self", "NotImplemented"):
                ctx.ok(rid, key, "returns the unchanged linearization", fi, n.ast)
            elif isinstance(v, ast.Call) and isinstance(v.func, ast.Attribute) and src(v.func.value) in ("self", "(-self)") and v.func.attr != "new":
                ctx.ok(rid, key, f"delegates to self.{v.func.attr}", fi, n.ast)
            elif isinstance(v, ast.Call) and src(v.func) == "self.new":
                met = v.args[2] if len(v.args) > 2 else next((k.value for k in v.keywords if k.arg == "metric"), None)
                if met is None:
                    ctx.bad(rid, key, "self.new(value, jacobian) without a metric: the metric of the operand is lost although "
                                          "want_metric stays set", fi, n.ast)
                else:
                    from ..terms import inline_at
                    rd = cfg.reaching_defs(params)
                    e = inline_at(cfg, rd, n.id, met, depth=2)
                    ctx.check(rid, key, True if "self._metric" in src(e) or "self.metric" in src(e) else None, f"metric term `{src(e)}`", fi, n.ast)
            else:
                ctx.und(rid, key, "return form not recognised", fi, n.ast)


def r03_7(ctx):
    """reductions: the operator applied to the Jacobian is the operator form of the method applied to the value"""
    m = ctx.model
    L = m.cls(LIN, "Linearization")
    table = {"sum": ("ContractionOperator", None), "integrate": ("IntegrationOperator", ("ContractionOperator", "1")),
             "vdot": ("VdotOperator", None)}
    ctx.rule("R03.7", "linear reductions of a Linearization: sum pairs _val.sum(spaces) with ContractionOperator(target, spaces) on the "
                      "Jacobian, integrate uses IntegrationOperator (= ContractionOperator(..., 1), the volume-weighted sum) for value "
                      "AND Jacobian, vdot pairs _val.vdot(x) with VdotOperator(x) on the Jacobian - the derivative of a plain sum is "
                      "not the derivative of an integral", floor=3)
    for name, (opn, alt) in table.items():
        fi = L.methods.get(name)
        if fi is None:
            ctx.und("R03.7", f"{L.key}::{name}", "method missing", L)
            continue
        ctx.saw_func(fi)
        for r in walk_no_nested(fi.node):
            if not isinstance(r, ast.Return) or r.value is None:
                continue
            v = r.value
            key = f"{fi.key}::`{short(r, 60)}`: Jacobian through {opn}"

            def is_op(c):
                """call constructing the admissible linear operator"""
                if not isinstance(c, ast.Call):
                    return None
                nm = call_name(c)
                if nm == opn:
                    return True
                if alt and nm == alt[0]:
                    pw = c.args[2] if len(c.args) > 2 else next((k.value for k in c.keywords if k.arg == "power"), None)
                    return pw is not None and src(pw) == alt[1]
                if nm in ("ContractionOperator", "IntegrationOperator", "VdotOperator"):
                    return False
                return None
            if isinstance(v, ast.Call) and isinstance(v.func, ast.Call) and len(v.args) == 1 and src(v.args[0]) == "self":
                # pure delegation Op(...)(self)
                o = is_op(v.func)
                ctx.check("R03.7", key, o, f"delegates to `{src(v.func)}`", fi, r)
                continue
            if isinstance(v, ast.Call) and src(v.func) == "self.new" and len(v.args) >= 2:
                val, jac = v.args[0], v.args[1]
                vm = call_name(val) if isinstance(val, ast.Call) else None
                ops = [c for c in ast.walk(jac) if isinstance(c, ast.Call) and is_op(c) is not None]
                if vm != name or not ops:
                    ctx.und("R03.7", key, f"value `{src(val)}` / Jacobian `{src(jac)}` not recognised", fi, r)
                    continue
                bad = [c for c in ops if is_op(c) is False]
                ctx.check("R03.7", key, not bad, f"value {src(val)}; Jacobian {src(jac)}" + (f": `{src(bad[0])}` is not the operator form of .{name}()" if bad else ""), fi, r)
                continue
            ctx.und("R03.7", key, "return form not recognised", fi, r)


def r03_8(ctx):
    """MultiField point-wise evaluation: value path and (value, derivative) path prepare the extra arguments per entry"""
    m = ctx.model
    MF = m.cls("nifty.cl.multi_field", "MultiField")
    ctx.rule("R03.8", "MultiField.ptw and MultiField.ptw_with_deriv are siblings: each entry i is evaluated with the extra arguments "
                      "prepared for that same entry (_prep_args(args, kwargs, i) with the loop's own index, Field-valued arguments "
                      "indexed by it), so plain and linearised evaluation see the same function on every key", floor=3)
    forms = {}
    for name in ("ptw", "ptw_with_deriv"):
        fi = MF.methods.get(name)
        if fi is None:
            ctx.und("R03.8", f"{MF.key}::{name}", "method missing", MF)
            continue
        ctx.saw_func(fi)
        calls = [c for c in ast.walk(fi.node) if isinstance(c, ast.Call) and call_name(c) == "_prep_args"]
        key = f"{fi.key}::extra arguments are prepared per entry"
        if len(calls) != 1 or len(calls[0].args) != 3:
            ctx.und("R03.8", key, f"{len(calls)} _prep_args calls", fi)
            continue
        idx = calls[0].args[2]
        # the index must be the variable of the loop / comprehension that also selects the entry
        loops = [lp for lp in ast.walk(fi.node) if isinstance(lp, (ast.For, ast.comprehension)) and any(x is calls[0] for x in ast.walk(lp if isinstance(lp, ast.For) else lp.iter))]
        loops += [lp for lp in ast.walk(fi.node) if isinstance(lp, ast.For) and any(x is calls[0] for b in lp.body for x in ast.walk(b))]
        lvars = {x.id for lp in loops for x in ast.walk(lp.target) if isinstance(x, ast.Name)}
        if isinstance(idx, ast.Name) and idx.id in lvars:
            ent = [c for c in ast.walk(fi.node) if isinstance(c, ast.Call) and call_name(c) == name and isinstance(c.func, ast.Attribute)]
            same = len(ent) == 1 and src(ent[0].func.value) in (f"self._val[{idx.id}]",)
            ctx.check("R03.8", key, True if same else None, f"{src(calls[0])}; entry call {src(ent[0]) if ent else None}", fi, calls[0])
            forms[name] = src(calls[0])
        elif isinstance(idx, ast.Constant):
            ctx.bad("R03.8", key, f"`{src(calls[0])}`: every entry is evaluated with the arguments of entry {idx.value}", fi, calls[0])
        else:
            ctx.und("R03.8", key, f"index `{src(idx)}` is not a loop variable", fi, calls[0])
    if len(forms) == 2:
        ctx.check("R03.8", f"{MF.key}::ptw and ptw_with_deriv prepare the arguments identically", len(set(forms.values())) == 1, str(forms), MF)
    pa = MF.methods.get("_prep_args")
    if pa is not None:
        ctx.saw_func(pa)
        i = pa.params()[3] if len(pa.params()) > 3 else None
        subs = [x for x in ast.walk(pa.node) if isinstance(x, ast.Subscript) and isinstance(x.value, ast.Attribute) and x.value.attr == "_val"]
        ctx.check("R03.8", f"{pa.key}::Field-valued arguments are indexed by the entry index", bool(subs) and all(src(x.slice) == i for x in subs),
                  str([src(x) for x in subs]), pa)


_run_c03b = run


def run(ctx):  # noqa: F811
    _run_c03b(ctx)
    r03_6(ctx)
    r03_7(ctx)
    r03_8(ctx)


# ---------------------------------------------------------------------------------------------------------------- R03.9
def r03_9(ctx, rid="R03.9"):
    """requesting the metric must not change the value: the value part of a return that attaches a metric is built from the same
    definitions as the return that does not"""
    from ..util import find_nodes
    m = ctx.model
    ctx.rule(rid, "Operator.apply with a want_metric branch: the returned value does not depend on the request - the expression "
                  "under `.add_metric(...)` and the plain return are the same term and every name in it has the same set of "
                  "reaching definitions (compared by normalised text, transitively) at both returns", floor=8)
    fns = []
    for mod in m.modules.values():
        if not mod.name.startswith("nifty.cl."):
            continue
        for fi in mod.all_functions:
            if fi.name != "apply" or fi.cls is None:
                continue
            has_wm = any(isinstance(n, ast.Attribute) and n.attr == "want_metric" for n in walk_no_nested(fi.node))
            has_am = any(isinstance(n, ast.Call) and call_name(n) == "add_metric" for n in walk_no_nested(fi.node))
            if has_wm and has_am:
                fns.append(fi)
    for fi in fns:
        m.consulted.add(fi.module.relpath)
        ctx.saw_func(fi)
        cfg = cfg_of(fi)
        rd = cfg.reaching_defs(params=fi.params())
        key = f"{fi.key}::value independent of the metric request"
        rets = [(n, x) for n, x in find_nodes(cfg, lambda x: isinstance(x, ast.Return)) if x.value is not None]
        M, P = [], []
        for n, r in rets:
            v = r.value
            if isinstance(v, ast.Call) and call_name(v) == "add_metric" and isinstance(v.func, ast.Attribute):
                M.append((n, v.func.value))
            else:
                P.append((n, v))
        if not M or not P:
            ctx.und(rid, key, "metric attached outside a return expression - value/metric paths not separable", fi)
            continue

        def closure(nid, e, depth=4, seen=None):
            """set of (name, normalised defining statement) reaching the names of e at node nid, transitively; None = unmodelled"""
            out = set()
            seen = set() if seen is None else seen
            env = rd.get(nid) or {}
            for x in ast.walk(e):
                if not (isinstance(x, ast.Name) and isinstance(x.ctx, ast.Load)):
                    continue
                for d in sorted(env.get(x.id) or ()):
                    if (x.id, d) in seen:
                        continue
                    seen.add((x.id, d))
                    dn = cfg.nodes[d]
                    if dn.kind == "entry" or dn.ast is None:
                        out.add((x.id, "<param>"))
                        continue
                    if not isinstance(dn.ast, (ast.Assign, ast.AugAssign, ast.AnnAssign)):
                        out.add((x.id, f"<{dn.kind}> {short(dn.ast)}"))
                        continue
                    out.add((x.id, src(dn.ast)))
                    if depth > 0 and getattr(dn.ast, "value", None) is not None:
                        out |= closure(d, dn.ast.value, depth - 1, seen)
            return out

        for n, v in M:
            cm = closure(n.id, v)
            cands = [(pn, pv) for pn, pv in P if src(pv) == src(v)]
            if not cands:
                # different spelling: compare after inlining unique definitions
                from ..terms import inline_at
                vi = src(inline_at(cfg, rd, n.id, v))
                cands = [(pn, pv) for pn, pv in P if src(inline_at(cfg, rd, pn.id, pv)) == vi]
                if not cands:
                    # different spelling: compare what the two values are computed FROM (attributes of self and parameters read by
                    # the value expression and, transitively, by the definitions reaching it)
                    def deps(nid, e):
                        out = {src(z) for z in ast.walk(e) if isinstance(z, ast.Attribute) and isinstance(z.value, ast.Name) and z.value.id == "self"}
                        for nm, txt in closure(nid, e):
                            if txt == "<param>":
                                out.add(nm)
                                continue
                            try:
                                t = ast.parse(txt).body[0]
                            except SyntaxError:
                                continue
                            val = getattr(t, "value", None)
                            if val is not None:
                                out |= {src(z) for z in ast.walk(val) if isinstance(z, ast.Attribute) and isinstance(z.value, ast.Name) and z.value.id == "self"}
                        return out
                    dm = deps(n.id, v)
                    dps = [(pn, pv, deps(pn.id, pv)) for pn, pv in P]
                    if dps and all(dp != dm for _, _, dp in dps):
                        pn, pv, dp = dps[0]
                        ctx.bad(rid, key + f" [{src(v)}]", f"the value returned with the metric (line {n.lineno}) is computed from {sorted(dm)}, the plain value "
                                f"`{short(pv, 50)}` (line {pn.lineno}) from {sorted(dp)}: differs in {sorted(dm ^ dp)}", fi, n.ast)
                    else:
                        ctx.und(rid, key + f" (line {n.lineno})", f"no plain return spells the value `{src(v)}`; plain returns: {[src(pv) for _, pv in P]}", fi, n.ast)
                    continue
            good = [pn for pn, pv in cands if closure(pn.id, pv) == cm]
            if good:
                ctx.ok(rid, key + f" [{src(v)}]", f"same definitions reach `{src(v)}` with and without the metric", fi, n.ast)
            else:
                pn, pv = cands[0]
                diff = sorted(cm ^ closure(pn.id, pv))
                ctx.bad(rid, key + f" [{src(v)}]", f"definitions reaching `{src(v)}` differ between the return with the metric (line {n.lineno}) and the plain "
                        f"return (line {pn.lineno}): {[f'{a}: {b}' for a, b in diff][:4]}", fi, n.ast)


_run_c03c = run


def run(ctx):  # noqa: F811
    _run_c03c(ctx)
    r03_9(ctx)
    # merged block-diagonal Jacobians keep the chain-rule order (shared with C01)
    from .c01 import r01_7
    r01_7(ctx, ctx.model, rid="R03.10")


# ---------------------------------------------------------------------------------------------------------------- R03.11
def r03_11(ctx, rid="R03.11"):
    """conjugation parity of the inner product rule: a.vdot(b) = sum(conj(a)*b) is anti-linear in a"""
    m = ctx.model
    L = m.cls(LIN, "Linearization")
    fi = L.methods.get("vdot")
    ctx.rule(rid, "Linearization.vdot: value A.vdot(B) = sum(conj(A)*B); the Jacobian term through B's Jacobian is VdotOperator(A) "
                  "(sum(conj(A)*J_B d)), the term through A's Jacobian is the conjugate of VdotOperator(B) (sum(B*conj(J_A d))) - "
                  "conjugation parity of every term decided from the term structure", floor=2)
    if fi is None:
        ctx.und(rid, f"{L.key}::vdot", "method missing", L)
        return
    ctx.saw_func(fi)

    def strip_conj(e):
        n = 0
        while isinstance(e, ast.Call) and isinstance(e.func, ast.Attribute) and e.func.attr in ("conjugate", "conj") and not e.args:
            e = e.func.value
            n += 1
        return e, n % 2 == 1

    def terms(e):
        if isinstance(e, ast.BinOp) and isinstance(e.op, ast.Add):
            return terms(e.left) + terms(e.right)
        return [e]

    def owner(e):
        """'A' for the receiver, 'B' for the argument"""
        t = src(e)
        if t in ("self", "self._val", "self.val"):
            return "A"
        if t in (other, f"{other}._val", f"{other}.val"):
            return "B"
        return None
    other = fi.params()[1]
    for r in walk_no_nested(fi.node):
        if not (isinstance(r, ast.Return) and isinstance(r.value, ast.Call) and src(r.value.func) == "self.new" and len(r.value.args) >= 2):
            continue
        val, jac = r.value.args[0], r.value.args[1]
        if not (isinstance(val, ast.Call) and call_name(val) == "vdot" and isinstance(val.func, ast.Attribute) and len(val.args) == 1):
            ctx.und(rid, f"{fi.key}::`{short(r, 50)}`", f"value `{src(val)}` is not X.vdot(Y)", fi, r)
            continue
        A, B = owner(val.func.value), owner(val.args[0])
        if (A, B) != ("A", "B"):
            ctx.und(rid, f"{fi.key}::`{short(r, 50)}`", f"value `{src(val)}`: operands not (receiver, argument)", fi, r)
            continue
        for t in terms(jac):
            key = f"{fi.key}::`{short(val, 40)}`: parity of Jacobian term through "
            core, oc = strip_conj(t)
            if not (isinstance(core, ast.Call) and isinstance(core.func, ast.Call) and call_name(core.func) == "VdotOperator"
                    and len(core.func.args) == 1 and len(core.args) == 1):
                ctx.und(rid, key + f"`{short(t, 40)}`", "term is not [conj] VdotOperator(F)(J)", fi, r)
                continue
            F, fc = strip_conj(core.func.args[0])
            J = src(core.args[0])
            slot = "A" if J in ("self._jac", "self.jac") else "B" if J in (f"{other}._jac", f"{other}.jac") else None
            if slot is None or owner(F) is None:
                ctx.und(rid, key + f"`{J}`", f"`{src(t)}` not modelled", fi, r)
                continue
            key += f"{'the receiver' if slot == 'A' else 'the argument'}'s Jacobian"
            # term = [oc] sum(conj([fc] F) * J d);  truth: slot B -> sum(conj(A) * J_B d);  slot A -> conj(sum(conj(B) * J_A d))
            partner_ok = owner(F) == ("A" if slot == "B" else "B")
            parity_ok = (not fc) and (oc == (slot == "A"))
            ctx.check(rid, key, partner_ok and parity_ok,
                      f"`{src(t)}` = {'conj ' if oc else ''}sum(conj({'conj ' if fc else ''}{src(F)}) * {J} d); the value is "
                      f"{'anti-linear' if slot == 'A' else 'linear'} in this operand"
                      + ("" if partner_ok else "; wrong partner field"), fi, r)


_run_c03d = run


def run(ctx):  # noqa: F811
    _run_c03d(ctx)
    r03_11(ctx)


# ---------------------------------------------------------------------------------------------------------------- R03.12
def r03_12(ctx, rid="R03.12"):
    """chain-rule shape: the new Jacobian is an operator expression IN the old Jacobian, never the old Jacobian applied to a value"""
    m = ctx.model
    L = m.cls(LIN, "Linearization")
    ctx.rule(rid, "Linearization methods: in every self.new(value, jacobian) the stored Jacobians (self._jac, other._jac) enter the new "
                  "Jacobian as operators (composed, summed, scaled) - never applied to the value of a linearization (a Jacobian acts "
                  "on directions of the input domain, the value lives on the target)", floor=10)
    for name, fi in sorted(L.methods.items()):
        params = fi.params()
        for r in walk_no_nested(fi.node):
            if not isinstance(r, ast.Return) or r.value is None:
                continue
            news = [c for c in ast.walk(r.value) if isinstance(c, ast.Call) and src(c.func) in ("self.new", "Linearization") and len(c.args) >= 2]
            if not news:
                continue
            ctx.saw_func(fi)
            cfg = cfg_of(fi)
            rd = cfg.reaching_defs(params=params)
            from ..terms import inline_at
            from ..util import find_nodes
            nid = [n for n, x in find_nodes(cfg, lambda x: x is r)]
            for c in news:
                jac = c.args[1]
                if nid:
                    jac = inline_at(cfg, rd, nid[0].id, jac, depth=3)
                # local helper functions called in the Jacobian expression are searched too
                roots = [jac]
                for z in ast.walk(jac):
                    if isinstance(z, ast.Call) and isinstance(z.func, ast.Name) and z.func.id in fi.nested:
                        roots.append(fi.nested[z.func.id].node)
                bad = []
                uses = 0
                for root in roots:
                    for z in ast.walk(root):
                        if isinstance(z, ast.Attribute) and z.attr in ("_jac", "jac"):
                            uses += 1
                        if isinstance(z, ast.Call) and isinstance(z.func, ast.Attribute) and z.func.attr in ("_jac", "jac") and len(z.args) == 1:
                            a = src(z.args[0])
                            if a.endswith("._val") or a.endswith(".val"):
                                bad.append(src(z))
                if not uses:
                    continue
                key = f"{fi.key}::`{short(c, 50)}`: Jacobians enter as operators"
                ctx.check(rid, key, not bad, f"Jacobian applied to a value: {bad}" if bad else "", fi, r)


_run_c03e = run


def run(ctx):  # noqa: F811
    _run_c03e(ctx)
    r03_12(ctx)


# ---------------------------------------------------------------------------------------------------------------- R03.13
def r03_13(ctx, rid="R03.13"):
    """contradicting beliefs about an optional argument: a helper that tests `p is None` must not have refused None before"""
    from ..util import find_nodes, known_atoms
    m = ctx.model
    mod = m.module(PW)
    ctx.rule(rid, "point-wise helpers (value+derivative path): a parameter the helper later tests against None (so None is an "
                  "expected value, as for the plain numpy function) is not rejected by an earlier isinstance guard that no None "
                  "can pass - otherwise linearized evaluation raises where plain evaluation returns", floor=2)
    for fi in mod.all_functions:
        cfg = None
        for p in fi.params():
            def is_none_test(x, p=p):
                return isinstance(x, ast.Compare) and len(x.ops) == 1 and isinstance(x.ops[0], (ast.Is, ast.IsNot)) \
                    and isinstance(x.left, ast.Name) and x.left.id == p and isinstance(x.comparators[0], ast.Constant) \
                    and x.comparators[0].value is None
            if not any(is_none_test(x) for x in walk_no_nested(fi.node)):
                continue
            cfg = cfg or cfg_of(fi)
            ctx.saw_func(fi)
            for n, x in find_nodes(cfg, is_none_test):
                key = f"{fi.key}::`{src(x)}` (line {n.lineno}) reachable with {p}=None"
                dead = None
                for t, pol in known_atoms(cfg, n.id):
                    # generator/all(...) forms that mention `is None` are accepted as None-aware
                    if any(isinstance(z, ast.Compare) and isinstance(z.ops[0], (ast.Is, ast.IsNot)) and isinstance(z.comparators[0], ast.Constant)
                           and z.comparators[0].value is None for z in ast.walk(t)):
                        continue
                    if pol and isinstance(t, ast.Call) and call_name(t) == "isinstance" and len(t.args) == 2 and src(t.args[0]) == p \
                            and "None" not in src(t.args[1]):
                        dead = src(t)
                ctx.check(rid, key, dead is None, f"every path to this test has passed `{dead}`, which None cannot satisfy" if dead else "", fi, x)


_run_c03f = run


def run(ctx):  # noqa: F811
    _run_c03f(ctx)
    r03_13(ctx)
