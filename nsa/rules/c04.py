"""C04 - fixing part of the input: only the clause 'energies minimised with constant keys never see gradient components for those
keys' is decided (structure of EnergyAdapter); equality of value/Jacobian/metric after specialisation is numerical."""
import ast

from ..model import src, short, walk_no_nested, call_name
from ..terms import inline_at
from ..util import cfg_of, known_atoms

EA = "nifty.cl.minimization.energy_adapter"
KL = "nifty.cl.minimization.kl_energies"


def run(ctx):
    m = ctx.model
    E = m.cls(EA, "EnergyAdapter")
    ctx.saw_class(E)
    ini = E.methods["__init__"]
    ctx.saw_func(ini)
    ctx.rule("R04.1", "with constants, EnergyAdapter specialises the operator to the constant part of the position and optimises only "
                      "the remaining keys: the position handed to the base class and linearised is position.extract_by_keys(op.domain "
                      "keys minus constants), the operator is the second component of simplify_for_constant_input(constant part), and "
                      "at() re-uses the specialised operator", floor=4)
    pos, op, cst = ini.params()[1:4]
    cfg = cfg_of(ini)
    rd = cfg.reaching_defs(ini.params())
    sup = [n for n in cfg.nodes if n.kind == "stmt" and any(isinstance(c, ast.Call) and isinstance(c.func, ast.Attribute) and c.func.attr == "__init__"
                                                             and "super" in src(c.func.value) for c in ast.walk(n.ast))]
    if len(sup) != 1:
        ctx.und("R04.1", f"{ini.key}::base constructor call", f"{len(sup)} found", ini)
        return
    # definitions of `position` reaching the base-class call: the parameter (no constants) or the reduced position
    defs = rd[sup[0].id].get(pos, frozenset())
    forms = []
    for d in defs:
        dn = cfg.nodes[d]
        if dn.kind == "entry":
            forms.append("param")
        elif dn.kind == "stmt" and isinstance(dn.ast, ast.Assign):
            forms.append(src(inline_at(cfg, rd, d, dn.ast.value, depth=2, stop=(op, pos))))
    want = f"{pos}.extract_by_keys(set({op}.domain.keys()) - set({cst}))"
    ctx.check("R04.1", f"{ini.key}::optimised position excludes the constant keys", sorted(forms) == sorted(["param", want]), str(forms), ini)
    red = [n for n in cfg.nodes if n.kind == "stmt" and isinstance(n.ast, ast.Assign) and src(n.ast.value).startswith(f"{pos}.extract_by_keys(") and
           any(src(t) == pos for t in n.ast.targets)]
    from ..model import cc
    ok_g = all(any(src(t) == cc(f"len({cst}) > 0") and pol for t, pol in known_atoms(cfg, n.id)) for n in red) and bool(red)
    ctx.check("R04.1", f"{ini.key}::the reduction happens exactly when constants are given", ok_g, None, ini)
    # operator specialisation
    ops = [n for n in cfg.nodes if n.kind == "stmt" and isinstance(n.ast, ast.Assign) and isinstance(n.ast.value, ast.Call)
           and call_name(n.ast.value) == "simplify_for_constant_input"]
    okk = False
    det = None
    if len(ops) == 1:
        a = ops[0].ast
        arg = inline_at(cfg, rd, ops[0].id, a.value.args[0], depth=1) if a.value.args else None
        det = f"{src(a.targets[0])} = {src(a.value.func)}({src(arg) if arg is not None else ''})"
        okk = isinstance(a.targets[0], ast.Tuple) and len(a.targets[0].elts) == 2 and src(a.targets[0].elts[1]) == op \
            and src(a.value.func) == f"{op}.simplify_for_constant_input" and arg is not None and src(arg) == f"{pos}.extract_by_keys({cst})"
        # the specialisation must precede the position reduction (it needs the full position)
        okk = okk and all(ops[0].id in cfg.dominators()[r.id] for r in red)
    ctx.check("R04.1", f"{ini.key}::operator = simplify_for_constant_input(constant part of the position)[1], computed from the full position", okk, det, ini)
    store = [n for n in cfg.nodes if n.kind == "stmt" and isinstance(n.ast, ast.Assign) and src(n.ast.targets[0]) == "self._op"]
    ctx.check("R04.1", f"{ini.key}::the specialised operator is the one stored and evaluated",
              len(store) == 1 and src(store[0].ast.value) == op and any(src(c.func) == "self._op" for c in ast.walk(ini.node) if isinstance(c, ast.Call)), None, ini)
    at = E.methods["at"]
    rr = [r for r in walk_no_nested(at.node) if isinstance(r, ast.Return)]
    okk = len(rr) == 1 and isinstance(rr[0].value, ast.Call) and call_name(rr[0].value) == "EnergyAdapter" and \
        [src(a) for a in rr[0].value.args[:2]] == [at.params()[1], "self._op"] and not any(k.arg == "constants" for k in rr[0].value.keywords)
    ctx.check("R04.1", f"{at.key}::at() keeps the specialised operator (constants are not applied twice)", okk, src(rr[0].value) if rr else None, at)
    # the KL energy: reduced position and per-sample reduction (shared with C19)
    K = m.cls(KL, "SampledKLEnergyClass")
    ki = K.methods["__init__"]
    sup = [c for c in walk_no_nested(ki.node) if isinstance(c, ast.Call) and isinstance(c.func, ast.Attribute) and c.func.attr == "__init__" and "super" in src(c.func.value)]
    ctx.check("R04.1", f"{ki.key}::the sampled KL optimises the expansion point without the constant keys",
              len(sup) == 1 and [src(a) for a in sup[0].args] == ["_reduce_field(sample_list._m, constants)"], None, ki)
