"""C04 - fixing part of the input: only the clause 'energies minimised with constant keys never see gradient components for those
keys' is decided (structure of EnergyAdapter); equality of value/Jacobian/metric after specialisation is numerical."""
import ast

from ..model import src, short, walk_no_nested, call_name
from ..terms import inline_at
from ..util import cfg_of, known_atoms

EA = "nifty.cl.minimization.energy_adapter"
KL = "nifty.cl.minimization.kl_energies"


def run(ctx):
    m = ctx.model
    E = m.cls(EA, "EnergyAdapter")
    ctx.saw_class(E)
    ini = E.methods["__init__"]
    ctx.saw_func(ini)
    ctx.rule("R04.1", "with constants, EnergyAdapter specialises the operator to the constant part of the position and optimises only "
                      "the remaining keys: the position handed to the base class and linearised is position.extract_by_keys(op.domain "
                      "keys minus constants), the operator is the second component of simplify_for_constant_input(constant part), and "
                      "at() re-uses the specialised operator", floor=4)
    pos, op, cst = ini.params()[1:4]
    cfg = cfg_of(ini)
    rd = cfg.reaching_defs(ini.params())
    sup = [n for n in cfg.nodes if n.kind == "stmt" and any(isinstance(c, ast.Call) and isinstance(c.func, ast.Attribute) and c.func.attr == "__init__"
                                                             and "super" in src(c.func.value) for c in ast.walk(n.ast))]
    if len(sup) != 1:
        ctx.und("R04.1", f"{ini.key}::base constructor call", f"{len(sup)} found", ini)
        return
    # definitions of `position` reaching the base-class call: the parameter (no constants) or the reduced position
    defs = rd[sup[0].id].get(pos, frozenset())
    forms = []
    for d in defs:
        dn = cfg.nodes[d]
        if dn.kind == "entry":
            forms.append("param")
        elif dn.kind == "stmt" and isinstance(dn.ast, ast.Assign):
            forms.append(src(inline_at(cfg, rd, d, dn.ast.value, depth=2, stop=(op, pos))))
    want = f"{pos}.extract_by_keys(set({op}.domain.keys()) - set({cst}))"
    ctx.check("R04.1", f"{ini.key}::optimised position excludes the constant keys", sorted(forms) == sorted(["param", want]), str(forms), ini)
    red = [n for n in cfg.nodes if n.kind == "stmt" and isinstance(n.ast, ast.Assign) and src(n.ast.value).startswith(f"{pos}.extract_by_keys(") and
           any(src(t) == pos for t in n.ast.targets)]
    from ..model import cc
    ok_g = all(any(src(t) == cc(f"len({cst}) > 0") and pol for t, pol in known_atoms(cfg, n.id)) for n in red) and bool(red)
    ctx.check("R04.1", f"{ini.key}::the reduction happens exactly when constants are given", ok_g, None, ini)
    # operator specialisation
    ops = [n for n in cfg.nodes if n.kind == "stmt" and isinstance(n.ast, ast.Assign) and isinstance(n.ast.value, ast.Call)
           and call_name(n.ast.value) == "simplify_for_constant_input"]
    okk = False
    det = None
    if len(ops) == 1:
        a = ops[0].ast
        arg = inline_at(cfg, rd, ops[0].id, a.value.args[0], depth=1) if a.value.args else None
        det = f"{src(a.targets[0])} = {src(a.value.func)}({src(arg) if arg is not None else ''})"
        okk = isinstance(a.targets[0], ast.Tuple) and len(a.targets[0].elts) == 2 and src(a.targets[0].elts[1]) == op \
            and src(a.value.func) == f"{op}.simplify_for_constant_input" and arg is not None and src(arg) == f"{pos}.extract_by_keys({cst})"
        # the specialisation must precede the position reduction (it needs the full position)
        okk = okk and all(ops[0].id in cfg.dominators()[r.id] for r in red)
    ctx.check("R04.1", f"{ini.key}::operator = simplify_for_constant_input(constant part of the position)[1], computed from the full position", okk, det, ini)
    store = [n for n in cfg.nodes if n.kind == "stmt" and isinstance(n.ast, ast.Assign) and src(n.ast.targets[0]) == "self._op"]
    ctx.check("R04.1", f"{ini.key}::the specialised operator is the one stored and evaluated",
              len(store) == 1 and src(store[0].ast.value) == op and any(src(c.func) == "self._op" for c in ast.walk(ini.node) if isinstance(c, ast.Call)), None, ini)
    at = E.methods["at"]
    rr = [r for r in walk_no_nested(at.node) if isinstance(r, ast.Return)]
    okk = len(rr) == 1 and isinstance(rr[0].value, ast.Call) and call_name(rr[0].value) == "EnergyAdapter" and \
        [src(a) for a in rr[0].value.args[:2]] == [at.params()[1], "self._op"] and not any(k.arg == "constants" for k in rr[0].value.keywords)
    ctx.check("R04.1", f"{at.key}::at() keeps the specialised operator (constants are not applied twice)", okk, src(rr[0].value) if rr else None, at)
    # the KL energy: reduced position and per-sample reduction (shared with C19)
    K = m.cls(KL, "SampledKLEnergyClass")
    ki = K.methods["__init__"]
    sup = [c for c in walk_no_nested(ki.node) if isinstance(c, ast.Call) and isinstance(c.func, ast.Attribute) and c.func.attr == "__init__" and "super" in src(c.func.value)]
    ctx.check("R04.1", f"{ki.key}::the sampled KL optimises the expansion point without the constant keys",
              len(sup) == 1 and [src(a) for a in sup[0].args] == ["_reduce_field(sample_list._m, constants)"], None, ki)


EO = "nifty.cl.operators.energy_operators"
OPM = "nifty.cl.operators.operator"


def r04_2(ctx, m):
    """the one energy with a hand-written specialisation: term identity per pixel"""
    from .c03 import _load_sympy
    from ..fieldsym import FieldSym, NotUnderstood
    ctx.rule("R04.2", "VariableCovarianceGaussianEnergy specialised to a constant key equals the full energy with the constant "
                      "inserted, per pixel and for real and complex sampling: residual constant -> _SpecialGammaEnergy(residual) on the "
                      "inverse covariance; inverse covariance constant -> GaussianEnergy(inverse_covariance = diag(constant)) on the "
                      "residual minus (1/2) tr log(constant) (no 1/2 for complex) - terms read from apply() of both classes and from "
                      "the specialisation method, sympy as normaliser", floor=4)
    sp = _load_sympy()
    V = m.cls(EO, "VariableCovarianceGaussianEnergy")
    G = m.cls(EO, "_SpecialGammaEnergy")
    fn = V.methods.get("_simplify_for_constant_input_nontrivial")
    ap = V.methods.get("apply")
    if sp is None or fn is None or ap is None:
        ctx.und("R04.2", f"{V.key}::specialisation", "sympy / methods missing", V)
        return
    for f in (fn, ap, G.methods["apply"]):
        ctx.saw_func(f)
    X = sp.Symbol("X", positive=True)
    CST = sp.Symbol("C", positive=True)

    class NU(Exception):
        pass

    def full_energy(cplx, r, i):
        """per-pixel energy of the full operator with residual r and inverse covariance i"""
        fs = FieldSym(sp, facts={"self._cplx": cplx, f"{ap.params()[1]}.want_metric": False})
        env = {}
        # x[self._kr], x[self._ki] are read by subscripting: pre-bind the unpacked names
        for st in ap.node.body:
            if isinstance(st, ast.Assign) and isinstance(st.targets[0], ast.Tuple) and isinstance(st.value, ast.Tuple):
                for t, v in zip(st.targets[0].elts, st.value.elts):
                    if isinstance(v, ast.Subscript) and src(v.slice) == "self._kr":
                        env[t.id] = r
                    elif isinstance(v, ast.Subscript) and src(v.slice) == "self._ki":
                        env[t.id] = i
        body = [st for st in ap.node.body if not (isinstance(st, ast.Assign) and isinstance(st.targets[0], ast.Tuple))]
        E, _ = fs.run(body, env)
        return E

    def gamma_energy(cplx, resi, x):
        ga = G.methods["apply"]
        fs = FieldSym(sp, facts={"self._cplx": cplx, f"{ga.params()[1]}.want_metric": False})
        fs.syms["_resi"] = resi
        E, _ = fs.run(ga.node.body, {ga.params()[1]: x})
        return E

    def ev(e, env, cplx):
        if isinstance(e, ast.Constant) and isinstance(e.value, (int, float)) and not isinstance(e.value, bool):
            return sp.nsimplify(e.value)
        if isinstance(e, ast.Name):
            if e.id in env:
                return env[e.id]
            raise NU(e.id)
        if isinstance(e, ast.UnaryOp) and isinstance(e.op, ast.USub):
            return -ev(e.operand, env, cplx)
        if isinstance(e, ast.BinOp) and isinstance(e.op, (ast.Add, ast.Sub, ast.Mult, ast.Div)):
            a, b = ev(e.left, env, cplx), ev(e.right, env, cplx)
            return {ast.Add: a + b, ast.Sub: a - b, ast.Mult: a * b, ast.Div: a / b}[type(e.op)]
        if isinstance(e, ast.Subscript) and src(e.value) == fn.params()[1] and src(e.slice) == env.get("__keyname__", "key"):
            return CST
        if isinstance(e, ast.Call):
            nm = call_name(e)
            if nm in ("ducktape", "ducktape_left") and isinstance(e.func, ast.Attribute):
                return ev(e.func.value, env, cplx)
            if nm in ("asnumpy_rw", "asnumpy", "sum", "val_rw") and isinstance(e.func, ast.Attribute) and not e.args:
                return ev(e.func.value, env, cplx)
            if nm == "log" and isinstance(e.func, ast.Attribute) and not e.args:
                return sp.log(ev(e.func.value, env, cplx))
            if nm == "_SpecialGammaEnergy" and len(e.args) == 1:
                return gamma_energy(cplx, ev(e.args[0], env, cplx), X)
            if nm == "makeOp" and e.args:
                return ("diag", ev(e.args[0], env, cplx))
            if nm == "GaussianEnergy":
                kw = {k.arg: k.value for k in e.keywords}
                if "inverse_covariance" in kw and (kw.get("data") is None or src(kw["data"]) == "None") and not e.args:
                    ic = ev(kw["inverse_covariance"], env, cplx)
                    if isinstance(ic, tuple) and ic[0] == "diag":
                        return sp.Rational(1, 2) * ic[1] * X ** 2  # GaussianEnergy: 1/2 r^dagger N^-1 r (docstring; decided by R11.x)
                raise NU(src(e)[:60])
            if nm in ("ConstantLikelihoodEnergyOperator", "ConstantEnergyOperator") and len(e.args) == 1:
                return ev(e.args[0], env, cplx)
        raise NU(src(e)[:60])

    def run_body(stmts, env, cplx, const_is_residual):
        for st in stmts:
            if isinstance(st, (ast.Expr, ast.ImportFrom, ast.Import)):
                continue
            if isinstance(st, ast.Assign) and isinstance(st.targets[0], ast.Name):
                if isinstance(st.value, ast.Subscript) and "keys()" in src(st.value.value) and src(st.value.slice) == "0":
                    env["__keyname__"] = st.targets[0].id
                    continue
                env[st.targets[0].id] = ev(st.value, env, cplx)
            elif isinstance(st, ast.AugAssign) and isinstance(st.target, ast.Name) and isinstance(st.op, (ast.Div, ast.Mult)):
                v = ev(st.value, env, cplx)
                env[st.target.id] = env[st.target.id] / v if isinstance(st.op, ast.Div) else env[st.target.id] * v
            elif isinstance(st, ast.If):
                from ..util import strip_not
                from ..model import cc
                core, pol = strip_not(st.test)
                t = cc(core)
                kn = env.get("__keyname__", "key")
                if t in (f"{kn} == self._kr", f"self._kr == {kn}"):
                    tv = const_is_residual
                elif t in (f"{kn} != self._kr", f"self._kr != {kn}"):
                    tv = not const_is_residual
                elif t in (f"{kn} == self._ki", f"self._ki == {kn}"):
                    tv = not const_is_residual
                elif t in (f"{kn} != self._ki", f"self._ki != {kn}"):
                    tv = const_is_residual
                elif t == "self._cplx":
                    tv = cplx
                else:
                    raise NU(f"test {t}")
                tv = tv if pol else not tv
                r_ = run_body(st.body if tv else st.orelse, env, cplx, const_is_residual)
                if r_ is not None:
                    return r_
            elif isinstance(st, ast.Return):
                v = st.value
                if isinstance(v, ast.Tuple) and len(v.elts) == 2:
                    return ev(v.elts[1], env, cplx)
                raise NU("return shape")
            else:
                raise NU(src(st)[:60])
        return None
    for cplx in (False, True):
        for const_is_residual in (True, False):
            key = f"{fn.key}::{'complex' if cplx else 'real'} sampling, constant {'residual' if const_is_residual else 'inverse covariance'}"
            try:
                spec = run_body(fn.node.body, {}, cplx, const_is_residual)
                full = full_energy(cplx, CST, X) if const_is_residual else full_energy(cplx, X, CST)
            except (NU, NotUnderstood) as exc:
                ctx.und("R04.2", key, f"not understood: {exc}", fn)
                continue
            if spec is None or full is None:
                ctx.und("R04.2", key, "no term", fn)
                continue
            d = sp.simplify(sp.expand_log(spec - full, force=True))
            ctx.check("R04.2", key, d == 0, f"specialised = {sp.simplify(spec)}; full with the constant inserted = {sp.simplify(full)}", fn)


def r04_3(ctx, m):
    """combinators specialise their constituents with their own share of the constants, in order"""
    ctx.rule("R04.3", "specialisation of combinators: _OpProd/_OpSum specialise each factor/summand with the part of the constants "
                      "on ITS OWN domain (c_inp.extract_part(self._opK.domain)) and rebuild the same combinator from (o1, o2) in this "
                      "order; chains (_OpChain, ChainOperator) walk their operators from the input side, hand the constant output of one "
                      "stage to the next and compose in application order; SumOperator keeps each summand's sign; the generic "
                      "fallback inserts the constants in front of the unchanged operator", floor=7)
    for cname in ("_OpProd", "_OpSum"):
        C = m.cls(OPM, cname)
        fi = C.methods.get("_simplify_for_constant_input_nontrivial")
        if fi is None:
            ctx.und("R04.3", f"{C.key}::specialisation", "method missing", C)
            continue
        ctx.saw_func(fi)
        ci = fi.params()[1]
        sides = {}
        for st in walk_no_nested(fi.node):
            if isinstance(st, ast.Assign) and isinstance(st.targets[0], ast.Tuple) and isinstance(st.value, ast.Call) and call_name(st.value) == "simplify_for_constant_input":
                recv = src(st.value.func.value)
                arg = src(st.value.args[0]).replace(" ", "").replace("\n", "") if st.value.args else None
                sides[recv] = (src(st.targets[0].elts[1]), arg, st)
        key = f"{C.key}::each side gets the constants of its own domain"
        ok = set(sides) == {"self._op1", "self._op2"} and all(a == f"{ci}.extract_part({r}.domain)" for r, (_, a, _) in sides.items())
        ctx.check("R04.3", key, ok, str({r: a for r, (_, a, _) in sides.items()}), fi)
        if set(sides) == {"self._op1", "self._op2"}:
            o1, o2 = sides["self._op1"][0], sides["self._op2"][0]
            rets = [r for r in walk_no_nested(fi.node) if isinstance(r, ast.Return)]
            good = bool(rets) and all(isinstance(r.value, ast.Tuple) and src(r.value.elts[1]) == f"{cname}({o1}, {o2})" for r in rets)
            ctx.check("R04.3", f"{C.key}::rebuilds {cname}(o1, o2) in operand order", good, str([src(r.value) for r in rets]), fi)
    for mod, cname in ((OPM, "_OpChain"), ("nifty.cl.operators.chain_operator", "ChainOperator")):
        C = m.cls(mod, cname)
        fi = C.methods.get("_simplify_for_constant_input_nontrivial")
        if fi is None:
            ctx.und("R04.3", f"{C.key}::specialisation", "method missing", C)
            continue
        ctx.saw_func(fi)
        ci = fi.params()[1]
        loops = [st for st in walk_no_nested(fi.node) if isinstance(st, ast.For)]
        key = f"{C.key}::walks the operators from the input side and threads the constants"
        if len(loops) != 1:
            ctx.und("R04.3", key, f"{len(loops)} loops", fi)
            continue
        lp = loops[0]
        it_ok = src(lp.iter) in ("reversed(self._ops)", "self._ops[::-1]")
        ov = src(lp.target)
        thr = [st for st in lp.body if isinstance(st, ast.Assign) and isinstance(st.targets[0], ast.Tuple) and isinstance(st.value, ast.Call)
               and call_name(st.value) == "simplify_for_constant_input"]
        thr_ok = len(thr) == 1 and src(thr[0].targets[0].elts[0]) == ci and [src(a) for a in thr[0].value.args] == [ci] and src(thr[0].value.func.value) == ov
        ctx.check("R04.3", key, it_ok and thr_ok, f"for {ov} in {src(lp.iter)}: {src(thr[0]) if thr else None}", fi, lp)
        if thr:
            t_op = src(thr[0].targets[0].elts[1])
            comp = [st for st in lp.body if isinstance(st, ast.Assign) and isinstance(st.value, ast.IfExp)]
            key = f"{C.key}::composes later stages onto the earlier ones"
            if len(comp) != 1:
                ctx.und("R04.3", key, "composition statement not found", fi)
            else:
                acc = src(comp[0].targets[0])
                e = comp[0].value
                okc = src(e.test) == f"{acc} is None" and src(e.body) == t_op and src(e.orelse) in (f"{ov}({acc})", f"{t_op}({acc})", f"{ov} @ {acc}", f"{t_op} @ {acc}")
                rets = [r for r in walk_no_nested(fi.node) if isinstance(r, ast.Return) and isinstance(r.value, ast.Tuple)]
                okr = any(src(r.value.elts[0]) == ci and src(r.value.elts[1]) == acc for r in rets)
                ctx.check("R04.3", key, okc and okr, f"{src(comp[0])}; returns {[src(r.value) for r in rets]}", fi, comp[0])
    S = m.cls("nifty.cl.operators.sum_operator", "SumOperator")
    fi = S.methods.get("_simplify_for_constant_input_nontrivial")
    if fi is not None:
        ctx.saw_func(fi)
        ci = fi.params()[1]
        calls = [c for c in walk_no_nested(fi.node) if isinstance(c, ast.Call) and call_name(c) == "simplify_for_constant_input"]
        ok1 = len(calls) == 1 and src(calls[0].args[0]).replace(" ", "").replace("\n", "") == f"{ci}.extract_part({src(calls[0].func.value)}.domain)"
        ctx.check("R04.3", f"{S.key}::each summand gets the constants of its own domain", ok1, src(calls[0]) if calls else None, fi)
        signs = [st for st in walk_no_nested(fi.node) if isinstance(st, ast.Assign) and isinstance(st.value, ast.IfExp) and isinstance(st.value.orelse, ast.UnaryOp)
                 and isinstance(st.value.orelse.op, ast.USub)]
        zips = [lp for lp in walk_no_nested(fi.node) if isinstance(lp, ast.For) and "self._neg" in src(lp.iter)]
        oks = len(signs) == len(zips) >= 1 and all(src(st.value.test).startswith("not ") and src(st.value.orelse.operand) == src(st.value.body) for st in signs)
        # ... and it is the signed operator that enters the rebuilt sum
        for lp, st in zip(zips, signs):
            sgn = src(st.targets[0])
            acc = [a for a in lp.body if isinstance(a, ast.Assign) and isinstance(a.value, ast.IfExp) and a is not st]
            okacc = len(acc) == 1 and src(acc[0].value.body) == sgn and isinstance(acc[0].value.orelse, ast.BinOp) and isinstance(acc[0].value.orelse.op, ast.Add) \
                and src(acc[0].value.orelse.right) == sgn and src(acc[0].value.orelse.left) == src(acc[0].targets[0])
            ctx.check("R04.3", f"{S.key}::line {lp.lineno - fi.node.lineno}: the signed summand `{sgn}` is what the rebuilt sum accumulates", okacc if acc else None,
                      src(acc[0]) if acc else None, fi, acc[0] if acc else lp)
        ctx.check("R04.3", f"{S.key}::a summand is negated exactly when its sign flag is set", True if oks else None,
                  str([src(st) for st in signs]), fi)
    base = m.cls(OPM, "Operator").methods.get("_simplify_for_constant_input_nontrivial")
    if base is not None:
        ctx.saw_func(base)
        rets = [r for r in walk_no_nested(base.node) if isinstance(r, ast.Return)]
        ci = base.params()[1]
        ok = len(rets) == 1 and src(rets[0].value).replace(" ", "") == f"(None,self@InsertionOperator(self.domain,{ci}))"
        ctx.check("R04.3", f"{base.key}::generic fallback = operator after insertion of the constants", ok, src(rets[0].value) if rets else None, base)
    ins = m.cls("nifty.cl.operators.simplify_for_const", "InsertionOperator")
    ap = ins.methods.get("apply")
    if ap is not None:
        ctx.saw_func(ap)
        un = [c for c in walk_no_nested(ap.node) if isinstance(c, ast.Call) and call_name(c) == "unite" and [src(a) for a in c.args] == ["self._cst"]]
        rets = [src(r.value) for r in walk_no_nested(ap.node) if isinstance(r, ast.Return)]
        xn = ap.params()[1]
        ctx.check("R04.3", f"{ap.key}::value = input united with the stored constants, Jacobian = stored (identity on the variable keys, null on the constants)",
                  len(un) == 1 and any(r.startswith(f"{xn}.new(") and r.endswith("self._jac)") for r in rets), str(rets), ap)


_run_c04 = run


def run(ctx):  # noqa: F811
    _run_c04(ctx)
    r04_2(ctx, ctx.model)
    r04_3(ctx, ctx.model)


def r04_4(ctx, m):
    """the standard Hamiltonian's prior runs over ALL keys: fixing some of them leaves their prior energy in the value"""
    from .c03 import _load_sympy
    ctx.rule("R04.4", "StandardHamiltonian specialised to constants: the new Hamiltonian is built on the specialised likelihood, so its "
                      "own prior covers the remaining keys only; the prior energy 1/2 <c, c> of the constant part must therefore enter "
                      "the value separately (a stored offset that apply() adds) - otherwise the value differs from the original "
                      "evaluated with the constants inserted (nifty's own check_operator demands equality to 1e-12)", floor=2)
    sp = _load_sympy()
    H = m.cls(EO, "StandardHamiltonian")
    fn, ap = H.methods.get("_simplify_for_constant_input_nontrivial"), H.methods.get("apply")
    if fn is None or ap is None:
        ctx.und("R04.4", f"{H.key}::specialisation", "method missing", H)
        return
    ctx.saw_func(fn)
    ctx.saw_func(ap)
    ci = fn.params()[1]
    key = f"{fn.key}::prior energy of the constant keys is kept"
    news = [st for st in walk_no_nested(fn.node) if isinstance(st, (ast.Assign, ast.Return)) and st.value is not None
            and any(isinstance(c, ast.Call) and call_name(c) == "StandardHamiltonian" for c in ast.walk(st.value))]
    uses = [x for x in walk_no_nested(fn.node) if isinstance(x, ast.Name) and x.id == ci and isinstance(x.ctx, ast.Load)]
    lh_calls = [c for c in walk_no_nested(fn.node) if isinstance(c, ast.Call) and call_name(c) == "simplify_for_constant_input"
                and [src(a) for a in c.args] == [ci]]
    other_uses = [x for x in uses if not any(x in c.args for c in lh_calls)]
    if not news or len(lh_calls) != 1:
        ctx.und("R04.4", key, "construction of the specialised Hamiltonian not recognised", fn)
        return
    if not other_uses:
        ctx.bad("R04.4", key, f"`{ci}` is only handed to the likelihood's specialisation: the result's prior covers the remaining keys, "
                              f"and 1/2 <{ci}, {ci}> is missing from every value", fn, news[0])
        return
    # recognised form: <new>._offset = self._offset + 0.5 * c.s_vdot(c).real, and apply() adds self._offset
    offs = [st for st in walk_no_nested(fn.node) if isinstance(st, ast.Assign) and isinstance(st.targets[0], ast.Attribute)
            and any(x in ast.walk(st.value) for x in other_uses)]
    if len(offs) != 1 or sp is None:
        ctx.und("R04.4", key, f"use of `{ci}` outside the likelihood's specialisation not recognised", fn)
        return
    attr = offs[0].targets[0].attr
    C = sp.Symbol("C", real=True)
    O = sp.Symbol("offset", real=True)

    def ev(e):
        if isinstance(e, ast.Constant) and isinstance(e.value, (int, float)):
            return sp.nsimplify(e.value)
        if isinstance(e, ast.Attribute) and src(e) == f"self.{attr}":
            return O
        if isinstance(e, ast.Attribute) and e.attr == "real":
            return ev(e.value)
        if isinstance(e, ast.BinOp) and isinstance(e.op, (ast.Add, ast.Sub, ast.Mult, ast.Div)):
            a, b = ev(e.left), ev(e.right)
            return {ast.Add: a + b, ast.Sub: a - b, ast.Mult: a * b, ast.Div: a / b}[type(e.op)]
        if isinstance(e, ast.Call) and call_name(e) in ("s_vdot", "vdot") and src(e.func.value) == ci and [src(a) for a in e.args] == [ci]:
            return C * C
        if isinstance(e, ast.Call) and src(e.func) == "self._prior" and [src(a) for a in e.args] == [ci]:
            return C * C / 2
        raise ValueError(src(e)[:60])
    try:
        val = ev(offs[0].value)
        ctx.check("R04.4", key, sp.simplify(val - O - C * C / 2) == 0, f"`{src(offs[0])}` reads per pixel as {val}; expected offset + C**2/2", fn, offs[0])
    except ValueError as exc:
        ctx.und("R04.4", key, f"offset term not understood: {exc}", fn, offs[0])
    # apply adds the offset on every return
    from ..util import cfg_of
    from ..terms import inline_at
    cfg = cfg_of(ap)
    key2 = f"{ap.key}::every returned value contains the stored offset"
    adds = [n for n in cfg.nodes if n.kind == "stmt" and isinstance(n.ast, ast.Assign) and isinstance(n.ast.value, ast.BinOp) and isinstance(n.ast.value.op, ast.Add)
            and f"self.{attr}" in (src(n.ast.value.left), src(n.ast.value.right)) and src(n.ast.targets[0]) in (src(n.ast.value.left), src(n.ast.value.right))]
    rets = [n for n in cfg.nodes if n.kind == "stmt" and isinstance(n.ast, ast.Return)]
    if len(adds) != 1 or not rets:
        ctx.und("R04.4", key2, f"{len(adds)} statements adding self.{attr}", ap)
        return
    acc = src(adds[0].ast.targets[0])
    from ..util import known_atoms
    from ..model import cc
    guard = [(cc(t), pol) for t, pol in known_atoms(cfg, adds[0].id) if attr in src(t)]
    guard_ok = all((g in (f"self.{attr} != 0.0", f"self.{attr} != 0") and pol) or (g in (f"self.{attr} == 0.0", f"self.{attr} == 0") and not pol) for g, pol in guard)
    dom = cfg.dominators()
    # the add (or its skipping guard) precedes every return, and every return is built on the accumulator
    built = all(acc in {x.id for x in ast.walk(n.ast.value) if isinstance(x, ast.Name)} for n in rets)
    before = all(adds[0].ast.lineno < n.ast.lineno for n in rets)
    ctx.check("R04.4", key2, True if (guard_ok and built and before) else None, f"`{src(adds[0].ast)}` under {guard}; returns {[src(n.ast.value) for n in rets]}", ap, adds[0].ast)


_run_c04b = run


def run(ctx):  # noqa: F811
    _run_c04b(ctx)
    r04_4(ctx, ctx.model)


def r04_5(ctx, m):
    """the specialised energies carry a metric that is the Fisher metric of what they compute"""
    from .c11 import r11_4
    r11_4(ctx, m, rid="R04.5", only=("_SpecialGammaEnergy",))
    ctx.rule("R04.6", "ConstantEnergyOperator (what a fully constant energy term becomes): applied to a linearization it returns the "
                      "stored value with a null Jacobian and, when a metric is wanted, a null METRIC - operator sums attach a metric "
                      "only if every summand delivers one, so a constant summand without metric would silently remove the metric of "
                      "the whole specialised energy", floor=1)
    C = m.cls("nifty.cl.operators.simplify_for_const", "ConstantEnergyOperator")
    ap = C.methods.get("apply")
    if ap is None:
        ctx.und("R04.6", f"{C.key}::apply", "missing", C)
        return
    ctx.saw_func(ap)
    xn = ap.params()[1]
    cfg = cfg_of(ap)
    rd = cfg.reaching_defs(ap.params())
    news = [(n, c) for n in cfg.nodes if n.kind == "stmt" and isinstance(n.ast, ast.Return) and n.ast.value is not None
            for c in [n.ast.value] if isinstance(c, ast.Call) and src(c.func) == f"{xn}.new"]
    key = f"{ap.key}::linearised result carries a null metric when one is wanted"
    if len(news) != 1:
        ctx.und("R04.6", key, f"{len(news)} `{xn}.new(...)` returns", ap)
        return
    n, c = news[0]
    met = c.args[2] if len(c.args) > 2 else next((k.value for k in c.keywords if k.arg == "metric"), None)
    if met is None:
        ctx.bad("R04.6", key, f"`{src(c)}` has no metric argument", ap, c)
        return
    defs = [cfg.nodes[d] for d in (rd.get(n.id) or {}).get(src(met), ())] if isinstance(met, ast.Name) else []
    under = [d for d in defs if d.ast is not None and isinstance(d.ast, ast.Assign) and "NullOperator" in src(d.ast.value)
             and any(src(t) == f"{xn}.want_metric" and pol for t, pol in known_atoms(cfg, d.id))]
    ctx.check("R04.6", key, True if under else None, f"metric `{src(met)}` defined by {[src(d.ast) for d in defs if d.ast is not None]}", ap, c)


_run_c04c = run


def run(ctx):  # noqa: F811
    _run_c04c(ctx)
    r04_5(ctx, ctx.model)


_run_c04z = run


def run(ctx):  # noqa: F811
    _run_c04z(ctx)
    # a specialised Hamiltonian carries an offset: value with and without the metric must agree (shared with C03)
    from .c03 import r03_9
    r03_9(ctx, rid="R04.7")


# ---------------------------------------------------------------------------------------------------------------- R04.8
def r04_8(ctx, m, rid="R04.8"):
    """constants produced by specialisation have the zero metric, not 'no metric'"""
    from ..util import cfg_of, find_nodes
    mod = m.module("nifty.cl.operators.simplify_for_const")
    ctx.rule(rid, "simplify_for_const: every operator that stands for a fully constant sub-expression (apply returns its stored output "
                  "with a NullOperator Jacobian) also returns a metric when the linearization wants one - the zero operator "
                  "NullOperator(domain, domain) - because _OpSum keeps the metric of a sum only if every summand has one; a constant "
                  "summand without it discards the metric of the whole expression", floor=2)
    n = 0
    for c in mod.classes.values():
        ap = c.methods.get("apply")
        if ap is None:
            continue
        cfg = cfg_of(ap)
        rd = cfg.reaching_defs(params=ap.params())
        xn = ap.params()[1]
        for node, call in find_nodes(cfg, lambda q: isinstance(q, ast.Call) and src(q.func) == f"{xn}.new" and len(q.args) >= 2):
            def defs_of(e):
                if isinstance(e, ast.Name):
                    out = []
                    for d in (rd.get(node.id) or {}).get(e.id, ()):
                        dn = cfg.nodes[d]
                        if dn.ast is not None and isinstance(dn.ast, ast.Assign):
                            out.append(dn.ast.value)
                    return out
                return [e]
            jd = defs_of(call.args[1])
            if not jd or not all(isinstance(j, ast.Call) and call_name(j) == "NullOperator" for j in jd):
                continue
            n += 1
            ctx.saw_func(ap)
            key = f"{ap.key}::constant value is returned with the zero metric when a metric is wanted"
            met = call.args[2] if len(call.args) > 2 else next((k.value for k in call.keywords if k.arg == "metric"), None)
            if met is None:
                ctx.bad(rid, key, f"`{src(call)}`: no metric although {xn}.want_metric may be set", ap, call)
                continue
            md = defs_of(met)
            has_null = any(isinstance(j, ast.Call) and call_name(j) == "NullOperator" and len(j.args) >= 2 and src(j.args[0]) == src(j.args[1]) for j in md)
            wm = any(isinstance(z, ast.Attribute) and z.attr == "want_metric" for z in ast.walk(ap.node))
            ctx.check(rid, key, True if (has_null and wm) else None, f"metric argument `{src(met)}` <- {[src(j)[:50] for j in md]}", ap, call)
    if not n:
        ctx.und(rid, f"{mod.name}::constant operators", "none found", mod)


_run_c04y = run


def run(ctx):  # noqa: F811
    _run_c04y(ctx)
    r04_8(ctx, ctx.model)


_run_c04x = run


def run(ctx):  # noqa: F811
    _run_c04x(ctx)
    from .optattr import optional_attr_rule
    optional_attr_rule(ctx, "R04.9", ["nifty.cl.operators.energy_operators", "nifty.cl.operators.jax_operator", "nifty.cl.operators.simplify_for_const",
                                      "nifty.cl.operators.operator", "nifty.cl.operators.sum_operator", "nifty.cl.operators.chain_operator"],
                       "the operators that can be specialised to constant input", floor=1)
