"""C05 - operator-tree optimiser: structural clauses only (private copy, placeholder pairing, self-check against the original).
That the rewritten graph computes the same value and Jacobian for every tree is a property of a run-time rewrite keyed on object
identity and is not decided."""
import ast

from ..model import src, short, walk_no_nested, call_name
from ..util import cfg_of

OTO = "nifty.cl.operator_tree_optimiser"


def run(ctx):
    m = ctx.model
    opt = m.func(OTO, "optimise_operator")
    inner = m.func(OTO, "_optimise_operator")
    ctx.saw_func(opt)
    ctx.saw_func(inner)
    ctx.rule("R05.1", "optimise_operator rewrites a PRIVATE deep copy (the in-place rewrite never touches the caller's operator), "
                      "compares the rewritten operator with the untouched original at a random input drawn on the original's domain "
                      "(every key of a multi-field result) through an assertion function, and returns the rewritten copy", floor=4)
    op = opt.params()[0]
    cfg = cfg_of(opt)
    rd = cfg.reaching_defs(opt.params())
    calls = [(n, c) for n in cfg.nodes if n.kind == "stmt" and n.ast is not None for c in ast.walk(n.ast)
             if isinstance(c, ast.Call) and call_name(c) == "_optimise_operator"]
    key = f"{opt.key}::the rewrite runs on deepcopy({op})"
    if len(calls) != 1 or len(calls[0][1].args) != 1 or not isinstance(calls[0][1].args[0], ast.Name):
        ctx.und("R05.1", key, f"{len(calls)} rewrite calls", opt)
        return
    n, c = calls[0]
    an = c.args[0].id
    defs = [cfg.nodes[d] for d in (rd.get(n.id) or {}).get(an, ())]
    okc = bool(defs) and all(d.kind == "stmt" and isinstance(d.ast, ast.Assign) and isinstance(d.ast.value, ast.Call)
                             and call_name(d.ast.value) == "deepcopy" and [src(a) for a in d.ast.value.args] == [op] for d in defs)
    ctx.check("R05.1", key, okc and an != op, f"argument `{an}` defined by {[src(d.ast) for d in defs if d.ast is not None]}", opt, c)
    res = src(n.ast.targets[0]) if isinstance(n.ast, ast.Assign) else None
    rets = [r for r in walk_no_nested(opt.node) if isinstance(r, ast.Return)]
    ctx.check("R05.1", f"{opt.key}::returns the rewritten copy", len(rets) == 1 and res is not None and src(rets[0].value) == res,
              src(rets[0].value) if rets else None, opt)
    # self-check
    tf = [st for st in walk_no_nested(opt.node) if isinstance(st, ast.Assign) and isinstance(st.value, ast.Call) and call_name(st.value) == "from_random"]
    key = f"{opt.key}::the test input is drawn on the original's domain"
    if len(tf) != 1:
        ctx.und("R05.1", key, f"{len(tf)} from_random calls", opt)
    else:
        ctx.check("R05.1", key, [src(a) for a in tf[0].value.args] == [f"{op}.domain"], src(tf[0]), opt, tf[0])
        tn = src(tf[0].targets[0])
        cmps = [c_ for c_ in walk_no_nested(opt.node) if isinstance(c_, ast.Call) and call_name(c_) == "allclose"]
        asserted = [c_ for c_ in walk_no_nested(opt.node) if isinstance(c_, ast.Call) and call_name(c_) == "myassert" and c_.args
                    and isinstance(c_.args[0], ast.Call) and call_name(c_.args[0]) == "allclose"]
        key = f"{opt.key}::original and rewritten operator are compared at that input and the comparison is asserted"
        good = len(cmps) >= 1 and len(asserted) == len(cmps)
        for c_ in cmps:
            a0, a1 = (src(c_.args[0]), src(c_.args[1])) if len(c_.args) >= 2 else ("", "")
            good = good and {a0.split("(")[0], a1.split("(")[0]} == {op, res} and f"({tn})" in a0 and f"({tn})" in a1
        ctx.check("R05.1", key, good, "; ".join(src(c_)[:100] for c_ in cmps), opt)
    ctx.rule("R05.2", "placeholder pairing in _optimise_operator: every FieldAdapter placeholder is created on the TARGET of the "
                      "operator it stands for and stored next to it as [operator, placeholder]; every stored pair is bound back "
                      "with partial_insert(placeholder.adjoint(operator)) - the replaced sub-expression is re-attached to exactly "
                      "the key it was cut at; leaves that consist of field adapters only are not cut", floor=4)
    pairs = []
    for st in ast.walk(inner.node):
        if isinstance(st, ast.Assign) and isinstance(st.value, ast.List) and len(st.value.elts) == 2 and isinstance(st.value.elts[1], ast.Call) \
                and call_name(st.value.elts[1]) == "FieldAdapter" and isinstance(st.targets[0], ast.Subscript):
            pairs.append(st)
    if not pairs:
        ctx.und("R05.2", f"{inner.key}::placeholder creation", "no [operator, FieldAdapter(...)] pair found", inner)
    dicts = set()
    for st in pairs:
        o, fa = st.value.elts
        dicts.add(src(st.targets[0].value))
        ctx.check("R05.2", f"{inner.key}::`{short(st, 70)}` placeholder lives on the target of its operator",
                  len(fa.args) >= 1 and src(fa.args[0]) == f"{src(o)}.target", src(fa), inner, st)
    # dict flow: names that receive these dicts via update()/return unpacking are also pair stores
    changed = True
    while changed:
        changed = False
        for c_ in ast.walk(inner.node):
            if isinstance(c_, ast.Call) and call_name(c_) == "update" and c_.args and src(c_.args[0]) in dicts and src(c_.func.value) not in dicts:
                dicts.add(src(c_.func.value))
                changed = True
        for st in ast.walk(inner.node):
            if isinstance(st, ast.Assign) and isinstance(st.targets[0], ast.Tuple) and isinstance(st.value, ast.Call) and call_name(st.value) == "equal_leaves":
                for e in st.targets[0].elts[1:]:
                    if src(e) not in dicts:
                        dicts.add(src(e))
                        changed = True
    ins = [c_ for c_ in ast.walk(inner.node) if isinstance(c_, ast.Call) and call_name(c_) == "partial_insert"]
    bound = set()
    for c_ in ins:
        key = f"{inner.key}::`{short(c_, 70)}` binds placeholder.adjoint(operator) of one pair"
        a = c_.args[0] if c_.args else None
        ok = None
        if isinstance(a, ast.Call) and isinstance(a.func, ast.Attribute) and a.func.attr == "adjoint" and len(a.args) == 1:
            ph, o = a.func.value, a.args[0]
            if isinstance(ph, ast.Subscript) and isinstance(o, ast.Subscript) and isinstance(ph.value, ast.Subscript) and isinstance(o.value, ast.Subscript):
                same_pair = src(ph.value) == src(o.value)
                ok = same_pair and src(ph.slice) == "1" and src(o.slice) == "0" and src(ph.value.value) in dicts
                if ok:
                    bound.add(src(ph.value.value))
                elif same_pair and src(ph.slice) == "0":
                    ok = False
                elif not same_pair:
                    ok = False
        ctx.check("R05.2", key, ok, src(a) if a is not None else None, inner, c_)
    # every dict that is filled in the main body is bound back
    main_dicts = {d for d in dicts if any(isinstance(st, ast.Assign) and src(st.targets[0]) == d for st in inner.node.body) or
                  any(isinstance(st, ast.Assign) and isinstance(st.targets[0], ast.Tuple) and d in [src(e) for e in st.targets[0].elts] for st in inner.node.body)}
    fed = set()
    for d in main_dicts:
        # d is bound directly or merged into a dict that is bound
        if d in bound:
            fed.add(d)
        for c_ in ast.walk(inner.node):
            if isinstance(c_, ast.Call) and call_name(c_) == "update" and c_.args and src(c_.args[0]) == d and src(c_.func.value) in bound:
                fed.add(d)
    ctx.check("R05.2", f"{inner.key}::every store of pairs reaches a partial_insert loop", main_dicts == fed if main_dicts else None,
              f"stores {sorted(main_dicts)}, bound {sorted(fed)}", inner)
    fa_guard = [t for t in ast.walk(inner.node) if isinstance(t, ast.If) and "isinstance" in src(t.test) and "FieldAdapter" in src(t.test)
                and isinstance(t.test, ast.UnaryOp)]
    ctx.check("R05.2", f"{inner.key}::field-adapter-only leaves are not cut", True if len(fa_guard) >= 2 else None, f"{len(fa_guard)} guards", inner)


def r05_3(ctx):
    """iterator freshness and discovery/insertion order"""
    m = ctx.model
    inner = m.func(OTO, "_optimise_operator")
    ctx.rule("R05.3", "_optimise_operator: (a) an iterator that a `while` test consumes is re-created on every path back to the test "
                      "(a generator handed to all() is empty the second time, which would make every comparison vacuously true and "
                      "merge leaves that differ); (b) placeholders found in later passes may contain earlier ones, so they are bound "
                      "back in reverse discovery order: a key list that grows by appending is walked reversed, one that grows by "
                      "prepending is walked forward", floor=3)
    # (a)
    n_a = 0
    for fn in [f_ for f_ in ast.walk(inner.node) if isinstance(f_, ast.FunctionDef)]:
        its = {st.targets[0].id for st in walk_no_nested(fn) if isinstance(st, ast.Assign) and isinstance(st.targets[0], ast.Name)
               and isinstance(st.value, ast.Call) and src(st.value.func) == "iter"}
        for w in [w_ for w_ in walk_no_nested(fn) if isinstance(w_, ast.While)]:
            used = {x.id for x in ast.walk(w.test) if isinstance(x, ast.Name) and x.id in its}
            for it in sorted(used):
                n_a += 1
                # statements of the body executed on the way back to the test: everything not followed by a break in the same block
                rebinds = [st for st in w.body if isinstance(st, ast.Assign) and isinstance(st.targets[0], ast.Name) and st.targets[0].id == it
                           and isinstance(st.value, ast.Call) and src(st.value.func) == "iter"]
                ctx.check("R05.3", f"{inner.key}::{fn.name}: iterator `{it}` consumed by the while test is re-created in the loop body", bool(rebinds),
                          f"`while {short(w.test, 80)}` consumes `{it}`; the body never rebinds it: from the second round on the test ranges over nothing", inner, w)
    if not n_a:
        ctx.und("R05.3", f"{inner.key}::iterator consumed by a while test", "pattern not found", inner)
    # (b)
    ins = [lp for lp in inner.node.body if isinstance(lp, ast.For) and any(isinstance(c, ast.Call) and call_name(c) == "partial_insert" for c in ast.walk(lp))]
    for lp in ins:
        t = src(lp.iter).replace(" ", "")
        rev = t.startswith("reversed(")
        lst = t[len("reversed("):-1] if rev else t
        grows = []
        for st in ast.walk(inner.node):
            if isinstance(st, ast.AugAssign) and isinstance(st.op, ast.Add) and src(st.target) == lst:
                grows.append(("append", st))
            elif isinstance(st, ast.Assign) and src(st.targets[0]) == lst and isinstance(st.value, ast.BinOp) and isinstance(st.value.op, ast.Add):
                if src(st.value.left) == lst:
                    grows.append(("append", st))
                elif src(st.value.right) == lst:
                    grows.append(("prepend", st))
        key = f"{inner.key}::`for key in {src(lp.iter)}` binds later-found placeholders first"
        if not grows:
            ctx.und("R05.3", key, f"no growth statement of `{lst}` found", inner, lp)
            continue
        kinds = {k for k, _ in grows}
        if len(kinds) != 1:
            ctx.bad("R05.3", key, f"`{lst}` grows both ways ({[src(s_) for _, s_ in grows]})", inner, grows[0][1])
            continue
        kind = kinds.pop()
        # the fragments appended to a forward-walked list must themselves be in reverse discovery order (prepending inner lists)
        if kind == "append" and not rev:
            inner_lists = {x.id for _, st in grows for x in ast.walk(st.value) if isinstance(x, ast.Name) and x.id != lst}
            pre = [st for st in ast.walk(inner.node) if isinstance(st, ast.Assign) and src(st.targets[0]) in inner_lists and isinstance(st.value, ast.BinOp)
                   and isinstance(st.value.op, ast.Add) and src(st.value.right) == src(st.targets[0])]
            ctx.check("R05.3", key, True if pre else None, f"`{lst}` is walked forward and grows by fragments that are built by prepending: {[src(s_) for s_ in pre]}", inner, lp)
        else:
            ctx.check("R05.3", key, (kind == "append") == rev, f"`{lst}` grows by {kind}ing ({src(grows[0][1])}) and is walked {'reversed' if rev else 'forward'}", inner, grows[0][1])


_run_c05 = run


def run(ctx):  # noqa: F811
    _run_c05(ctx)
    r05_3(ctx)


# ---------------------------------------------------------------------------------------------------------------- R05.4
def r05_4(ctx, m):
    R = "R05.4"
    ctx.rule(R, "equal_leaves groups leaf chains by the identity of their whole innermost prefix: the grouping key accumulates the id of "
                "EVERY operator walked from the input side up to and including the first non-adapter one (`key += str(id(op))` inside "
                "the loop), so `g @ FA_a` and `g @ FA_b` - the same operator object on different inputs - fall into different groups; "
                "a key made of the first non-adapter operator alone rewires g(b) to g(a)", floor=1)
    fi = None
    mod = m.module("nifty.cl.operator_tree_optimiser")
    for f in mod.all_functions:
        if f.name == "equal_leaves":
            fi = f
    if fi is None:
        ctx.und(R, "nifty.cl.operator_tree_optimiser::equal_leaves", "function missing", mod.relpath)
        return
    ctx.saw_func(fi)
    key = f"{fi.key}::grouping key of a chain covers the adapters below the first operator"
    loops = [lp for lp in walk_no_nested(fi.node) if isinstance(lp, ast.For) and "reversed" in src(lp.iter) and "_ops" in src(lp.iter)
             and any(isinstance(z, ast.Call) and call_name(z) == "write_to_dic" for z in ast.walk(lp))]
    if len(loops) != 1:
        ctx.und(R, key, f"{len(loops)} grouping loops over the reversed chain", fi)
        return
    lp = loops[0]
    var = src(lp.target)
    wr = [z for z in ast.walk(lp) if isinstance(z, ast.Call) and call_name(z) == "write_to_dic" and len(z.args) == 2][0]
    karg = wr.args[1]
    if isinstance(karg, ast.Name):
        acc = [st for st in lp.body if isinstance(st, ast.AugAssign) and src(st.target) == karg.id and isinstance(st.op, ast.Add)
               and f"id({var})" in src(st.value)]
        # the accumulation must precede (not be nested under) the non-adapter test
        ctx.check(R, key, True if acc else None, f"key `{karg.id}` accumulated by `{src(acc[0])}` for every walked operator" if acc else
                  f"key `{karg.id}`: accumulation not found", fi, wr)
    else:
        only_last = f"id({var})" in src(karg) and "+" not in src(karg)
        ctx.check(R, key, False if only_last else None, f"key `{src(karg)}` is the id of the first non-adapter operator alone", fi, wr)


_run_c05x = run


def run(ctx):  # noqa: F811
    _run_c05x(ctx)
    r05_4(ctx, ctx.model)


# ---------------------------------------------------------------------------------------------------------------- R05.5
def r05_5(ctx, m):
    R = "R05.5"
    ctx.rule(R, "rebuild_domains refreshes EVERY ancestor of EVERY edited node after all edits: the walk `index = nodes[index][1]` "
                "runs until the parent is no node index any more, its loop has no early exit (break/return, or a loop flag fed by "
                "anything but the parent index: an ancestor above a 'meeting point' was computed while a sibling branch was still stale "
                "and keeps a superset domain, which breaks the Jacobian chain while values stay right), and the driver calls it for "
                "all members of `edited`", floor=3)
    mod = m.module("nifty.cl.operator_tree_optimiser")
    fi = next((f for f in mod.all_functions if f.name == "rebuild_domains"), None)
    inner = m.func(OTO, "_optimise_operator")
    if fi is None:
        ctx.und(R, "nifty.cl.operator_tree_optimiser::rebuild_domains", "function missing", mod.relpath)
        return
    ctx.saw_func(fi)
    par = fi.node.args.args[0].arg if fi.node.args.args else None
    loops = [w for w in walk_no_nested(fi.node) if isinstance(w, ast.While)]
    key = f"{fi.key}::the walk to the root has no early exit"
    if len(loops) != 1 or par is None:
        ctx.und(R, key, f"{len(loops)} while loops", fi)
        return
    w = loops[0]
    # (a) the parent step: <par> = nodes[<par>][1] as a top-level statement of the loop body
    steps = [st for st in w.body if isinstance(st, ast.Assign) and src(st.targets[0]) == par and isinstance(st.value, ast.Subscript)
             and src(st.value).replace(" ", "").endswith(f"[{par}][1]")]
    ctx.check(R, f"{fi.key}::every round steps to the parent unconditionally", True if len(steps) == 1 else None,
              f"`{src(steps[0])}`" if steps else "no top-level parent step found", fi, w)
    # (b) no break/return/continue in the loop (nested loops own their breaks)
    exits = []

    def scan(stmts, in_inner_loop):
        for st in stmts:
            if isinstance(st, (ast.Return,)) or (isinstance(st, (ast.Break, ast.Continue)) and not in_inner_loop):
                exits.append(st)
            if isinstance(st, (ast.FunctionDef, ast.ClassDef)):
                continue
            for fld in ("body", "orelse", "finalbody"):
                sub = getattr(st, fld, None)
                if isinstance(sub, list):
                    scan(sub, in_inner_loop or isinstance(st, (ast.For, ast.While)))
            for h in getattr(st, "handlers", []) or []:
                scan(h.body, in_inner_loop)
    scan(w.body, False)
    ctx.check(R, key, not exits, f"`{src(exits[0])}` at line {exits[0].lineno} leaves the walk before the root" if exits else "no break/return/continue", fi,
              exits[0] if exits else w)
    # (c) the loop test is a flag that only the parent index feeds (or the type test itself)
    tnames = {x.id for x in ast.walk(w.test) if isinstance(x, ast.Name)}
    flags = tnames - {par, "type", "int", "isinstance"}
    okc = True
    why = f"`while {src(w.test)}`"
    for fl in sorted(flags):
        asg = [st for st in ast.walk(w) if isinstance(st, (ast.Assign, ast.AugAssign)) and any(src(t) == fl for t in (st.targets if isinstance(st, ast.Assign) else [st.target]))]
        for st in asg:
            nm = {x.id for x in ast.walk(st.value) if isinstance(x, ast.Name)} - {"type", "int", "isinstance"}
            if isinstance(st, ast.AugAssign) or nm != {par} or isinstance(st.value, ast.BoolOp):
                okc = False
                why = f"loop flag `{fl}` is fed by `{src(st)}` (line {st.lineno}), not by the parent index alone"
        if not asg:
            okc = None
            why = f"loop flag `{fl}` never assigned in the loop"
    ctx.check(R, f"{fi.key}::the walk ends only when the parent is not a node index", okc, why, fi, w)
    # (d) the driver: for <i> in edited: rebuild_domains(<i>)
    drv = [lp for lp in inner.node.body if isinstance(lp, ast.For) and any(isinstance(c, ast.Call) and call_name(c) == "rebuild_domains" for c in ast.walk(lp))]
    keyd = f"{inner.key}::rebuild_domains is called for every edited node"
    if len(drv) != 1:
        ctx.und(R, keyd, f"{len(drv)} driver loops", inner)
        return
    lp = drv[0]
    itn = {x.id for x in ast.walk(lp.iter) if isinstance(x, ast.Name)}
    guarded = [st for st in lp.body if not (isinstance(st, ast.Expr) and isinstance(st.value, ast.Call) and call_name(st.value) == "rebuild_domains"
                                            and [src(a) for a in st.value.args] == [src(lp.target)])]
    sliced = any(isinstance(x, ast.Subscript) for x in ast.walk(lp.iter))
    ctx.check(R, keyd, "edited" in itn and not guarded and not sliced,
              f"`for {src(lp.target)} in {src(lp.iter)}`" + (f" with body `{short(guarded[0], 80)}`" if guarded else ""), inner, lp)


_run_c05y = run


def run(ctx):  # noqa: F811
    _run_c05y(ctx)
    r05_5(ctx, ctx.model)


# ---------------------------------------------------------------------------------------------------------------- R05.6
def r05_6(ctx, m):
    R = "R05.6"
    ctx.rule(R, "in-place cuts of a chain (`X._ops = X._ops[:-k] + (placeholder,)`) in the loops over leaves / nodes are applied ONCE per "
                "chain object: the deep copy keeps sharing, so one chain object may hang under several parents and is then visited "
                "several times; a cut by a variable length k must be guarded by a set of already cut objects (test `id(X) in S` before, "
                "`S.add(id(X))` after), a cut `[:-1] + (p,)` that replaces the last element by the placeholder is idempotent", floor=2)
    inner = m.func(OTO, "_optimise_operator")
    n = 0
    for lp in [x for x in ast.walk(inner.node) if isinstance(x, ast.For)]:
        for st in ast.walk(lp):
            if not (isinstance(st, ast.Assign) and len(st.targets) == 1 and isinstance(st.targets[0], ast.Attribute) and st.targets[0].attr == "_ops"):
                continue
            # innermost enclosing for loop only
            if any(isinstance(x, ast.For) and x is not lp and any(y is st for y in ast.walk(x)) for x in ast.walk(lp)):
                continue
            obj = src(st.targets[0].value)
            val = st.value
            cut = next((z for z in ast.walk(val) if isinstance(z, ast.Subscript) and isinstance(z.slice, ast.Slice) and src(z.value) == f"{obj}._ops"), None)
            key = f"{inner.key}::`{short(st, 90)}` happens once per chain object"
            if cut is None or cut.slice.upper is None:
                ctx.und(R, key, "not a cut of the own `_ops`", inner, st)
                n += 1
                continue
            n += 1
            up = cut.slice.upper
            if isinstance(up, ast.UnaryOp) and isinstance(up.op, ast.USub) and isinstance(up.operand, ast.Constant) and up.operand.value == 1 \
                    and cut.slice.lower is None and isinstance(val, ast.BinOp) and isinstance(val.op, ast.Add) and val.left is cut \
                    and isinstance(val.right, ast.Tuple) and len(val.right.elts) == 1:
                ctx.check(R, key, True, "replaces the last element: idempotent", inner, st)
                continue
            idx = f"id({obj})"
            sets = {src(c.func.value) for c in ast.walk(lp) if isinstance(c, ast.Call) and isinstance(c.func, ast.Attribute) and c.func.attr == "add"
                    and len(c.args) == 1 and src(c.args[0]) == idx}
            # the add must follow the cut in the same block
            added = set()
            for blk in ast.walk(lp):
                for fld in ("body", "orelse"):
                    b = getattr(blk, fld, None)
                    if isinstance(b, list) and st in b:
                        for later in b[b.index(st) + 1:]:
                            for c in ast.walk(later):
                                if isinstance(c, ast.Call) and isinstance(c.func, ast.Attribute) and c.func.attr == "add" and len(c.args) == 1 and src(c.args[0]) == idx:
                                    added.add(src(c.func.value))
            guards = set()
            for iff in [x for x in ast.walk(lp) if isinstance(x, ast.If)]:
                t = iff.test
                if isinstance(t, ast.Compare) and len(t.ops) == 1 and src(t.left) == idx and src(t.comparators[0]) in sets:
                    s_ = src(t.comparators[0])
                    if isinstance(t.ops[0], ast.In) and iff.body and isinstance(iff.body[-1], ast.Continue) and iff.lineno < st.lineno \
                            and not any(y is st for y in ast.walk(iff)):
                        guards.add(s_)
                    if isinstance(t.ops[0], ast.NotIn) and any(y is st for b_ in iff.body for y in ast.walk(b_)):
                        guards.add(s_)
            ok = bool(guards & added)
            # the set is created outside this loop (it has to survive the rounds of the loop)
            if ok:
                s_ = sorted(guards & added)[0]
                inside = any(isinstance(a_, ast.Assign) and src(a_.targets[0]) == s_ for a_ in ast.walk(lp))
                ok = not inside
            ctx.check(R, key, ok, f"cut by `{src(up)}` " + (f"guarded by the set `{sorted(guards & added)[0]}`" if ok else
                      f"without a once-per-object guard (tests on {sorted(guards) or 'nothing'}, add after the cut to {sorted(added) or 'nothing'}): "
                      "a chain object shared by two parents is cut twice and loses operators"), inner, st)
    if not n:
        ctx.und(R, f"{inner.key}::in-place chain cuts", "none found", inner)


_run_c05z = run


def run(ctx):  # noqa: F811
    _run_c05z(ctx)
    r05_6(ctx, ctx.model)


# ---------------------------------------------------------------------------------------------------------------- R05.7
def r05_7(ctx, m):
    R = "R05.7"
    ctx.rule(R, "recognize_nodes and the node cut agree on the position of a node in a chain: the cut `chain._ops[:-1] + (placeholder,)` "
                "replaces the INNERMOST element and placeholders are bound at the root, so the only element of a chain that may be "
                "registered as a node is `op._ops[-1]`; a node registered from any other position (a loop over all positions) lives on "
                "the target of the operators below it and the rewrite raises or binds the wrong keys", floor=1)
    mod = m.module("nifty.cl.operator_tree_optimiser")
    fi = next((f for f in mod.all_functions if f.name == "recognize_nodes"), None)
    if fi is None:
        ctx.und(R, "nifty.cl.operator_tree_optimiser::recognize_nodes", "function missing", mod.relpath)
        return
    ctx.saw_func(fi)
    par = fi.node.args.args[0].arg
    n = 0
    for iff in [x for x in walk_no_nested(fi.node) if isinstance(x, ast.If) and "_OpChain" in src(x.test) and "isinstance" in src(x.test)]:
        for c in [c for b in iff.body for c in ast.walk(b) if isinstance(c, ast.Call) and src(c.func) == "nodes.append" and c.args]:
            n += 1
            el = c.args[0].elts[0] if isinstance(c.args[0], ast.Tuple) and c.args[0].elts else c.args[0]
            t = src(el).replace(" ", "")
            ok = t in (f"{par}._ops[-1]", f"{par}._ops[len({par}._ops)-1]")
            ctx.check(R, f"{fi.key}::a chain contributes only its innermost element as a node", ok,
                      f"`{src(el)}` registered as a node" + ("" if ok else ": not (only) the innermost element of the chain, but the cut replaces `_ops[-1]`"), fi, c)
    if not n:
        ctx.und(R, f"{fi.key}::node registration from a chain", "pattern not found", fi)


_run_c05w = run


def run(ctx):  # noqa: F811
    _run_c05w(ctx)
    r05_7(ctx, ctx.model)
