"""C06 - field arithmetic: delegation tables, domain rejection, conjugation side of dot products."""
import ast

from ..model import src, short, walk_no_nested, call_name
from ..util import cfg_of, find_nodes, known_atoms

FLD, MFLD, ANY, DD = "nifty.cl.field", "nifty.cl.multi_field", "nifty.cl.any_array", "nifty.cl.ducc_dispatch"
BIN18 = ["__add__", "__radd__", "__sub__", "__rsub__", "__mul__", "__rmul__", "__truediv__", "__rtruediv__",
         "__floordiv__", "__rfloordiv__", "__pow__", "__rpow__", "__lt__", "__le__", "__gt__", "__ge__", "__eq__", "__ne__"]
INPLACE = ["__iadd__", "__isub__", "__imul__", "__itruediv__", "__ifloordiv__", "__ipow__"]


def _loops(cls):
    out = []
    for loop, call in cls.synthetic.get("__loops__", []):
        names = None
        if isinstance(loop.iter, (ast.List, ast.Tuple)) and all(isinstance(e, ast.Constant) for e in loop.iter.elts):
            names = [e.value for e in loop.iter.elts]
        out.append((loop, call, names))
    return out


def _factory(loop, call):
    """setattr(C, op, func(op)) with def func(op): def func2(...): ...; return func2  -> (outer def, inner def)"""
    if not (isinstance(call.args[2], ast.Call) and isinstance(call.args[2].func, ast.Name)):
        return None, None
    fname = call.args[2].func.id
    passes_name = len(call.args[2].args) == 1 and src(call.args[2].args[0]) == src(call.args[1]) == loop.target.id
    outer = [s for s in loop.body if isinstance(s, ast.FunctionDef) and s.name == fname]
    if not outer or not passes_name:
        return None, None
    inner = [s for s in outer[0].body if isinstance(s, ast.FunctionDef)]
    ret = [s for s in outer[0].body if isinstance(s, ast.Return)]
    if not inner or not ret or src(ret[0].value) != inner[0].name:
        return outer[0], None
    return outer[0], inner[0]


def run(ctx):
    m = ctx.model
    F = m.cls(FLD, "Field")
    MF = m.cls(MFLD, "MultiField")
    A = m.cls(ANY, "AnyArray")
    for c in (F, MF, A):
        ctx.saw_class(c)
    ctx.rule("R06.1", "operator tables: Field and MultiField bind each of the 18 binary/comparison dunders exactly once to a "
                      "method that passes its own name to _binary_op, which resolves that same name on the wrapped value; all "
                      "in-place dunders raise; AnyArray's reduction table is name preserving", floor=40)
    for cls in (F, MF):
        loops = _loops(cls)
        bound = []
        for loop, call, names in loops:
            if names is None:
                ctx.und("R06.1", f"{cls.key}::setattr loop", "name list is not a literal", cls, loop)
                continue
            outer, inner = _factory(loop, call)
            if inner is None:
                ctx.und("R06.1", f"{cls.key}::setattr loop over {names[:2]}...", "factory idiom not recognised", cls, loop)
                continue
            opvar = outer.args.args[0].arg
            raises = any(isinstance(s, ast.Raise) for s in inner.body) and not any(isinstance(s, ast.Return) for s in ast.walk(inner))
            if set(names) & set(BIN18):
                rets = [s for s in ast.walk(inner) if isinstance(s, ast.Return)]
                good = len(rets) == 1 and isinstance(rets[0].value, ast.Call) and call_name(rets[0].value) == "_binary_op" \
                    and len(rets[0].value.args) == 2 and src(rets[0].value.args[1]) == opvar \
                    and src(rets[0].value.args[0]) == inner.args.args[1].arg and src(rets[0].value.func.value) == inner.args.args[0].arg
                for nme in names:
                    bound.append(nme)
                    ctx.check("R06.1", f"{cls.key}::{nme} -> self._binary_op(other, '{nme}')", good,
                              f"generated method body: {short(inner.body[-1])}", cls, loop)
            else:
                for nme in names:
                    ctx.check("R06.1", f"{cls.key}::{nme} raises (fields are immutable)", raises, None, cls, loop)
                miss = [x for x in INPLACE if x not in names]
                ctx.check("R06.1", f"{cls.key}::all in-place dunders are disabled", not miss, f"missing {miss}", cls, loop)
        dup = sorted({x for x in bound if bound.count(x) > 1})
        miss = [x for x in BIN18 if x not in bound]
        ctx.check("R06.1", f"{cls.key}::the 18 binary dunders are bound exactly once", not dup and not miss,
                  f"duplicates {dup}, missing {miss}", cls)
        # explicit method definitions must not shadow / contradict the table
        shadow = [x for x in BIN18 if x in cls.methods]
        ctx.check("R06.1", f"{cls.key}::no hand-written dunder competes with the table", not shadow, f"{shadow}", cls)
    # _binary_op resolves the very name it was given
    fb = F.methods["_binary_op"]
    ctx.saw_func(fb)
    opn = fb.params()[2]
    g = [n for n in walk_no_nested(fb.node) if isinstance(n, ast.Call) and isinstance(n.func, ast.Name) and n.func.id == "getattr"]
    ctx.check("R06.1", f"{fb.key}::resolves `{opn}` on the wrapped array", len(g) == 1 and src(g[0].args[0]) == "self._val" and src(g[0].args[1]) == opn,
              f"{[src(x) for x in g]}", fb)
    # the resolved function is applied to the other operand's array / the scalar unchanged
    fname = None
    for st in fb.node.body:
        if isinstance(st, ast.Assign) and st.value in g:
            fname = st.targets[0].id
    appl = [n for n in walk_no_nested(fb.node) if isinstance(n, ast.Call) and isinstance(n.func, ast.Name) and n.func.id == fname]
    args = sorted(src(a.args[0]) for a in appl if a.args)
    oth = fb.params()[1]
    ctx.check("R06.1", f"{fb.key}::applies it to the other operand unchanged", args == sorted([f"{oth}._val", oth]), f"applied to {args}", fb)
    mb = MF.methods["_binary_op"]
    ctx.saw_func(mb)
    opn = mb.params()[2]
    g = [n for n in walk_no_nested(mb.node) if isinstance(n, ast.Call) and isinstance(n.func, ast.Name) and n.func.id == "getattr"]
    ctx.check("R06.1", f"{mb.key}::resolves `{opn}` on Field", len(g) == 1 and src(g[0].args[0]) == "Field" and src(g[0].args[1]) == opn,
              f"{[src(x) for x in g]}", mb)
    # key-wise pairing: zip(self._val, other._val) with f(v1, v2) in this order
    pair_ok = False
    for n in ast.walk(mb.node):
        if isinstance(n, ast.GeneratorExp) and isinstance(n.elt, ast.Call) and len(n.elt.args) == 2 \
                and isinstance(n.generators[0].iter, ast.Call) and call_name(n.generators[0].iter) == "zip":
            z = [src(a) for a in n.generators[0].iter.args]
            tg = [src(e) for e in n.generators[0].target.elts] if isinstance(n.generators[0].target, ast.Tuple) else []
            if z == ["self._val", f"{mb.params()[1]}._val"] and [src(a) for a in n.elt.args] == tg:
                pair_ok = True
    ctx.check("R06.1", f"{mb.key}::combines entries key by key in operand order", pair_ok, None, mb)
    # AnyArray reductions
    for loop, call, names in _loops(A):
        if names and "sum" in names:
            outer, inner = _factory(loop, call)
            good = False
            if inner is not None:
                opvar = outer.args.args[0].arg
                gg = [n for n in ast.walk(inner) if isinstance(n, ast.Call) and isinstance(n.func, ast.Name) and n.func.id == "getattr"]
                good = len(gg) == 1 and src(gg[0].args[0]) == "self._val" and src(gg[0].args[1]) == opvar
            for nme in names:
                ctx.check("R06.1", f"{A.key}::{nme} -> getattr(self._val, '{nme}')", good, None, A, loop)

    # ------------------------------------------------------------------ R06.2
    ctx.rule("R06.2", "operands on different domains are rejected before any computation: check_object_identity(other "
                      "domain, own domain) dominates the computation on the field-operand path", floor=7)
    sites = [(F, "_binary_op"), (F, "vdot"), (F, "s_vdot"), (MF, "_binary_op"), (MF, "s_vdot"), (F, "extract"), (F, "extract_part")]
    for cls, name in sites:
        fi = cls.methods.get(name)
        if fi is None:
            ctx.error(f"{cls.name}.{name} missing")
            continue
        ctx.saw_func(fi)
        cfg = cfg_of(fi)
        other = fi.params()[1]
        chks = [(n, c) for n, c in find_nodes(cfg, lambda q: isinstance(q, ast.Call) and call_name(q) == "check_object_identity")]
        key = f"{fi.key}::domain identity check dominates the computation"
        good_chk = [n for n, c in chks if len(c.args) == 2 and
                    {src(c.args[0]), src(c.args[1])} in ({f"{other}._domain", "self._domain"}, {f"{other}.domain", "self._domain"},
                                                         {other, "self._domain"}, {f"{other}._domain", "self.domain"})]
        if not good_chk:
            ctx.bad("R06.2", key, f"no check_object_identity between `{other}`'s domain and self._domain "
                                  f"(found {[short(c) for _, c in chks]})", fi)
            continue
        # computations: statements using other._val / returning, on paths where `other` is a field
        avoid = [n.id for n in good_chk]
        reach = cfg.reachable(cfg.entry.id, avoid=avoid, include_exc=False)
        off = []
        for i in reach:
            n = cfg.nodes[i]
            if n.ast is None or n.kind in ("entry", "exit", "raise"):
                continue
            txt = n.text()
            uses_other_data = any(isinstance(x, ast.Attribute) and isinstance(x.value, ast.Name) and x.value.id == other
                                  and x.attr in ("_val", "val") for x in ast.walk(n.ast)) if n.kind == "stmt" else False
            if uses_other_data:
                off.append(n)
            if n.kind == "stmt" and isinstance(n.ast, ast.Return) and name in ("extract", "extract_part", "vdot", "s_vdot"):
                off.append(n)
        ctx.check("R06.2", key, not off, f"`{off[0].text()[:70]}` is reachable without the domain check" if off else None, fi,
                  off[0].ast if off else None)

    # ------------------------------------------------------------------ R06.3
    ctx.rule("R06.3", "conjugate-linear first argument: argument order is preserved along Field.vdot/s_vdot -> AnyArray.vdot "
                      "-> cpu vdot -> {ducc0.misc.vdot | np.vdot}(a, b); the partial dot product conjugates self", floor=5)
    for name in ("vdot", "s_vdot"):
        fi = F.methods[name]
        x = fi.params()[1]
        calls = [c for c in walk_no_nested(fi.node) if isinstance(c, ast.Call) and call_name(c) == "vdot"]
        ctx.check("R06.3", f"{fi.key}::self._val.vdot({x}._val)",
                  len(calls) == 1 and src(calls[0].func.value) == "self._val" and [src(a) for a in calls[0].args] == [f"{x}._val"],
                  f"{[short(c) for c in calls]}", fi)
    fi = F.methods["vdot"]
    x = fi.params()[1]
    part = [r for r in walk_no_nested(fi.node) if isinstance(r, ast.Return) and "conjugate" in src(r.value)]
    ctx.check("R06.3", f"{fi.key}::partial dot product conjugates self, not {x}",
              len(part) == 1 and src(part[0].value).replace(" ", "") in (f"(self.conjugate()*{x}).sum(spaces=spaces)", f"({x}*self.conjugate()).sum(spaces=spaces)"),
              f"{[short(p) for p in part]}", fi)
    av = A.methods["vdot"]
    ctx.saw_func(av)
    x = av.params()[1]
    for c in [c for c in walk_no_nested(av.node) if isinstance(c, ast.Call) and call_name(c) in ("cpu_vdot", "vdot") and len(c.args) == 2]:
        ctx.check("R06.3", f"{av.key}::{short(c)}", [src(a) for a in c.args] == ["self._val", f"{x}._val"], None, av, c)
    ctx.check("R06.3", f"{ANY}::cpu_vdot is ducc_dispatch.vdot", A.module.imports.get("cpu_vdot") == f"{DD}.vdot", A.module.imports.get("cpu_vdot"), av)
    dd = m.module(DD)
    n_impl = 0
    for fi in dd.all_functions:
        if fi.name in ("vdot", "_scipy_vdot"):
            ctx.saw_func(fi)
            a, b = fi.params()[:2]
            for r in [r for r in walk_no_nested(fi.node) if isinstance(r, ast.Return)]:
                if isinstance(r.value, ast.Call) and call_name(r.value) == "vdot":
                    n_impl += 1
                    ctx.check("R06.3", f"{fi.key}::{short(r)}", [src(z) for z in r.value.args] == [a, b], None, fi, r)
    # module level binding in the except branch: vdot = _scipy_vdot
    bind = [n for n in ast.walk(dd.tree) if isinstance(n, ast.Assign) and any(isinstance(t, ast.Name) and t.id == "vdot" for t in n.targets)]
    for bnd in bind:
        ctx.check("R06.3", f"{dd.relpath}::{short(bnd)}", src(bnd.value) == "_scipy_vdot", None, dd.relpath, bnd)
    if n_impl < 2:
        ctx.error("R06.3: expected two vdot back ends in ducc_dispatch")
    mv = MF.methods["s_vdot"]
    ctx.saw_func(mv)
    x = mv.params()[1]
    okk = False
    for n in ast.walk(mv.node):
        if isinstance(n, ast.For) and isinstance(n.iter, ast.Call) and call_name(n.iter) == "zip" \
                and [src(a) for a in n.iter.args] == ["self._val", f"{x}._val"] and isinstance(n.target, ast.Tuple):
            a, b = [src(e) for e in n.target.elts]
            okk = any(isinstance(c, ast.Call) and call_name(c) == "s_vdot" and src(c.func.value) == a and [src(z) for z in c.args] == [b]
                      for c in ast.walk(n))
    ctx.check("R06.3", f"{mv.key}::entry-wise v_self.s_vdot(v_other)", okk, None, mv)


def r06_4(ctx):
    """Field.var (partial) and Field.s_var (full) are two implementations of one formula on non-uniform volumes"""
    from ..sibling import guarded_assignments
    m = ctx.model
    F = m.cls(FLD, "Field")
    ctx.rule("R06.4", "sibling agreement of Field.var and Field.s_var on non-uniform volumes: both average |x - mean|^2 for complex and "
                      "(x - mean)^2 for real fields (the squared deviation is selected by the same complex-dtype test)", floor=1)
    forms = {}
    for name in ("var", "s_var"):
        fi = F.methods.get(name)
        if fi is None:
            ctx.error(f"Field.{name} missing")
            return
        ctx.saw_func(fi)
        rets = [r for r in walk_no_nested(fi.node) if isinstance(r, ast.Return)]
        # the averaged quantity: receiver of the final .mean(...)/.s_mean() call
        sqn = None
        for r in rets:
            v = r.value
            if isinstance(v, ast.Call) and call_name(v) in ("mean", "s_mean") and isinstance(v.func.value, ast.Name):
                sqn = v.func.value.id
        mean_names = {src(g.stmt.targets[0]) for g in guarded_assignments(fi.node) if isinstance(g.value, ast.Call) and call_name(g.value) in ("mean", "s_mean", "adjoint_times")}
        fs = set()
        for g in guarded_assignments(fi.node):
            if g.target == sqn:
                t = src(g.value)
                for mn_ in sorted(mean_names, key=len, reverse=True):
                    t = t.replace(mn_, "<mean>")
                cplx = [("" if not (isinstance(a, ast.UnaryOp)) else "not ") + "complex" for a in g.guards if "iscomplextype" in src(a)]
                fs.add((tuple(cplx), t))
        forms[name] = fs
    want = {(("complex",), "abs(self - <mean>) ** 2"), (("not complex",), "(self - <mean>) ** 2")}
    same = forms["var"] == forms["s_var"]
    ctx.check("R06.4", f"{F.key}::var and s_var use the same squared deviation per dtype", (same and forms["var"] == want) if forms["var"] and forms["s_var"] else None,
              f"var {sorted(forms['var'])} vs s_var {sorted(forms['s_var'])}" + ("" if same else ": the partial and the full variance of the same complex field differ"), F)


def r06_5(ctx):
    """a lossy cast of a dot-product operand is guarded by that operand's own dtype test"""
    m = ctx.model
    dd = m.module(DD)
    ctx.rule("R06.5", "in the dot-product back ends an operand is cast to float64 only under a test of its OWN dtype being integer "
                      "(a cast triggered by the other operand silently drops the imaginary part of a complex operand)", floor=2)
    for fi in dd.all_functions:
        if fi.name not in ("vdot", "_scipy_vdot"):
            continue
        cfg = cfg_of(fi)
        for n in cfg.nodes:
            if n.kind != "stmt" or not isinstance(n.ast, ast.Assign):
                continue
            tg = n.ast.targets[0]
            pairs = []
            if isinstance(tg, ast.Name):
                pairs = [(tg.id, n.ast.value)]
            elif isinstance(tg, ast.Tuple) and isinstance(n.ast.value, ast.Tuple) and len(tg.elts) == len(n.ast.value.elts):
                pairs = [(t.id, v) for t, v in zip(tg.elts, n.ast.value.elts) if isinstance(t, ast.Name)]
            for nm, v in pairs:
                if isinstance(v, ast.Call) and call_name(v) == "astype" and src(v.func.value) == nm and "float" in src(v):
                    atoms = known_atoms(cfg, n.id)
                    own = any(pol and src(t) == f"np.issubdtype({nm}.dtype, np.integer)" for t, pol in atoms)
                    ctx.check("R06.5", f"{fi.key}::`{nm} = {src(v)}` only if {nm} itself is an integer array", own,
                              f"guards {[('' if p else 'not ') + src(t) for t, p in atoms]}", fi, n.ast)


_run_c06 = run


def run(ctx):  # noqa: F811
    _run_c06(ctx)
    r06_4(ctx)
    r06_5(ctx)
