"""C06 - field arithmetic: delegation tables, domain rejection, conjugation side of dot products."""
import ast

from ..model import src, short, walk_no_nested, call_name
from ..util import cfg_of, find_nodes, known_atoms

FLD, MFLD, ANY, DD = "nifty.cl.field", "nifty.cl.multi_field", "nifty.cl.any_array", "nifty.cl.ducc_dispatch"
BIN18 = ["__add__", "__radd__", "__sub__", "__rsub__", "__mul__", "__rmul__", "__truediv__", "__rtruediv__",
         "__floordiv__", "__rfloordiv__", "__pow__", "__rpow__", "__lt__", "__le__", "__gt__", "__ge__", "__eq__", "__ne__"]
INPLACE = ["__iadd__", "__isub__", "__imul__", "__itruediv__", "__ifloordiv__", "__ipow__"]


def _loops(cls):
    out = []
    for loop, call in cls.synthetic.get("__loops__", []):
        names = None
        if isinstance(loop.iter, (ast.List, ast.Tuple)) and all(isinstance(e, ast.Constant) for e in loop.iter.elts):
            names = [e.value for e in loop.iter.elts]
        out.append((loop, call, names))
    return out


def _factory(loop, call):
    """setattr(C, op, func(op)) with def func(op): def func2(...): ...; return func2  -> (outer def, inner def)"""
    if not (isinstance(call.args[2], ast.Call) and isinstance(call.args[2].func, ast.Name)):
        return None, None
    fname = call.args[2].func.id
    passes_name = len(call.args[2].args) == 1 and src(call.args[2].args[0]) == src(call.args[1]) == loop.target.id
    outer = [s for s in loop.body if isinstance(s, ast.FunctionDef) and s.name == fname]
    if not outer or not passes_name:
        return None, None
    inner = [s for s in outer[0].body if isinstance(s, ast.FunctionDef)]
    ret = [s for s in outer[0].body if isinstance(s, ast.Return)]
    if not inner or not ret or src(ret[0].value) != inner[0].name:
        return outer[0], None
    return outer[0], inner[0]


def run(ctx):
    m = ctx.model
    F = m.cls(FLD, "Field")
    MF = m.cls(MFLD, "MultiField")
    A = m.cls(ANY, "AnyArray")
    for c in (F, MF, A):
        ctx.saw_class(c)
    ctx.rule("R06.1", "operator tables: Field and MultiField bind each of the 18 binary/comparison dunders exactly once to a "
                      "method that passes its own name to _binary_op, which resolves that same name on the wrapped value; all "
                      "in-place dunders raise; AnyArray's reduction table is name preserving", floor=40)
    for cls in (F, MF):
        loops = _loops(cls)
        bound = []
        for loop, call, names in loops:
            if names is None:
                ctx.und("R06.1", f"{cls.key}::setattr loop", "name list is not a literal", cls, loop)
                continue
            outer, inner = _factory(loop, call)
            if inner is None:
                ctx.und("R06.1", f"{cls.key}::setattr loop over {names[:2]}...", "factory idiom not recognised", cls, loop)
                continue
            opvar = outer.args.args[0].arg
            raises = any(isinstance(s, ast.Raise) for s in inner.body) and not any(isinstance(s, ast.Return) for s in ast.walk(inner))
            if set(names) & set(BIN18):
                rets = [s for s in ast.walk(inner) if isinstance(s, ast.Return)]
                good = len(rets) == 1 and isinstance(rets[0].value, ast.Call) and call_name(rets[0].value) == "_binary_op" \
                    and len(rets[0].value.args) == 2 and src(rets[0].value.args[1]) == opvar \
                    and src(rets[0].value.args[0]) == inner.args.args[1].arg and src(rets[0].value.func.value) == inner.args.args[0].arg
                for nme in names:
                    bound.append(nme)
                    ctx.check("R06.1", f"{cls.key}::{nme} -> self._binary_op(other, '{nme}')", good,
                              f"generated method body: {short(inner.body[-1])}", cls, loop)
            else:
                for nme in names:
                    ctx.check("R06.1", f"{cls.key}::{nme} raises (fields are immutable)", raises, None, cls, loop)
                miss = [x for x in INPLACE if x not in names]
                ctx.check("R06.1", f"{cls.key}::all in-place dunders are disabled", not miss, f"missing {miss}", cls, loop)
        dup = sorted({x for x in bound if bound.count(x) > 1})
        miss = [x for x in BIN18 if x not in bound]
        ctx.check("R06.1", f"{cls.key}::the 18 binary dunders are bound exactly once", not dup and not miss,
                  f"duplicates {dup}, missing {miss}", cls)
        # explicit method definitions must not shadow / contradict the table
        shadow = [x for x in BIN18 if x in cls.methods]
        ctx.check("R06.1", f"{cls.key}::no hand-written dunder competes with the table", not shadow, f"{shadow}", cls)
    # _binary_op resolves the very name it was given
    fb = F.methods["_binary_op"]
    ctx.saw_func(fb)
    opn = fb.params()[2]
    g = [n for n in walk_no_nested(fb.node) if isinstance(n, ast.Call) and isinstance(n.func, ast.Name) and n.func.id == "getattr"]
    ctx.check("R06.1", f"{fb.key}::resolves `{opn}` on the wrapped array", len(g) == 1 and src(g[0].args[0]) == "self._val" and src(g[0].args[1]) == opn,
              f"{[src(x) for x in g]}", fb)
    # the resolved function is applied to the other operand's array / the scalar unchanged
    fname = None
    for st in fb.node.body:
        if isinstance(st, ast.Assign) and st.value in g:
            fname = st.targets[0].id
    appl = [n for n in walk_no_nested(fb.node) if isinstance(n, ast.Call) and isinstance(n.func, ast.Name) and n.func.id == fname]
    args = sorted(src(a.args[0]) for a in appl if a.args)
    oth = fb.params()[1]
    ctx.check("R06.1", f"{fb.key}::applies it to the other operand unchanged", args == sorted([f"{oth}._val", oth]), f"applied to {args}", fb)
    mb = MF.methods["_binary_op"]
    ctx.saw_func(mb)
    opn = mb.params()[2]
    g = [n for n in walk_no_nested(mb.node) if isinstance(n, ast.Call) and isinstance(n.func, ast.Name) and n.func.id == "getattr"]
    ctx.check("R06.1", f"{mb.key}::resolves `{opn}` on Field", len(g) == 1 and src(g[0].args[0]) == "Field" and src(g[0].args[1]) == opn,
              f"{[src(x) for x in g]}", mb)
    # key-wise pairing: zip(self._val, other._val) with f(v1, v2) in this order
    pair_ok = False
    for n in ast.walk(mb.node):
        if isinstance(n, ast.GeneratorExp) and isinstance(n.elt, ast.Call) and len(n.elt.args) == 2 \
                and isinstance(n.generators[0].iter, ast.Call) and call_name(n.generators[0].iter) == "zip":
            z = [src(a) for a in n.generators[0].iter.args]
            tg = [src(e) for e in n.generators[0].target.elts] if isinstance(n.generators[0].target, ast.Tuple) else []
            if z == ["self._val", f"{mb.params()[1]}._val"] and [src(a) for a in n.elt.args] == tg:
                pair_ok = True
    ctx.check("R06.1", f"{mb.key}::combines entries key by key in operand order", pair_ok, None, mb)
    # AnyArray reductions
    for loop, call, names in _loops(A):
        if names and "sum" in names:
            outer, inner = _factory(loop, call)
            good = False
            if inner is not None:
                opvar = outer.args.args[0].arg
                gg = [n for n in ast.walk(inner) if isinstance(n, ast.Call) and isinstance(n.func, ast.Name) and n.func.id == "getattr"]
                good = len(gg) == 1 and src(gg[0].args[0]) == "self._val" and src(gg[0].args[1]) == opvar
            for nme in names:
                ctx.check("R06.1", f"{A.key}::{nme} -> getattr(self._val, '{nme}')", good, None, A, loop)

    # ------------------------------------------------------------------ R06.2
    ctx.rule("R06.2", "operands on different domains are rejected before any computation: check_object_identity(other "
                      "domain, own domain) dominates the computation on the field-operand path", floor=7)
    sites = [(F, "_binary_op"), (F, "vdot"), (F, "s_vdot"), (MF, "_binary_op"), (MF, "s_vdot"), (F, "extract"), (F, "extract_part")]
    for cls, name in sites:
        fi = cls.methods.get(name)
        if fi is None:
            ctx.error(f"{cls.name}.{name} missing")
            continue
        ctx.saw_func(fi)
        cfg = cfg_of(fi)
        other = fi.params()[1]
        chks = [(n, c) for n, c in find_nodes(cfg, lambda q: isinstance(q, ast.Call) and call_name(q) == "check_object_identity")]
        key = f"{fi.key}::domain identity check dominates the computation"
        good_chk = [n for n, c in chks if len(c.args) == 2 and
                    {src(c.args[0]), src(c.args[1])} in ({f"{other}._domain", "self._domain"}, {f"{other}.domain", "self._domain"},
                                                         {other, "self._domain"}, {f"{other}._domain", "self.domain"})]
        if not good_chk:
            ctx.bad("R06.2", key, f"no check_object_identity between `{other}`'s domain and self._domain "
                                  f"(found {[short(c) for _, c in chks]})", fi)
            continue
        # computations: statements using other._val / returning, on paths where `other` is a field
        avoid = [n.id for n in good_chk]
        reach = cfg.reachable(cfg.entry.id, avoid=avoid, include_exc=False)
        off = []
        for i in reach:
            n = cfg.nodes[i]
            if n.ast is None or n.kind in ("entry", "exit", "raise"):
                continue
            txt = n.text()
            uses_other_data = any(isinstance(x, ast.Attribute) and isinstance(x.value, ast.Name) and x.value.id == other
                                  and x.attr in ("_val", "val") for x in ast.walk(n.ast)) if n.kind == "stmt" else False
            if uses_other_data:
                off.append(n)
            if n.kind == "stmt" and isinstance(n.ast, ast.Return) and name in ("extract", "extract_part", "vdot", "s_vdot"):
                off.append(n)
        ctx.check("R06.2", key, not off, f"`{off[0].text()[:70]}` is reachable without the domain check" if off else None, fi,
                  off[0].ast if off else None)

    # ------------------------------------------------------------------ R06.3
    ctx.rule("R06.3", "conjugate-linear first argument: argument order is preserved along Field.vdot/s_vdot -> AnyArray.vdot "
                      "-> cpu vdot -> {ducc0.misc.vdot | np.vdot}(a, b); the partial dot product conjugates self", floor=5)
    for name in ("vdot", "s_vdot"):
        fi = F.methods[name]
        x = fi.params()[1]
        calls = [c for c in walk_no_nested(fi.node) if isinstance(c, ast.Call) and call_name(c) == "vdot"]
        ctx.check("R06.3", f"{fi.key}::self._val.vdot({x}._val)",
                  len(calls) == 1 and src(calls[0].func.value) == "self._val" and [src(a) for a in calls[0].args] == [f"{x}._val"],
                  f"{[short(c) for c in calls]}", fi)
    fi = F.methods["vdot"]
    x = fi.params()[1]
    part = [r for r in walk_no_nested(fi.node) if isinstance(r, ast.Return) and "conjugate" in src(r.value)]
    ctx.check("R06.3", f"{fi.key}::partial dot product conjugates self, not {x}",
              len(part) == 1 and src(part[0].value).replace(" ", "") in (f"(self.conjugate()*{x}).sum(spaces=spaces)", f"({x}*self.conjugate()).sum(spaces=spaces)"),
              f"{[short(p) for p in part]}", fi)
    av = A.methods["vdot"]
    ctx.saw_func(av)
    x = av.params()[1]
    for c in [c for c in walk_no_nested(av.node) if isinstance(c, ast.Call) and call_name(c) in ("cpu_vdot", "vdot") and len(c.args) == 2]:
        ctx.check("R06.3", f"{av.key}::{short(c)}", [src(a) for a in c.args] == ["self._val", f"{x}._val"], None, av, c)
    ctx.check("R06.3", f"{ANY}::cpu_vdot is ducc_dispatch.vdot", A.module.imports.get("cpu_vdot") == f"{DD}.vdot", A.module.imports.get("cpu_vdot"), av)
    dd = m.module(DD)
    n_impl = 0
    for fi in dd.all_functions:
        if fi.name in ("vdot", "_scipy_vdot"):
            ctx.saw_func(fi)
            a, b = fi.params()[:2]
            for r in [r for r in walk_no_nested(fi.node) if isinstance(r, ast.Return)]:
                if isinstance(r.value, ast.Call) and call_name(r.value) == "vdot":
                    n_impl += 1
                    ctx.check("R06.3", f"{fi.key}::{short(r)}", [src(z) for z in r.value.args] == [a, b], None, fi, r)
    # module level binding in the except branch: vdot = _scipy_vdot
    bind = [n for n in ast.walk(dd.tree) if isinstance(n, ast.Assign) and any(isinstance(t, ast.Name) and t.id == "vdot" for t in n.targets)]
    for bnd in bind:
        ctx.check("R06.3", f"{dd.relpath}::{short(bnd)}", src(bnd.value) == "_scipy_vdot", None, dd.relpath, bnd)
    if n_impl < 2:
        ctx.error("R06.3: expected two vdot back ends in ducc_dispatch")
    mv = MF.methods["s_vdot"]
    ctx.saw_func(mv)
    x = mv.params()[1]
    okk = False
    for n in ast.walk(mv.node):
        if isinstance(n, ast.For) and isinstance(n.iter, ast.Call) and call_name(n.iter) == "zip" \
                and [src(a) for a in n.iter.args] == ["self._val", f"{x}._val"] and isinstance(n.target, ast.Tuple):
            a, b = [src(e) for e in n.target.elts]
            okk = any(isinstance(c, ast.Call) and call_name(c) == "s_vdot" and src(c.func.value) == a and [src(z) for z in c.args] == [b]
                      for c in ast.walk(n))
    ctx.check("R06.3", f"{mv.key}::entry-wise v_self.s_vdot(v_other)", okk, None, mv)


def r06_4(ctx):
    """Field.var (partial) and Field.s_var (full) are two implementations of one formula on non-uniform volumes"""
    from ..sibling import guarded_assignments
    m = ctx.model
    F = m.cls(FLD, "Field")
    ctx.rule("R06.4", "sibling agreement of Field.var and Field.s_var on non-uniform volumes: both average |x - mean|^2 for complex and "
                      "(x - mean)^2 for real fields (the squared deviation is selected by the same complex-dtype test)", floor=1)
    forms = {}
    for name in ("var", "s_var"):
        fi = F.methods.get(name)
        if fi is None:
            ctx.error(f"Field.{name} missing")
            return
        ctx.saw_func(fi)
        rets = [r for r in walk_no_nested(fi.node) if isinstance(r, ast.Return)]
        # the averaged quantity: receiver of the final .mean(...)/.s_mean() call
        sqn = None
        for r in rets:
            v = r.value
            if isinstance(v, ast.Call) and call_name(v) in ("mean", "s_mean") and isinstance(v.func.value, ast.Name):
                sqn = v.func.value.id
        mean_names = {src(g.stmt.targets[0]) for g in guarded_assignments(fi.node) if isinstance(g.value, ast.Call) and call_name(g.value) in ("mean", "s_mean", "adjoint_times")}
        fs = set()
        for g in guarded_assignments(fi.node):
            if g.target == sqn:
                t = src(g.value)
                for mn_ in sorted(mean_names, key=len, reverse=True):
                    t = t.replace(mn_, "<mean>")
                cplx = [("" if not (isinstance(a, ast.UnaryOp)) else "not ") + "complex" for a in g.guards if "iscomplextype" in src(a)]
                fs.add((tuple(cplx), t))
        forms[name] = fs
    want = {(("complex",), "abs(self - <mean>) ** 2"), (("not complex",), "(self - <mean>) ** 2")}
    same = forms["var"] == forms["s_var"]
    ctx.check("R06.4", f"{F.key}::var and s_var use the same squared deviation per dtype", (same and forms["var"] == want) if forms["var"] and forms["s_var"] else None,
              f"var {sorted(forms['var'])} vs s_var {sorted(forms['s_var'])}" + ("" if same else ": the partial and the full variance of the same complex field differ"), F)


def r06_5(ctx):
    """a lossy cast of a dot-product operand is guarded by that operand's own dtype test"""
    m = ctx.model
    dd = m.module(DD)
    ctx.rule("R06.5", "in the dot-product back ends an operand is cast to float64 only under a test of its OWN dtype being integer "
                      "(a cast triggered by the other operand silently drops the imaginary part of a complex operand)", floor=2)
    for fi in dd.all_functions:
        if fi.name not in ("vdot", "_scipy_vdot"):
            continue
        cfg = cfg_of(fi)
        for n in cfg.nodes:
            if n.kind != "stmt" or not isinstance(n.ast, ast.Assign):
                continue
            tg = n.ast.targets[0]
            pairs = []
            if isinstance(tg, ast.Name):
                pairs = [(tg.id, n.ast.value)]
            elif isinstance(tg, ast.Tuple) and isinstance(n.ast.value, ast.Tuple) and len(tg.elts) == len(n.ast.value.elts):
                pairs = [(t.id, v) for t, v in zip(tg.elts, n.ast.value.elts) if isinstance(t, ast.Name)]
            for nm, v in pairs:
                if isinstance(v, ast.Call) and call_name(v) == "astype" and src(v.func.value) == nm and "float" in src(v):
                    atoms = known_atoms(cfg, n.id)
                    own = any(pol and src(t) == f"np.issubdtype({nm}.dtype, np.integer)" for t, pol in atoms)
                    ctx.check("R06.5", f"{fi.key}::`{nm} = {src(v)}` only if {nm} itself is an integer array", own,
                              f"guards {[('' if p else 'not ') + src(t) for t, p in atoms]}", fi, n.ast)


def _p_norm_reader(sp, e, vec, ordn, V, P):
    """2-entry symbolic reading of an aggregate of the vector `vec` of partial norms"""
    def is_vec(v):
        return isinstance(v, tuple)

    def ev(x):
        if isinstance(x, ast.Constant) and isinstance(x.value, (int, float)) and not isinstance(x.value, bool):
            return sp.nsimplify(x.value)
        if isinstance(x, ast.Name):
            if x.id == vec:
                return V
            if x.id == ordn:
                return P
            raise ValueError(x.id)
        if isinstance(x, ast.UnaryOp) and isinstance(x.op, ast.USub):
            v = ev(x.operand)
            return tuple(-a for a in v) if is_vec(v) else -v
        if isinstance(x, ast.BinOp) and type(x.op) in (ast.Add, ast.Sub, ast.Mult, ast.Div, ast.Pow):
            a, b = ev(x.left), ev(x.right)
            f = {ast.Add: lambda u, w: u + w, ast.Sub: lambda u, w: u - w, ast.Mult: lambda u, w: u * w,
                 ast.Div: lambda u, w: u / w, ast.Pow: lambda u, w: u ** w}[type(x.op)]
            if is_vec(a) and is_vec(b):
                return tuple(f(u, w) for u, w in zip(a, b))
            if is_vec(a):
                return tuple(f(u, b) for u in a)
            if is_vec(b):
                return tuple(f(a, w) for w in b)
            return f(a, b)
        if isinstance(x, ast.Call):
            nm = call_name(x)
            t = src(x.func)
            kws = {k.arg: k.value for k in x.keywords}
            if isinstance(x.func, ast.Attribute) and nm == "sum" and not x.args and not kws and t not in ("np.sum", "numpy.sum"):
                v = ev(x.func.value)
                if is_vec(v):
                    return sum(v)
            if t in ("np.sum", "numpy.sum", "sum") and len(x.args) == 1 and not kws:
                v = ev(x.args[0])
                if is_vec(v):
                    return sum(v)
            if t in ("np.abs", "numpy.abs", "abs", "np.sqrt", "numpy.sqrt") and len(x.args) == 1:
                v = ev(x.args[0])
                fn = sp.sqrt if t.endswith("sqrt") else sp.Abs
                return tuple(fn(a) for a in v) if is_vec(v) else fn(v)
            if t in ("np.linalg.norm", "numpy.linalg.norm") and x.args:
                v = ev(x.args[0])
                o = x.args[1] if len(x.args) > 1 else kws.get("ord")
                if is_vec(v) and set(kws) <= {"ord"}:
                    q = sp.Integer(2) if o is None else ev(o)
                    if not is_vec(q):
                        return sum(sp.Abs(a) ** q for a in v) ** (1 / q)
        raise ValueError(src(x)[:60])
    return ev(e)


def r06_6(ctx):
    """the order of the norm reaches the array computation on every layer; the multi-field norm is the p-norm of the partial p-norms"""
    from .c03 import _load_sympy
    from ..terms import inline_at
    m = ctx.model
    F, MF, A = m.cls(FLD, "Field"), m.cls(MFLD, "MultiField"), m.cls(ANY, "AnyArray")
    ctx.rule("R06.6", "norm(ord): Field.norm hands `ord` to AnyArray.norm, which hands it to numpy.linalg.norm of the flattened "
                      "array; MultiField.norm takes the per-entry norms with the same `ord` and combines them as "
                      "(sum_k n_k**ord)**(1/ord) (maximum for ord == inf) - read on a two-entry symbolic vector, sympy as term normaliser", floor=4)

    def passes_ord(fi, recv_pred, what):
        ordn = fi.params()[1] if len(fi.params()) > 1 else None
        calls = [c for c in walk_no_nested(fi.node) if isinstance(c, ast.Call) and call_name(c) == "norm" and recv_pred(c)]
        key = f"{fi.key}::{what}"
        if ordn is None or len(calls) != 1:
            ctx.und("R06.6", key, f"{len(calls)} delegating norm calls", fi)
            return
        c = calls[0]
        kws = {k.arg: src(k.value) for k in c.keywords}
        given = kws.get("ord") or (src(c.args[-1]) if len(c.args) >= (2 if src(c.func).endswith("linalg.norm") else 1) else None)
        ctx.check("R06.6", key, given == ordn, f"`{src(c)}` does not receive `{ordn}`: every order is computed as the default one", fi, c)
    fn, an, mn = F.methods.get("norm"), A.methods.get("norm"), MF.methods.get("norm")
    if fn is None or an is None or mn is None:
        ctx.error("R06.6: a norm method is missing")
        return
    for fi in (fn, an, mn):
        ctx.saw_func(fi)
    passes_ord(fn, lambda c: src(c.func) == "self._val.norm", "self._val.norm(ord)")
    passes_ord(an, lambda c: src(c.func) in ("np.linalg.norm", "numpy.linalg.norm"), "np.linalg.norm(flat, ord)")
    # ... on every path: no shortcut that answers from the memory layout or from a single element
    from ..terms import inline_at as _inl
    cfg_an = cfg_of(an)
    rd_an = cfg_an.reaching_defs(an.params())
    for n_ in cfg_an.nodes:
        if n_.kind == "stmt" and isinstance(n_.ast, ast.Return) and n_.ast.value is not None:
            e_ = _inl(cfg_an, rd_an, n_.id, n_.ast.value, depth=4)
            through = any(isinstance(c_, ast.Call) and src(c_.func) in ("np.linalg.norm", "numpy.linalg.norm") for c_ in ast.walk(e_))
            ctx.check("R06.6", f"{an.key}::`{short(n_.ast, 50)}` is the numpy norm of the flattened array", through,
                      f"`{src(e_)[:90]}` is not computed from all entries (a stride-0 view is not necessarily constant: broadcast along SOME axes)", an, n_.ast)
    # MultiField.norm
    ordn = mn.params()[1]
    cfg = cfg_of(mn)
    rd = cfg.reaching_defs(mn.params())
    per = [c for c in walk_no_nested(mn.node) if isinstance(c, ast.Call) and call_name(c) == "norm" and isinstance(c.func, ast.Attribute)
           and not src(c.func).endswith("linalg.norm")]
    key = f"{mn.key}::per-entry norms use the same ord"
    if len(per) != 1:
        ctx.und("R06.6", key, f"{len(per)} per-entry norm calls", mn)
    else:
        a = [src(x) for x in per[0].args] + [src(k.value) for k in per[0].keywords if k.arg == "ord"]
        ctx.check("R06.6", key, a == [ordn], f"`{src(per[0])}`", mn, per[0])
    # the vector of partial norms
    vec = None
    for st in mn.node.body:
        if isinstance(st, ast.Assign) and len(st.targets) == 1 and isinstance(st.targets[0], ast.Name) and per and \
                any(x is per[0] for x in ast.walk(st.value)):
            vec = st.targets[0].id
    sp = _load_sympy()
    rets = [n for n in cfg.nodes if n.kind == "stmt" and isinstance(n.ast, ast.Return)]
    if vec is None or sp is None or not rets:
        ctx.und("R06.6", f"{mn.key}::aggregate", "vector of partial norms / sympy / returns not found", mn)
        return
    V = tuple(sp.Symbol(f"n{i}", positive=True) for i in (1, 2))
    P = sp.Symbol("p", positive=True)
    want = sum(a ** P for a in V) ** (1 / P)
    for n in rets:
        atoms = known_atoms(cfg, n.id)
        inf_branch = [pol for t, pol in atoms if ordn in src(t) and "inf" in src(t)]
        e = inline_at(cfg, rd, n.id, n.ast.value, depth=4, stop=(vec, ordn))
        if inf_branch and inf_branch[0]:
            key = f"{mn.key}::ord == inf -> maximum of the partial norms"
            ok = src(e) in (f"{vec}.max()", f"np.max({vec})", f"max({vec})", f"np.amax({vec})")
            ctx.check("R06.6", key, True if ok else None, src(e), mn, n.ast)
            continue
        key = f"{mn.key}::finite ord -> (sum_k n_k**ord)**(1/ord)"
        try:
            got = _p_norm_reader(sp, e, vec, ordn, V, P)
        except ValueError as exc:
            ctx.und("R06.6", key, f"aggregate not understood: {exc}", mn, n.ast)
            continue
        if isinstance(got, tuple):
            ctx.und("R06.6", key, "aggregate is still a vector", mn, n.ast)
            continue
        pts = [{V[0]: sp.Rational(2, 3), V[1]: sp.Rational(5, 7), P: q} for q in (1, 2, 3, sp.Rational(5, 2))]
        zero = sp.simplify(got - want) == 0 or all(sp.simplify(got.subs(pt) - want.subs(pt)) == 0 for pt in pts)
        ctx.check("R06.6", key, bool(zero), f"`{src(n.ast.value)}` reads as {got}, expected {want}", mn, n.ast)


def r06_7(ctx):
    """every result of the contraction helper is the reduction applied to the array"""
    from ..terms import inline_at
    m = ctx.model
    F = m.cls(FLD, "Field")
    fi = F.methods.get("_contraction_helper")
    ctx.rule("R06.7", "Field._contraction_helper(op, spaces): every returned field is built from getattr(self._val, op)(...) - no "
                      "path returns without applying the reduction (var/std/any/all over an empty subset are not the identity) - "
                      "and the partial branch reduces over axes taken from self._domain.axes[...] of the requested spaces", floor=3)
    if fi is None:
        ctx.error("R06.7: Field._contraction_helper missing")
        return
    ctx.saw_func(fi)
    opn = fi.params()[1]
    cfg = cfg_of(fi)
    rd = cfg.reaching_defs(fi.params())

    def red_calls(e):
        return [c for c in ast.walk(e) if isinstance(c, ast.Call) and isinstance(c.func, ast.Call) and call_name(c.func) == "getattr"
                and [src(a) for a in c.func.args] == ["self._val", opn]]
    n_part = 0
    for n in cfg.nodes:
        if n.kind != "stmt" or not isinstance(n.ast, ast.Return):
            continue
        e = inline_at(cfg, rd, n.id, n.ast.value, depth=8) if n.ast.value is not None else None
        rc = red_calls(e) if e is not None else []
        key = f"{fi.key}::{short(n.ast)} applies the reduction"
        ctx.check("R06.7", key, len(rc) >= 1, f"`{short(n.ast)}` (= {src(e)[:80] if e is not None else None}) does not contain getattr(self._val, {opn})(...)", fi, n.ast)
        for c in rc:
            kw = {k.arg: k.value for k in c.keywords}
            if "axis" in kw or c.args:
                n_part += 1
    # the axis argument of the partial reduction
    for n in cfg.nodes:
        if n.kind != "stmt":
            continue
        for c in red_calls(n.ast) if isinstance(n.ast, ast.AST) else []:
            kw = {k.arg: k.value for k in c.keywords}
            ax = kw.get("axis") or (c.args[0] if c.args else None)
            if ax is None:
                continue
            e = inline_at(cfg, rd, n.id, ax, depth=1)
            # the axes list may be re-bound by a guarded flattening: look at every reaching definition
            texts = set()
            if isinstance(ax, ast.Name):
                for d in (rd.get(n.id) or {}).get(ax.id, ()):
                    dn = cfg.nodes[d]
                    if dn.kind == "stmt" and isinstance(dn.ast, ast.Assign):
                        texts.add(src(inline_at(cfg, rd, d, dn.ast.value, depth=3, stop=(ax.id,))))
            else:
                texts.add(src(e))
            sp_param = fi.params()[2]
            ok = bool(texts) and any("self._domain.axes[" in t and sp_param in t for t in texts)
            ctx.check("R06.7", f"{fi.key}::partial reduction runs over self._domain.axes[i] for i in {sp_param}", True if ok else None,
                      f"axis argument defined as {sorted(texts)}", fi, n.ast)


def r06_8(ctx, rid="R06.8"):
    """index typing in Field.weight: an array-axis-indexed shape vector is never indexed with a sub-domain index"""
    from ..terms import inline_at
    m = ctx.model
    F = m.cls(FLD, "Field")
    fi = F.methods.get("weight")
    ctx.rule(rid, "Field.weight: the broadcast shape of a non-scalar volume array has one entry per ARRAY AXIS; it is written at "
                  "the axes self._domain.axes[i] of the weighted sub-domain i (first to last), never at the sub-domain index "
                  "itself (index typing: sub-domain index vs array axis)", floor=1)
    if fi is None:
        ctx.error(f"{rid}: Field.weight missing")
        return
    ctx.saw_func(fi)
    cfg = cfg_of(fi)
    rd = cfg.reaching_defs(fi.params())
    loops = [st for st in ast.walk(fi.node) if isinstance(st, ast.For) and isinstance(st.target, ast.Name)]
    found = 0
    for lp in loops:
        iv = lp.target.id
        for n in cfg.nodes:
            if n.kind != "stmt" or not isinstance(n.ast, ast.Assign) or len(n.ast.targets) != 1:
                continue
            t = n.ast.targets[0]
            if not (isinstance(t, ast.Subscript) and isinstance(t.value, ast.Name)) or not any(x is n.ast for x in ast.walk(lp)):
                continue
            # the subscripted vector is axis-indexed if it is created with len(self.shape) / self._val.ndim entries
            arr = t.value.id
            defs = [cfg.nodes[d] for d in (rd.get(n.id) or {}).get(arr, ())]
            axis_indexed = defs and all(d.kind == "stmt" and isinstance(d.ast, ast.Assign) and
                                        any(s_ in src(d.ast.value) for s_ in ("len(self.shape)", "self._val.ndim", "len(self._val.shape)", "len(self._domain.shape)"))
                                        for d in defs)
            if not axis_indexed:
                continue
            found += 1
            key = f"{fi.key}::`{arr}[...] = {short(n.ast.value, 30)}` is written at array axes"
            idx = inline_at(cfg, rd, n.id, t.slice, depth=3, stop=(iv,))
            it = src(idx)
            ax = f"self._domain.axes[{iv}]"
            if isinstance(idx, ast.Slice) and idx.step is None and idx.lower is not None and idx.upper is not None:
                lo, hi = src(idx.lower), src(idx.upper)
                good = lo in (f"{ax}[0]", f"min({ax})") and hi in (f"{ax}[-1] + 1", f"1 + {ax}[-1]", f"max({ax}) + 1")
                if good:
                    ctx.ok(rid, key, f"[{lo}:{hi}]", fi, n.ast)
                    continue
            if ".axes" not in it:
                ctx.bad(rid, key, f"index `{it}` is not derived from self._domain.axes: a sub-domain index addresses an array axis "
                                  "(wrong as soon as an earlier sub-domain has more than one axis)", fi, n.ast)
            else:
                ctx.und(rid, key, f"index `{it}` not recognised", fi, n.ast)
    if not found:
        ctx.und(rid, f"{fi.key}::broadcast shape store", "no store into an axis-indexed shape vector found", fi)


_run_c06 = run


def run(ctx):  # noqa: F811
    _run_c06(ctx)
    r06_4(ctx)
    r06_5(ctx)
    r06_6(ctx)
    r06_7(ctx)
    r06_8(ctx)


def r06_9(ctx):
    """integrals and means carry the volume factors: two-pixel symbolic reading of the Field methods"""
    from .c03 import _load_sympy
    m = ctx.model
    F = m.cls(FLD, "Field")
    ctx.rule("R06.9", "volume-weighted reductions of Field, read on a two-pixel field (x1, x2) with pixel volumes (v1, v2): integrate / "
                      "s_integrate = v1 x1 + v2 x2 and mean / s_mean = (v1 x1 + v2 x2)/(v1 + v2), in the general branch and - with "
                      "v1 = v2 = w - in the shortcut for uniform volumes (scalar_weight not None); sympy as term normaliser", floor=8)
    sp = _load_sympy()
    if sp is None:
        ctx.und("R06.9", f"{F.key}::volume-weighted reductions", "sympy unavailable", F)
        return
    x = sp.symbols("x1 x2", real=True)
    v = sp.symbols("v1 v2", positive=True)
    w = sp.Symbol("w", positive=True)

    class NU(Exception):
        pass

    class Vec(tuple):
        pass

    def run(fi, uniform, depth=0):
        vol = (w, w) if uniform else v
        env = {}

        def ev(e):
            if isinstance(e, ast.Constant) and isinstance(e.value, (int, float)) and not isinstance(e.value, bool):
                return sp.nsimplify(e.value)
            if isinstance(e, ast.Name):
                if e.id == "self":
                    return Vec(x)
                if e.id in env:
                    return env[e.id]
                raise NU(e.id)
            if isinstance(e, ast.BinOp) and type(e.op) in (ast.Add, ast.Sub, ast.Mult, ast.Div):
                a, b = ev(e.left), ev(e.right)
                f = {ast.Add: lambda p, q: p + q, ast.Sub: lambda p, q: p - q, ast.Mult: lambda p, q: p * q, ast.Div: lambda p, q: p / q}[type(e.op)]
                if isinstance(a, Vec) and isinstance(b, Vec):
                    return Vec(f(p, q) for p, q in zip(a, b))
                if isinstance(a, Vec):
                    return Vec(f(p, b) for p in a)
                if isinstance(b, Vec):
                    return Vec(f(a, q) for q in b)
                return f(a, b)
            if isinstance(e, ast.Call) and isinstance(e.func, ast.Attribute):
                nm = e.func.attr
                recv = ev(e.func.value)
                args = list(e.args) + [k.value for k in e.keywords]
                if not isinstance(recv, Vec):
                    raise NU(src(e)[:40])
                if nm == "weight":
                    pw = ev(args[0]) if args else sp.Integer(1)
                    return Vec(p * q ** pw for p, q in zip(recv, vol))
                if nm in ("sum", "s_sum"):
                    return sum(recv)
                if nm in ("scalar_weight",):
                    return w if uniform else None
                if nm in ("total_volume",):
                    return sum(vol)
                if nm == "_contraction_helper" and e.args and isinstance(e.args[0], ast.Constant):
                    op = e.args[0].value
                    if op == "mean":
                        return sum(recv) / 2
                    if op == "sum":
                        return sum(recv)
                    raise NU(op)
                if nm in F.methods and depth < 2 and nm in ("integrate", "s_integrate", "mean", "s_mean"):
                    return run(F.methods[nm], uniform, depth + 1)
                raise NU(src(e)[:40])
            raise NU(src(e)[:40])

        def truth(t):
            if isinstance(t, ast.Compare) and len(t.ops) == 1 and src(t.comparators[0]) == "None":
                a = ev(t.left)
                isn = a is None
                return isn if isinstance(t.ops[0], ast.Is) else not isn
            raise NU(src(t)[:40])

        def body(stmts):
            for st in stmts:
                if isinstance(st, ast.Expr):
                    continue
                if isinstance(st, ast.Assign) and isinstance(st.targets[0], ast.Name):
                    env[st.targets[0].id] = ev(st.value)
                elif isinstance(st, ast.If):
                    r = body(st.body if truth(st.test) else st.orelse)
                    if r is not NotImplemented:
                        return r
                elif isinstance(st, ast.Return):
                    return ev(st.value)
                else:
                    raise NU(src(st)[:40])
            return NotImplemented
        r = body(fi.node.body)
        if r is NotImplemented:
            raise NU("no return")
        return r
    for name, want in (("integrate", lambda vol: vol[0] * x[0] + vol[1] * x[1]), ("s_integrate", lambda vol: vol[0] * x[0] + vol[1] * x[1]),
                       ("mean", lambda vol: (vol[0] * x[0] + vol[1] * x[1]) / (vol[0] + vol[1])), ("s_mean", lambda vol: (vol[0] * x[0] + vol[1] * x[1]) / (vol[0] + vol[1]))):
        fi = F.methods.get(name)
        if fi is None:
            ctx.und("R06.9", f"{F.key}::{name}", "method missing", F)
            continue
        ctx.saw_func(fi)
        for uniform in (False, True):
            key = f"{fi.key}::{'uniform volumes (shortcut)' if uniform else 'general volumes'}"
            try:
                got = run(fi, uniform)
                exp = want((w, w) if uniform else v)
                ctx.check("R06.9", key, sp.simplify(got - exp) == 0, f"reads as {sp.simplify(got)}; expected {sp.simplify(exp)}", fi)
            except NU as exc:
                ctx.und("R06.9", key, f"not understood: {exc}", fi)


_run_c06b = run


def run(ctx):  # noqa: F811
    _run_c06b(ctx)
    r06_9(ctx)


def r06_10(ctx):
    """dtype typing of the volume weighting: no in-place product of a copy of the values with float volume arrays"""
    m = ctx.model
    F = m.cls(FLD, "Field")
    fi = F.methods["weight"]
    ctx.saw_func(fi)
    ctx.rule("R06.10", "Field.weight for every dtype: the copy of the field's values (which has the field's dtype, possibly integer) is "
                       "never combined IN PLACE (`*=`, `/=`) with an AnyArray of volume factors (float64): AnyArray's in-place "
                       "operators with an array operand are numpy's dtype-preserving ones and raise for integer fields; scalar "
                       "factors fall back to the out-of-place product", floor=1)
    copies = {src(st.targets[0]) for st in walk_no_nested(fi.node) if isinstance(st, ast.Assign) and isinstance(st.targets[0], ast.Name)
              and isinstance(st.value, ast.Call) and call_name(st.value) == "copy" and src(st.value.func.value) in ("self.val", "self._val")}
    arrays = {src(st.targets[0]) for st in ast.walk(fi.node) if isinstance(st, ast.Assign) and isinstance(st.targets[0], ast.Name)
              and any(isinstance(c, ast.Call) and src(c.func) == "AnyArray" for c in ast.walk(st.value))}
    # names re-bound from an array stay arrays (reshape, at, ...)
    changed = True
    while changed:
        changed = False
        for st in ast.walk(fi.node):
            if isinstance(st, ast.Assign) and isinstance(st.targets[0], ast.Name) and st.targets[0].id not in arrays and \
                    any(isinstance(x, ast.Name) and x.id in arrays for x in ast.walk(st.value)) and isinstance(st.value, ast.Call):
                arrays.add(st.targets[0].id)
                changed = True
    augs = [st for st in ast.walk(fi.node) if isinstance(st, ast.AugAssign) and isinstance(st.target, ast.Name) and st.target.id in copies
            and isinstance(st.op, (ast.Mult, ast.Div))]
    prods = [st for st in ast.walk(fi.node) if isinstance(st, ast.Assign) and isinstance(st.targets[0], ast.Name) and st.targets[0].id in copies
             and isinstance(st.value, ast.BinOp) and isinstance(st.value.op, (ast.Mult, ast.Div))]
    key = f"{fi.key}::volume arrays are applied out of place"
    bad = [st for st in augs if any(isinstance(x, ast.Name) and x.id in arrays for x in ast.walk(st.value))]
    if not copies or not (augs or prods):
        ctx.und("R06.10", key, "weighting statements not found", fi)
    else:
        ctx.check("R06.10", key, not bad, f"`{src(bad[0])}`: in-place product of the value copy (dtype of the field) with the float volume array `"
                                          f"{[x.id for x in ast.walk(bad[0].value) if isinstance(x, ast.Name) and x.id in arrays][0]}` raises UFuncTypeError for integer fields" if bad else None,
                  fi, bad[0] if bad else (prods or augs)[0])


_run_c06c = run


def run(ctx):  # noqa: F811
    _run_c06c(ctx)
    r06_10(ctx)


def r06_11(ctx):
    """index-space typing of `spaces`"""
    m = ctx.model
    F = m.cls(FLD, "Field")
    ctx.rule("R06.11", "sub-domain indices derived from the `spaces` argument refer to THIS field's domain tuple: in integrate / mean / "
                       "var / std they are only handed to methods of `self` or of fields on the same domain (self.weight(...), "
                       "element-wise results) - never to a field that has already been contracted (result of self.sum / integrate / "
                       "mean over some sub-domains), whose tuple is shorter and numbered differently", floor=4)
    contracting = {"sum", "integrate", "mean", "var", "std", "prod", "s_sum", "_contraction_helper"}
    for name in ("integrate", "mean", "var", "std"):
        fi = F.methods.get(name)
        if fi is None:
            continue
        ctx.saw_func(fi)
        # names bound to contracted fields
        contracted = set()
        changed = True
        while changed:
            changed = False
            for st in walk_no_nested(fi.node):
                if isinstance(st, ast.Assign) and isinstance(st.targets[0], ast.Name) and st.targets[0].id not in contracted:
                    v = st.value
                    roots = [c for c in ast.walk(v) if isinstance(c, ast.Call) and isinstance(c.func, ast.Attribute) and c.func.attr in contracting
                             and (c.args or c.keywords) and (src(c.func.value) == "self" or src(c.func.value) in contracted or (isinstance(c.func.value, ast.Call)))]
                    partial_ = [c for c in roots if not (len(c.args) + len(c.keywords) == 0)]
                    if partial_ and not (isinstance(v, ast.Call) and isinstance(v.func, ast.Attribute) and v.func.attr == "weight"):
                        contracted.add(st.targets[0].id)
                        changed = True
        bad = []
        for c in walk_no_nested(fi.node):
            if isinstance(c, ast.Call) and isinstance(c.func, ast.Attribute) and c.func.attr in (contracting | {"weight", "total_volume", "scalar_weight"}) \
                    and isinstance(c.func.value, ast.Name) and c.func.value.id in contracted and (c.args or c.keywords):
                bad.append(c)
        ctx.check("R06.11", f"{fi.key}::`spaces`-derived indices are applied to fields on the original domain only", not bad,
                  f"`{short(bad[0], 70)}`: `{bad[0].func.value.id}` is already contracted, its sub-domains are numbered differently" if bad else None, fi, bad[0] if bad else None)


_run_c06d = run


def run(ctx):  # noqa: F811
    _run_c06d(ctx)
    r06_11(ctx)
