"""C07 - fields are immutable once constructed (ownership / typestate)."""
import ast

from ..model import src, short, walk_no_nested, is_self_attr, call_name, stmt_targets
from ..util import cfg_of, guards, known_atoms, find_nodes, attr_chain, conj_atoms, returns_of

ANY = "nifty.cl.any_array"
FLD = "nifty.cl.field"
MFLD = "nifty.cl.multi_field"


def _writeable_stores(fn_node):
    """Assign nodes of the form  <X>.flags.writeable = <const>  /  X.setflags(write=...)"""
    out = []
    for n in walk_no_nested(fn_node):
        if isinstance(n, ast.Assign):
            for t in n.targets:
                ch = attr_chain(t)
                if ch and len(ch) >= 3 and ch[-2:] == ["flags", "writeable"]:
                    out.append((n, ch[:-2], n.value))
        elif isinstance(n, ast.Expr) and isinstance(n.value, ast.Call) and call_name(n.value) == "setflags":
            ch = attr_chain(n.value.func.value) if isinstance(n.value.func, ast.Attribute) else None
            val = None
            for kw in n.value.keywords:
                if kw.arg == "write":
                    val = kw.value
            if val is None and n.value.args:
                val = n.value.args[0]
            if ch and val is not None:
                out.append((n, ch, val))
    return out


def _isinstance_atom(test):
    if isinstance(test, ast.Call) and isinstance(test.func, ast.Name) and test.func.id == "isinstance" \
            and len(test.args) == 2:
        return test.args[0], test.args[1]
    return None


def _hier_feasible(model, cls, type_expr):
    """Is isinstance(self, T) satisfiable for an instance of `cls` (or subclass)?
    True / False / None(unknown)."""
    elts = type_expr.elts if isinstance(type_expr, ast.Tuple) else [type_expr]
    verdicts = []
    for e in elts:
        kind, obj = model.resolve_expr(cls.module, e)
        if kind == "class":
            v = (obj in model.mro(cls)) or (cls in model.mro(obj))
            verdicts.append(v)
        elif kind == "ext":
            # external type: feasible only if some class in the hierarchy (up or down) derives from it
            name = model.ext_name(cls.module, e)
            fam = list(model.mro(cls)) + model.subclasses(cls)
            hit = False
            for k in fam:
                for be in k.base_exprs:
                    if model.ext_name(k.module, be) == name:
                        hit = True
            verdicts.append(hit)
        else:
            verdicts.append(None)
    if any(v is True for v in verdicts):
        return True
    if all(v is False for v in verdicts):
        return False
    return None


def run(ctx):
    m = ctx.model
    A = m.cls(ANY, "AnyArray")
    F = m.cls(FLD, "Field")
    MF = m.cls(MFLD, "MultiField")
    for c in (A, F, MF):
        ctx.saw_class(c)

    # ------------------------------------------------------------------ R07.1
    ctx.rule("R07.1", "AnyArray.lock clears the numpy writeable flag of the wrapped buffer on a feasible path "
                      "and records read-only state on every path; isinstance(self, T) guards are checked "
                      "against the class hierarchy", floor=2)
    lock = m.resolve_method(A, "lock")
    if lock is None:
        ctx.error("AnyArray.lock not found")
    else:
        ctx.saw_func(lock)
        cfg = cfg_of(lock)
        stores = [(n, ch, v) for n, ch, v in _writeable_stores(lock.node)
                  if ch == ["self", "_val"] and isinstance(v, ast.Constant) and v.value is False]
        key = f"{lock.key}::clear writeable flag of self._val"
        if not stores:
            ctx.bad("R07.1", key, "lock() never clears self._val.flags.writeable", lock)
        for st, ch, v in stores:
            nodes = cfg.nodes_of(st)
            if not nodes:
                ctx.und("R07.1", key, "store not in CFG", lock, st)
                continue
            atoms = known_atoms(cfg, nodes[0].id)
            verdict, why = True, []
            for t, pol in atoms:
                ia = _isinstance_atom(t)
                if ia is not None:
                    subj, typ = ia
                    if isinstance(subj, ast.Name) and subj.id == "self":
                        f = _hier_feasible(m, A, typ)
                        if f is False and pol:
                            verdict = False
                            why.append(f"guard `{src(t)}` is never true: {src(typ)} is unrelated to AnyArray's class hierarchy")
                        elif f is None:
                            verdict = None if verdict else verdict
                    elif attr_chain(subj) == ["self", "_val"]:
                        nm = {m.ext_name(A.module, e) for e in (typ.elts if isinstance(typ, ast.Tuple) else [typ])}
                        if pol and "numpy.ndarray" in nm:
                            pass
                        elif pol and "ALLOWED_WRAPPEES" in {src(e) for e in (typ.elts if isinstance(typ, ast.Tuple) else [typ])}:
                            pass
                        else:
                            verdict = False if pol is False and "numpy.ndarray" in nm else None
                            why.append(f"guard `{'' if pol else 'not '}{src(t)}` does not select numpy buffers")
                    else:
                        verdict = None if verdict else verdict
                        why.append(f"unrecognised guard `{src(t)}`")
                elif src(t) in ("self._device_id == -1", "self.device_id == -1") and pol:
                    pass
                elif src(t) in ("self._device_id != -1", "self.device_id != -1") and not pol:
                    pass
                elif src(t) in ("self._writeable", "self.readonly"):
                    pass  # skipping an already locked array is harmless
                elif any(attr_chain(x) and attr_chain(x)[:2] == ["self", "_val"] for x in ast.walk(t)):
                    verdict = False
                    why.append(f"the lock is conditional on a property of the wrapped array (`{'' if pol else 'not '}{src(t)}`): numpy "
                               "buffers for which it does not hold stay writable through the source array and the raw handle")
                else:
                    verdict = None if verdict else verdict
                    why.append(f"unrecognised guard `{'' if pol else 'not '}{src(t)}`")
            ctx.check("R07.1", key, verdict, "; ".join(why) or "reached for every numpy-backed array", lock, st)
        # _writeable = False on every path to exit
        wnodes = [n for n in cfg.nodes if n.kind == "stmt" and isinstance(n.ast, ast.Assign)
                  and any(is_self_attr(t, "_writeable") for t in n.ast.targets)
                  and isinstance(n.ast.value, ast.Constant) and n.ast.value.value is False]
        key = f"{lock.key}::self._writeable = False on every path"
        if not wnodes:
            ctx.bad("R07.1", key, "lock() never records the read-only state", lock)
        else:
            r = cfg.reachable(cfg.entry.id, avoid=[n.id for n in wnodes], include_exc=False)
            ctx.check("R07.1", key, cfg.exit.id not in r,
                      "a path through lock() skips `self._writeable = False`", lock, wnodes[0].ast,
                      witness=cfg.describe_path(cfg.path(cfg.entry.id, cfg.exit.id, avoid=[n.id for n in wnodes])))
    # hierarchy feasibility of every isinstance(self, ...) in the three classes
    for c in (A, F, MF):
        for fi in c.methods.values():
            for n in ast.walk(fi.node):
                ia = _isinstance_atom(n)
                if ia and isinstance(ia[0], ast.Name) and ia[0].id == "self":
                    f = _hier_feasible(m, c, ia[1])
                    ctx.check("R07.1", f"{fi.key}::{src(n)}", f if f is not None else None,
                              "isinstance(self, T) with T outside the class hierarchy is never true", fi, n)

    # ------------------------------------------------------------------ R07.2
    ctx.rule("R07.2", "every construction path locks the buffer before it becomes the field's storage "
                      "(Field.__init__, MultiField stores Fields only, AnyArray.at re-locks copies)", floor=3)
    init = m.resolve_method(F, "__init__")
    ctx.saw_func(init)
    cfg = cfg_of(init)
    params = init.params()
    rd = cfg.reaching_defs(params)
    stores = [n for n in cfg.nodes if n.kind == "stmt" and isinstance(n.ast, ast.Assign)
              and any(is_self_attr(t, "_val") for t in n.ast.targets)]
    if not stores:
        ctx.error("Field.__init__ does not assign self._val")
    dom = cfg.dominators()
    for s in stores:
        key = f"{init.key}::{s.text()}"
        v = s.ast.value
        if not isinstance(v, ast.Name):
            ctx.und("R07.2", key, "stored value is not a plain local", init, s.ast)
            continue
        locks = [n for n, c in find_nodes(cfg, lambda x: isinstance(x, ast.Call) and call_name(x) == "lock"
                                          and isinstance(x.func, ast.Attribute) and isinstance(x.func.value, ast.Name)
                                          and x.func.value.id == v.id)]
        good = False
        for L in locks:
            if L.id in dom.get(s.id, ()) and rd[s.id].get(v.id) == rd[L.id].get(v.id):
                good = True
        wit = None
        if not good:
            wit = cfg.describe_path(cfg.path(cfg.entry.id, s.id, avoid=[L.id for L in locks]))
        ctx.check("R07.2", key, good, f"`{v.id}.lock()` does not dominate the store (or `{v.id}` is rebound in between)",
                  init, s.ast, witness=wit)
    # MultiField: every entry is checked to be a Field before self._val = val
    minit = m.resolve_method(MF, "__init__")
    ctx.saw_func(minit)
    cfg = cfg_of(minit)
    stores = [n for n in cfg.nodes if n.kind == "stmt" and isinstance(n.ast, ast.Assign)
              and any(is_self_attr(t, "_val") for t in n.ast.targets)]
    for s in stores:
        key = f"{minit.key}::{s.text()}"
        v = s.ast.value
        if not isinstance(v, ast.Name):
            ctx.und("R07.2", key, "stored value is not a plain local", minit, s.ast)
            continue
        # look for a `for ... in zip(..., v)` / `for x in v` loop that raises unless isinstance(x, Field)
        ok = False
        for n in cfg.nodes:
            if n.kind == "for" and n.first and n.id in cfg.dominators().get(s.id, ()):
                it = n.ast.iter
                names = {x.id for x in ast.walk(it) if isinstance(x, ast.Name)}
                if v.id not in names:
                    continue
                # loop variable bound to elements of v
                tnames = [t.id for t in stmt_targets(n.ast) if isinstance(t, ast.Name)]
                for st in ast.walk(n.ast):
                    if isinstance(st, ast.If):
                        ia = _isinstance_atom(strip(st.test)[0])
                        if ia and isinstance(ia[0], ast.Name) and ia[0].id in tnames and src(ia[1]) == "Field":
                            pol = strip(st.test)[1]
                            other = st.orelse if pol else st.body
                            if any(isinstance(x, ast.Raise) for x in other):
                                ok = True
        ctx.check("R07.2", key, ok if ok else None if False else ok,
                  "no dominating loop that raises unless every entry is a Field", minit, s.ast)
    # AnyArray.at: copies of a read-only array are re-locked on every path that returns a new array
    at = m.resolve_method(A, "at")
    if at is not None:
        ctx.saw_func(at)
        cfg = cfg_of(at)
        rets = [n for n in cfg.nodes if n.kind == "stmt" and isinstance(n.ast, ast.Return)]
        for r in rets:
            key = f"{at.key}::{r.text()}"
            val = r.ast.value
            if isinstance(val, ast.Name) and val.id == "self":
                ctx.ok("R07.2", key, "returns self (same lock state)", at, r.ast)
                continue
            if isinstance(val, ast.Name):
                # need: on every path to this return, either `not self.readonly` or val.lock() executed
                lk = [n for n, c in find_nodes(cfg, lambda x: isinstance(x, ast.Call) and call_name(x) == "lock"
                                               and isinstance(x.func, ast.Attribute) and isinstance(x.func.value, ast.Name)
                                               and x.func.value.id == val.id)]
                okk = False
                for L in lk:
                    g = known_atoms(cfg, L.id)
                    if any(src(t) in ("self.readonly", "self._writeable") and ((pol and src(t) == "self.readonly") or
                                                                                 (not pol and src(t) == "self._writeable"))
                           for t, pol in g) or not g:
                        # the only way around the lock must be the false edge of that guard
                        reach = cfg.reachable(cfg.entry.id, avoid=[L.id], include_exc=False)
                        if r.id in reach:
                            # paths avoiding the lock must pass the guard's other edge: verify guard dominates return
                            gd = [t for t, pol in guards(cfg, L.id)]
                            dr = cfg.dominators()
                            tests = [n for n in cfg.nodes if n.kind == "test" and n.ast in gd]
                            okk = all(t.id in dr[r.id] for t in tests) and len(tests) >= 1
                        else:
                            okk = True
                ctx.check("R07.2", key, okk, "a copy of a read-only array can be returned unlocked", at, r.ast)
            else:
                ctx.und("R07.2", key, "return shape not modelled", at, r.ast)

    # library-made views of caller-owned arrays: locking the view does not lock the base
    ctx.rule("R07.6", "constructors never wrap a library-made *view* of a caller-owned array (np.broadcast_to / reshape / "
                      "transpose of a parameter): such a view is locked but the caller's base array stays writable; broadcast is "
                      "allowed on fresh arrays and on values guarded by np.isscalar", floor=1)
    VIEW = {"broadcast_to", "asarray", "atleast_1d", "squeeze", "ravel"}
    FRESH = {"array", "full", "zeros", "ones", "empty", "copy", "arange", "linspace", "zeros_like", "ones_like", "full_like"}
    for modname in (ANY, FLD, MFLD, "nifty.cl.sugar"):
        mod = m.module(modname)
        for fi in mod.all_functions:
            if not any(isinstance(c, ast.Call) and call_name(c) in VIEW for c in walk_no_nested(fi.node)):
                continue
            cfg = cfg_of(fi)
            params = set(fi.params())
            rdm = cfg.reaching_defs(fi.params())
            for n, c in find_nodes(cfg, lambda q: isinstance(q, ast.Call) and call_name(q) in VIEW and q.args):
                ext = m.ext_name(mod, c.func) or ""
                if not (ext.startswith("numpy.") or ext.startswith("np.") or src(c.func).startswith("xp.")):
                    continue
                a0 = c.args[0]
                key = f"{fi.key}::{short(c, 70)}"
                if not _flows_into_storage(cfg, rdm, n, c):
                    continue  # the view is consumed by arithmetic / never becomes field storage
                if isinstance(a0, ast.Call) and call_name(a0) in FRESH:
                    if call_name(c) == "broadcast_to":
                        ctx.bad("R07.6", key, "every entry of the view aliases the fresh base array, which stays writeable and is reachable as "
                                              "`.base` of the raw handle: lock the base before broadcasting", fi, c)
                    else:
                        ctx.ok("R07.6", key, "view of a fresh array", fi, c)
                elif isinstance(a0, ast.Name):
                    # is the name (transitively) a parameter?
                    defs = rdm[n.id].get(a0.id, frozenset())
                    from_param = cfg.entry.id in defs and a0.id in params
                    fresh_def = all(cfg.nodes[d].kind == "stmt" and isinstance(cfg.nodes[d].ast, ast.Assign)
                                    and isinstance(cfg.nodes[d].ast.value, ast.Call) and call_name(cfg.nodes[d].ast.value) in FRESH
                                    for d in defs) and bool(defs)
                    scal = any(isinstance(t, ast.Call) and src(t.func) in ("np.isscalar", "numpy.isscalar") and src(t.args[0]) == a0.id and pol
                               for t, pol in known_atoms(cfg, n.id))
                    locked_base = any(isinstance(st, ast.Assign) and src(st.targets[0]) == f"{a0.id}.flags.writeable" and src(st.value) == "False"
                                      for st in walk_no_nested(fi.node))
                    if fresh_def and call_name(c) == "broadcast_to" and not locked_base:
                        ctx.bad("R07.6", key, f"every entry of the view aliases the fresh base `{a0.id}`, which stays writeable and is reachable as "
                                              "`.base` of the raw handle", fi, c)
                    elif scal and call_name(c) == "broadcast_to":
                        ctx.bad("R07.6", key, f"numpy wraps the scalar `{a0.id}` in a writeable 0-d array that every entry of the view aliases; it is "
                                              "reachable as `.base` of the raw handle (use the constructor that locks the base)", fi, c)
                    elif fresh_def or scal:
                        ctx.ok("R07.6", key, ("fresh array" + (" with a locked base" if locked_base else "")) if fresh_def else "guarded by np.isscalar", fi, c)
                    elif from_param and call_name(c) in ("asarray", "asanyarray") and \
                            any(pol and isinstance(t, ast.Call) and call_name(t) == "isinstance" and src(t.args[0]) == a0.id and "ndarray" in src(t.args[1])
                                for t, pol in known_atoms(cfg, n.id)):
                        ctx.bad("R07.6", key, f"`{a0.id}` is known to be an ndarray here, so np.asarray returns the same memory (a base-class view for "
                                              "subclasses): the field stores and locks the view, the caller's object stays writable", fi, c)
                    elif from_param and call_name(c) == "broadcast_to":
                        ctx.bad("R07.6", key, f"a view of the caller's array `{a0.id}` becomes field storage: the field locks the view, "
                                              "the caller keeps a writable handle to the same memory", fi, c)
                    else:
                        ctx.und("R07.6", key, "provenance of the viewed array not modelled", fi, c)
                else:
                    ctx.und("R07.6", key, "argument shape not modelled", fi, c)

    # method-style views / in-place modifications of a caller-owned array
    VIEWM = {"view", "reshape", "transpose", "swapaxes", "squeeze", "ravel", "byteswap", "newbyteorder"}
    for modname in (ANY, FLD, MFLD, "nifty.cl.sugar"):
        mod = m.module(modname)
        for fi in mod.all_functions:
            params = set(fi.params()) - {"self", "cls"}
            if not params:
                continue
            cfg = None
            for c in walk_no_nested(fi.node):
                if not (isinstance(c, ast.Call) and isinstance(c.func, ast.Attribute) and c.func.attr in VIEWM):
                    continue
                root = c.func.value
                inplace = False
                while isinstance(root, ast.Call) and isinstance(root.func, ast.Attribute):
                    if root.func.attr == "byteswap" and any(k.arg == "inplace" and src(k.value) == "True" for k in root.keywords):
                        inplace = True
                    root = root.func.value
                if c.func.attr == "byteswap" and any(k.arg == "inplace" and src(k.value) == "True" for k in c.keywords):
                    inplace = True
                if not (isinstance(root, ast.Name) and root.id in params):
                    continue
                if cfg is None:
                    cfg = cfg_of(fi)
                    rdm = cfg.reaching_defs(fi.params())
                nodes = [n for n in cfg.nodes if n.kind == "stmt" and n.ast is not None and any(x is c for x in ast.walk(n.ast))]
                if not nodes:
                    continue
                n = nodes[0]
                defs = rdm[n.id].get(root.id, frozenset())
                if cfg.entry.id not in defs:
                    continue  # re-bound to something else before
                # outermost call of a chain only
                if any(isinstance(o, ast.Call) and isinstance(o.func, ast.Attribute) and o.func.value is c for o in ast.walk(n.ast)):
                    continue
                key = f"{fi.key}::{short(c, 70)}"
                if inplace:
                    ctx.bad("R07.6", key, f"the caller's array `{root.id}` is modified in place and a view of it is used further", fi, c)
                elif isinstance(n.ast, ast.Assign) and _flows_into_storage(cfg, rdm, n, c):
                    ctx.bad("R07.6", key, f"a view of the caller's array `{root.id}` becomes field storage: the field locks the view, the caller keeps a "
                                          "writable handle to the same memory", fi, c)

    # ------------------------------------------------------------------ R07.3
    ctx.rule("R07.3", "single writer: Field._val/_domain and AnyArray._val/_writeable are assigned only in their "
                      "own __init__ (lock may clear _writeable); nobody re-enables numpy's writeable flag; "
                      "no Field.__new__ bypass", floor=4)
    owners = {("Field", "_val"): {"__init__"}, ("Field", "_domain"): {"__init__"},
              ("AnyArray", "_val"): {"__init__"}, ("AnyArray", "_writeable"): {"__init__", "lock"},
              ("MultiField", "_val"): {"__init__"}, ("MultiField", "_domain"): {"__init__"}}
    protected_attrs = {"_val", "_writeable"}
    prot_classes = {"Field": F, "AnyArray": A, "MultiField": MF}
    n_sites = 0
    for mod in m.modules.values():
        if not mod.name.startswith("nifty.cl"):
            continue
        for fi in mod.all_functions:
            for n in walk_no_nested(fi.node):
                tg = []
                if isinstance(n, ast.Assign):
                    tg = n.targets
                elif isinstance(n, (ast.AugAssign, ast.AnnAssign)):
                    tg = [n.target]
                flat = []
                for t in tg:
                    flat += t.elts if isinstance(t, (ast.Tuple, ast.List)) else [t]
                for t in flat:
                    if not isinstance(t, ast.Attribute):
                        continue
                    base_is_self = isinstance(t.value, ast.Name) and t.value.id == "self"
                    owner_cls = None
                    if fi.cls is not None:
                        for nm, pc in prot_classes.items():
                            if pc in m.mro(fi.cls):
                                owner_cls = nm
                    if base_is_self and owner_cls and (owner_cls, t.attr) in owners:
                        n_sites += 1
                        key = f"{fi.key}::{short(n)}"
                        meth = fi.qualname.split(".")[-1] if fi.parent is None else None
                        allowed = meth in owners[(owner_cls, t.attr)]
                        if t.attr == "_writeable" and meth == "__init__":
                            allowed = True
                        if t.attr == "_writeable" and meth == "lock":
                            allowed = isinstance(n, ast.Assign) and isinstance(n.value, ast.Constant) and n.value.value is False
                        ctx.check("R07.3", key, allowed,
                                  f"{owner_cls}.{t.attr} is written outside its constructor", fi, n)
                    elif not base_is_self and t.attr in protected_attrs:
                        # X._val = ... on a foreign object: only harmless if X's class is known not to be protected
                        n_sites += 1
                        key = f"{fi.key}::{short(n)}"
                        ctx.bad("R07.3", key, f"store to `{src(t)}` on a foreign object bypasses the constructor", fi, n)
                # re-enabling writes
            for st, ch, v in _writeable_stores(fi.node):
                n_sites += 1
                key = f"{fi.key}::{short(st)}"
                if isinstance(v, ast.Constant) and v.value is False:
                    ctx.ok("R07.3", key, "clears the writeable flag", fi, st)
                else:
                    ctx.bad("R07.3", key, "re-enables (or conditionally sets) numpy's writeable flag", fi, st)
            for n in walk_no_nested(fi.node):
                if isinstance(n, ast.Call) and call_name(n) == "__new__" and n.args:
                    a0 = src(n.args[0])
                    if a0 in ("Field", "MultiField", "AnyArray") and not (fi.cls is A and fi.name == "__new__"):
                        ctx.bad("R07.3", f"{fi.key}::{short(n)}", "constructor bypass via __new__", fi, n)
                if isinstance(n, ast.Call) and isinstance(n.func, ast.Name) and n.func.id == "setattr" and len(n.args) == 3 \
                        and isinstance(n.args[1], ast.Constant) and n.args[1].value in ("_val", "_writeable", "_domain") \
                        and fi.cls is not None:
                    ctx.bad("R07.3", f"{fi.key}::{short(n)}", "setattr on protected storage attribute", fi, n)
                if isinstance(n, ast.Call) and src(n.func) == "object.__setattr__":
                    ctx.bad("R07.3", f"{fi.key}::{short(n)}", "object.__setattr__ bypass", fi, n)
    ctx.extra["R07.3_sites_scanned"] = n_sites

    # ------------------------------------------------------------------ R07.4
    ctx.rule("R07.4", "every mutator of AnyArray tests the read-only state before storing into the buffer", floor=2)
    si = m.resolve_method(A, "__setitem__")
    if si is None:
        ctx.error("AnyArray.__setitem__ not found")
    else:
        ctx.saw_func(si)
        cfg = cfg_of(si)
        st_nodes = [n for n in cfg.nodes if n.kind == "stmt" and isinstance(n.ast, (ast.Assign, ast.AugAssign))
                    and any(isinstance(t, ast.Subscript) and attr_chain(t.value) == ["self", "_val"]
                            for t in (n.ast.targets if isinstance(n.ast, ast.Assign) else [n.ast.target]))]
        if not st_nodes:
            ctx.und("R07.4", f"{si.key}::store", "no store into self._val[...] found", si)
        for s in st_nodes:
            ctx.check("R07.4", f"{si.key}::{s.text()}", _ro_guarded(cfg, s.id),
                      "store into the buffer is not dominated by the read-only test", si, s.ast)
    # in-place dunders bound by the setattr loop
    inplace = {"__iadd__", "__isub__", "__imul__", "__itruediv__", "__ifloordiv__", "__ipow__"}
    found = set()
    for loop, call in A.synthetic.get("__loops__", []):
        names = _loop_names(loop)
        if names is None or not (set(names) & inplace):
            continue
        found |= set(names) & inplace
        # locate innermost function that touches self._val
        fn = None
        for x in ast.walk(loop):
            if isinstance(x, ast.FunctionDef) and any(p.arg == "self" for p in x.args.args):
                fn = x
        if fn is None:
            ctx.und("R07.4", f"{A.key}::inplace dunders", "generated method not found", A, loop)
            continue
        from ..cfg import CFG
        cfg = CFG(fn)
        touch = [n for n, c in find_nodes(cfg, lambda x: isinstance(x, ast.Call) and isinstance(x.func, ast.Call)
                                          and call_name(x.func) == "getattr" and x.func.args
                                          and attr_chain(x.func.args[0]) == ["self", "_val"])]
        for tnode in touch:
            ctx.check("R07.4", f"{A.key}::inplace[{','.join(sorted(names))}]::{tnode.text()}",
                      _ro_guarded(cfg, tnode.id), "in-place update is not guarded by the read-only test", A, tnode.ast)
        if not touch:
            ctx.und("R07.4", f"{A.key}::inplace dunders", "in-place application not recognised", A, loop)
    missing = inplace - found
    # NDArrayOperatorsMixin would supply in-place operators that call __array_ufunc__ with out=self
    ctx.check("R07.4", f"{A.key}::all in-place dunders overridden", not missing,
              f"in-place operators {sorted(missing)} fall back to the mixin (ufunc with out=self) without a read-only test", A)

    # ------------------------------------------------------------------ R07.5
    ctx.rule("R07.5", "handles: *_rw accessors return copies; copy() copies the buffer; read accessors hand out the "
                      "locked storage; asnumpy() clears the writeable flag of what it returns when read-only", floor=6)
    for cls_, name in ((F, "val_rw"), (F, "asnumpy_rw"), (A, "copy")):
        fi = m.resolve_method(cls_, name)
        if fi is None:
            ctx.error(f"{cls_.name}.{name} not found")
            continue
        ctx.saw_func(fi)
        for r in returns_of(fi):
            ctx.check("R07.5", f"{fi.key}::{short(r)}", _is_copy_expr(fi, r.value),
                      "accessor documented as returning a copy returns shared storage", fi, r)
    for name, want in (("val", ["self", "_val"]), ("raw", ["self", "_val", "_val"])):
        fi = m.resolve_method(F, name)
        if fi is None:
            ctx.error(f"Field.{name} not found")
            continue
        ctx.saw_func(fi)
        for r in returns_of(fi):
            ch = attr_chain(r.value)
            ctx.check("R07.5", f"{fi.key}::{short(r)}",
                      True if ch == want else (_is_copy_expr(fi, r.value) or None),
                      "read accessor returns something other than the locked storage", fi, r)
    # MultiField val_rw
    fi = m.resolve_method(MF, "val_rw")
    if fi is not None:
        ctx.saw_func(fi)
        for r in returns_of(fi):
            txt = src(r.value)
            ctx.check("R07.5", f"{fi.key}::{short(r)}", True if "val_rw()" in txt else None,
                      "MultiField.val_rw does not copy entries", fi, r)
    asn = m.resolve_method(A, "asnumpy")
    if asn is not None:
        ctx.saw_func(asn)
        cfg = cfg_of(asn)
        for r in [n for n in cfg.nodes if n.kind == "stmt" and isinstance(n.ast, ast.Return)]:
            key = f"{asn.key}::{r.text()}"
            v = r.ast.value
            if not isinstance(v, ast.Name):
                ctx.und("R07.5", key, "return shape not modelled", asn, r.ast)
                continue
            clr = [n for n in cfg.nodes if n.kind == "stmt" and any(ch == [v.id] and isinstance(val, ast.Constant)
                                                                    and val.value is False
                                                                    for _, ch, val in _writeable_stores_stmt(n.ast))]
            okk = False
            for c_ in clr:
                at = known_atoms(cfg, c_.id)
                ro = [1 for t, pol in at if (src(t) == "self.readonly" and pol) or (src(t) == "self._writeable" and not pol)]
                if not at:
                    okk = cfg.exit.id not in cfg.reachable(cfg.entry.id, avoid=[c_.id], include_exc=False)
                elif ro and len(at) == len(ro):
                    okk = True
            ctx.check("R07.5", key, okk, "asnumpy() can return a writable array for a read-only AnyArray", asn, r.ast)


STORAGE_CTORS = {"Field", "AnyArray", "from_raw", "makeField", "MultiField", "scalar"}


def _flows_into_storage(cfg, rd, node, call):
    """The value of `call` (a view) is passed - directly or through one local - to a field/array constructor."""
    st = node.ast
    for x in ast.walk(st):
        if isinstance(x, ast.Call) and call_name(x) in STORAGE_CTORS and any(a is call for a in x.args):
            return True
    if isinstance(st, ast.Assign) and st.value is call and len(st.targets) == 1 and isinstance(st.targets[0], ast.Name):
        v = st.targets[0].id
        for n2 in cfg.nodes:
            if rd[n2.id] is None or node.id not in rd[n2.id].get(v, ()):
                continue
            if n2.ast is None or n2.kind not in ("stmt",):
                continue
            if isinstance(n2.ast, ast.Assign) and isinstance(n2.ast.value, ast.Name) and n2.ast.value.id == v and \
                    any(isinstance(t, ast.Attribute) and isinstance(t.value, ast.Name) and t.value.id == "self" and t.attr in ("_val",) for t in n2.ast.targets):
                return True
            for x in ast.walk(n2.ast):
                if isinstance(x, ast.Call) and call_name(x) in STORAGE_CTORS:
                    for a in x.args:
                        if isinstance(a, ast.Name) and a.id == v:
                            return True
                        if isinstance(a, ast.Call) and call_name(a) in STORAGE_CTORS and any(isinstance(b, ast.Name) and b.id == v for b in a.args):
                            return True
    return False


def strip(test):
    pol = True
    while isinstance(test, ast.UnaryOp) and isinstance(test.op, ast.Not):
        test = test.operand
        pol = not pol
    return test, pol


def _writeable_stores_stmt(st):
    out = []
    if isinstance(st, ast.Assign):
        for t in st.targets:
            ch = attr_chain(t)
            if ch and len(ch) >= 3 and ch[-2:] == ["flags", "writeable"]:
                out.append((st, ch[:-2], st.value))
    return out


def _ro_guarded(cfg, nid):
    """node is only reachable when the array is writable: a dominating test of
    self.readonly (false edge) or self._writeable (true edge)."""
    for t, pol in known_atoms(cfg, nid):
        s = src(t)
        if s in ("self.readonly",) and pol is False:
            return True
        if s in ("self._writeable",) and pol is True:
            return True
    return False


def _loop_names(loop):
    if isinstance(loop.iter, (ast.List, ast.Tuple)) and all(isinstance(e, ast.Constant) for e in loop.iter.elts):
        return [e.value for e in loop.iter.elts]
    return None


def _is_copy_expr(fi, e):
    """expression is a fresh copy: X.copy(), AnyArray(X.copy()), np.array(X), np.copy(X)"""
    if isinstance(e, ast.Call):
        nm = call_name(e)
        if nm == "copy" and isinstance(e.func, ast.Attribute):
            return True
        if nm in ("AnyArray",) and e.args:
            return _is_copy_expr(fi, e.args[0])
        if nm in ("array", "copy") and isinstance(e.func, ast.Attribute) and src(e.func.value) in ("np", "numpy"):
            kw = {k.arg: k.value for k in e.keywords}
            if "copy" in kw and isinstance(kw["copy"], ast.Constant) and kw["copy"].value is False:
                return False
            return True
    return False


# ---------------------------------------------------------------------------------------------------------------- R07.7
def r07_7(ctx, m):
    """a field must not be built on (a view of) a buffer that the producing object keeps and overwrites"""
    ctx.rule("R07.7", "no method of a nifty.cl operator or field class returns a Field/AnyArray built on (a view of) an instance "
                      "attribute buffer that the same method writes in place: the next call would change the values of the field "
                      "handed out before (locking the view does not protect the retained base)", floor=15)
    L = m.cls("nifty.cl.operators.linear_operator", "LinearOperator")
    O = m.cls("nifty.cl.operators.operator", "Operator")
    classes = [c for c in m.subclasses(O) if not c.local] if hasattr(m, "subclasses") else []
    VIEWS = {"reshape", "ravel", "view", "squeeze", "transpose", "T", "swapaxes"}
    n_checked = 0
    for c in classes:
        for name, fi in c.methods.items():
            if name.startswith("__") and name != "__call__":
                continue
            # quick filter: method stores into a subscript and constructs a field
            has_store = any(isinstance(st, (ast.Assign, ast.AugAssign)) and isinstance((st.targets[0] if isinstance(st, ast.Assign) else st.target), ast.Subscript)
                            for st in walk_no_nested(fi.node))
            has_ctor = any(isinstance(x, ast.Call) and call_name(x) in ("Field", "from_raw", "AnyArray", "makeField") for x in walk_no_nested(fi.node))
            if not (has_store and has_ctor):
                continue
            n_checked += 1
            cfg = cfg_of(fi)
            rd = cfg.reaching_defs(fi.params())
            # aliases of instance attributes: name -> attr
            alias = {}
            for n in cfg.nodes:
                if n.kind == "stmt" and isinstance(n.ast, ast.Assign) and len(n.ast.targets) == 1 and isinstance(n.ast.targets[0], ast.Name):
                    v = n.ast.value
                    while isinstance(v, ast.Call) and isinstance(v.func, ast.Attribute) and v.func.attr in VIEWS:
                        v = v.func.value
                    if isinstance(v, ast.Attribute) and isinstance(v.value, ast.Name) and v.value.id == "self":
                        alias.setdefault(n.ast.targets[0].id, set()).add((v.attr, n.id))
            written = set()   # attrs written in place (directly or through an alias that may still be bound to the attribute)
            for n in cfg.nodes:
                if n.kind != "stmt" or not isinstance(n.ast, (ast.Assign, ast.AugAssign)):
                    continue
                t = n.ast.targets[0] if isinstance(n.ast, ast.Assign) else n.ast.target
                if not isinstance(t, ast.Subscript):
                    continue
                b = t.value
                if isinstance(b, ast.Attribute) and isinstance(b.value, ast.Name) and b.value.id == "self":
                    written.add(b.attr)
                elif isinstance(b, ast.Name) and b.id in alias:
                    for attr, d in alias[b.id]:
                        if d in (rd.get(n.id) or {}).get(b.id, ()):
                            written.add(attr)
            bad = None
            if written:
                for n, call in find_nodes(cfg, lambda q: isinstance(q, ast.Call) and call_name(q) in ("Field", "from_raw", "AnyArray", "makeField")):
                    for a in call.args:
                        v = a
                        while isinstance(v, ast.Call) and isinstance(v.func, ast.Attribute) and v.func.attr in VIEWS:
                            v = v.func.value
                        if isinstance(v, ast.Attribute) and isinstance(v.value, ast.Name) and v.value.id == "self" and v.attr in written:
                            bad = (call, v.attr)
                        elif isinstance(v, ast.Name) and v.id in alias:
                            for attr, d in alias[v.id]:
                                if attr in written and d in (rd.get(n.id) or {}).get(v.id, ()):
                                    bad = (call, attr)
            ctx.check("R07.7", f"{fi.key}::does not hand out a buffer it keeps and overwrites", bad is None,
                      None if bad is None else f"`{short(bad[0])}` wraps (a view of) self.{bad[1]}, which this method overwrites on every call", fi,
                      bad[0] if bad else None)
    if n_checked == 0:
        ctx.und("R07.7", "nifty.cl::methods that store into arrays and build fields", "none found", None)


_run_c07b = run


def run(ctx):  # noqa: F811
    _run_c07b(ctx)
    r07_7(ctx, ctx.model)


def r07_8(ctx, m):
    """the lock survives pickling and deep copies"""
    ctx.rule("R07.8", "numpy does not pickle the `writeable` flag of an array: a class that keeps a read-only typestate next to a numpy "
                      "buffer (AnyArray._writeable) must re-apply the lock when its state is restored (__setstate__ / __reduce__ that "
                      "clears flags.writeable or calls lock() under the read-only state) - otherwise every unpickled or deep-copied "
                      "field (MPI transfer, checkpoints, operator_tree_optimiser's deepcopy) hands out a writable buffer through .raw", floor=1)
    A = m.cls(ANY, "AnyArray")
    key = f"{A.key}::read-only state is re-applied to the numpy buffer on unpickling"
    ss = A.methods.get("__setstate__")
    red = A.methods.get("__reduce__") or A.methods.get("__reduce_ex__")
    if ss is None and red is None:
        ctx.bad("R07.8", key, "no __setstate__/__reduce__: the default protocol restores _writeable = False but the numpy array comes back writeable", A)
        return
    fi = ss or red
    ctx.saw_func(fi)
    cfg = cfg_of(fi)
    relock = []
    for n in cfg.nodes:
        if n.kind != "stmt" or n.ast is None:
            continue
        t = src(n.ast).replace(" ", "")
        if "flags.writeable=False" in t or t.endswith(".lock()"):
            relock.append(n)
    restores = any(isinstance(c, ast.Call) and src(c.func) in ("self.__dict__.update", "vars(self).update") for c in walk_no_nested(fi.node)) or \
        any(isinstance(st, ast.Assign) and src(st.targets[0]) in ("self.__dict__", "self._val") for st in walk_no_nested(fi.node))
    if not relock:
        ctx.bad("R07.8", key, f"{fi.name} restores the state without clearing flags.writeable", fi)
        return
    guards = known_atoms(cfg, relock[0].id)
    under_ro = any(("_writeable" in src(t) and not pol) or ("readonly" in src(t) and pol) for t, pol in guards) or \
        any(isinstance(t, ast.UnaryOp) and "_writeable" in src(t) and pol for t, pol in guards)
    ctx.check("R07.8", key, True if (restores and (under_ro or not guards)) else None,
              f"`{short(relock[0].ast, 60)}` under {[('' if p else 'not ') + src(t) for t, p in guards]}", fi, relock[0].ast)


_run_c07d = run


def run(ctx):  # noqa: F811
    _run_c07d(ctx)
    r07_8(ctx, ctx.model)


def r07_9(ctx, m):
    """the container of a multi-field is immutable too"""
    ctx.rule("R07.9", "MultiField stores its entries in a tuple: the constructor only accepts a tuple (or converts to one) before "
                      "`self._val = ...`; a caller-owned list stored as is could be modified afterwards (and values() hands the same "
                      "object out), changing the multi-field although every Field in it is locked", floor=1)
    MF = m.cls(MFLD, "MultiField")
    ini = MF.methods["__init__"]
    ctx.saw_func(ini)
    valn = ini.params()[2] if len(ini.params()) > 2 else "val"
    store = [st for st in walk_no_nested(ini.node) if isinstance(st, ast.Assign) and src(st.targets[0]) == "self._val"]
    key = f"{ini.key}::entries are stored as a tuple"
    if len(store) != 1:
        ctx.und("R07.9", key, f"{len(store)} stores of self._val", ini)
        return
    v = store[0].value
    if isinstance(v, ast.Call) and src(v.func) == "tuple":
        ctx.ok("R07.9", key, src(v), ini, store[0])
        return
    cfg = cfg_of(ini)
    nodes = [n for n in cfg.nodes if n.kind == "stmt" and n.ast is store[0]]
    types = None
    for n in cfg.nodes:
        if n.kind == "stmt" and isinstance(n.ast, ast.Raise):
            for t, pol in known_atoms(cfg, n.id):
                if isinstance(t, ast.Call) and src(t.func) == "isinstance" and len(t.args) == 2 and src(t.args[0]) == valn and not pol:
                    ty = t.args[1]
                    types = {src(e) for e in ty.elts} if isinstance(ty, ast.Tuple) else {src(ty)}
    if src(v) != valn or types is None:
        ctx.und("R07.9", key, f"`{src(store[0])}`; accepted types {types}", ini, store[0])
    else:
        ctx.check("R07.9", key, types <= {"tuple"}, f"`{src(store[0])}` with accepted types {sorted(types)}: a mutable container becomes the storage", ini, store[0])


_run_c07e = run


def run(ctx):  # noqa: F811
    _run_c07e(ctx)
    r07_9(ctx, ctx.model)
