"""C08 - canonical domain identity: factory-only construction, cache protocol, pickling through the factory,
well-defined hash/eq key."""
import ast

from ..initflow import attr_summary
from ..model import src, short, walk_no_nested, call_name, is_self_attr, stmt_targets, cc
from ..util import cfg_of, find_nodes, known_atoms, assigned_attrs

DT = ("nifty.cl.domain_tuple", "DomainTuple")
MD = ("nifty.cl.multi_domain", "MultiDomain")
PS = ("nifty.cl.domains.power_space", "PowerSpace")
DOM = ("nifty.cl.domains.domain", "Domain")


def run(ctx):
    m = ctx.model
    D, M, P = m.cls(*DT), m.cls(*MD), m.cls(*PS)
    Dom = m.cls(*DOM)
    for c in (D, M, P, Dom):
        ctx.saw_class(c)

    # ------------------------------------------------------------------ R08.1
    ctx.rule("R08.1", "factory-only construction: DomainTuple(...)/MultiDomain(...) constructor calls occur only inside the "
                      "respective make(); __init__ raises unless the private flag is set; no __new__ bypass", floor=4)
    for C in (D, M):
        init = C.methods["__init__"]
        ctx.saw_func(init)
        cfg = cfg_of(init)
        first_store = [n for n in cfg.nodes if n.kind == "stmt" and isinstance(n.ast, ast.Assign)
                       and any(is_self_attr(t) for t in n.ast.targets)]
        guard_ok = bool(first_store) and all(
            any(src(t) == "_callingfrommake" and pol for t, pol in known_atoms(cfg, s.id)) for s in first_store)
        dflt = init.node.args.defaults
        dflt_false = bool(dflt) and isinstance(dflt[-1], ast.Constant) and dflt[-1].value is False
        ctx.check("R08.1", f"{init.key}::raises unless _callingfrommake", guard_ok and dflt_false,
                  "attribute stores are reachable without the private flag" if not guard_ok else "flag defaults to a truthy value", init)
    n_ctor = 0
    for mod in m.modules.values():
        if not mod.name.startswith("nifty.cl"):
            continue
        for fi in mod.all_functions:
            for c in walk_no_nested(fi.node):
                if not isinstance(c, ast.Call):
                    continue
                k, o = (None, None)
                if isinstance(c.func, (ast.Name, ast.Attribute)):
                    k, o = m.resolve_expr(mod, c.func)
                if k == "class" and o in (D, M):
                    n_ctor += 1
                    inside = fi.cls is o and fi.name == "make"
                    ctx.check("R08.1", f"{fi.key}::{short(c, 70)}", inside,
                              f"{o.name} is constructed outside {o.name}.make: the object bypasses the identity cache", fi, c)
                if isinstance(c.func, ast.Attribute) and c.func.attr == "__new__" and c.args and src(c.args[0]) in ("DomainTuple", "MultiDomain"):
                    ctx.bad("R08.1", f"{fi.key}::{short(c, 70)}", "constructor bypass via __new__", fi, c)
    ctx.extra["constructor_call_sites"] = n_ctor

    # ------------------------------------------------------------------ R08.2
    ctx.rule("R08.2", "cache protocol in make(): the key looked up is the key stored, the constructor call is dominated by "
                      "the failed lookup, the stored object is the returned one, instances are returned unchanged; "
                      "PowerSpace caches under the normalised (partner, tuple(binbounds)) key", floor=8)
    for C, cache in ((D, "_tupleCache"), (M, "_domainCache")):
        mk = C.methods["make"]
        ctx.saw_func(mk)
        cfg = cfg_of(mk)
        rd = cfg.reaching_defs(mk.params())
        arg = mk.params()[0]
        K = mk.key
        gets = [(n, c) for n, c in find_nodes(cfg, lambda q: isinstance(q, ast.Call) and call_name(q) == "get"
                                              and src(q.func.value) == f"{C.name}.{cache}")]
        stores = [n for n in cfg.nodes if n.kind == "stmt" and isinstance(n.ast, ast.Assign)
                  and isinstance(n.ast.targets[0], ast.Subscript) and src(n.ast.targets[0].value) == f"{C.name}.{cache}"]
        ctors = [(n, c) for n, c in find_nodes(cfg, lambda q: isinstance(q, ast.Call) and src(q.func) == C.name)]
        if len(gets) != 1 or len(stores) != 1 or len(ctors) != 1:
            ctx.und("R08.2", f"{K}::cache idiom", f"gets={len(gets)} stores={len(stores)} ctors={len(ctors)}", mk)
            continue
        (gn, gc), sn, (cn, cc) = gets[0], stores[0], ctors[0]
        kget, kst = gc.args[0], sn.ast.targets[0].slice
        same_key = isinstance(kget, ast.Name) and isinstance(kst, ast.Name) and kget.id == kst.id and \
            rd[gn.id].get(kget.id) == rd[sn.id].get(kst.id)
        ctx.check("R08.2", f"{K}::lookup key == store key", same_key, f"get({src(kget)}) vs [{src(kst)}]", mk, sn.ast)
        # constructor receives that key
        ctx.check("R08.2", f"{K}::object is constructed from the cache key", cc.args and src(cc.args[0]) == src(kget)
                  and rd[cn.id].get(kget.id) == rd[gn.id].get(kget.id), short(cc), mk, cc)
        # constructor dominated by failed lookup
        at = known_atoms(cfg, cn.id)
        got = gn.ast.targets[0].id if isinstance(gn.ast, ast.Assign) and isinstance(gn.ast.targets[0], ast.Name) else None
        failed = any(src(t) in (f"{got} is not None",) and not pol or src(t) in (f"{got} is None",) and pol for t, pol in at)
        dom = cfg.dominators()
        ctx.check("R08.2", f"{K}::constructor runs only after a failed lookup", failed and gn.id in dom[cn.id],
                  f"guards: {[('' if p else 'not ') + src(t) for t, p in at]}", mk, cc)
        # hit returns the cached object
        hit = [n for n in cfg.nodes if n.kind == "stmt" and isinstance(n.ast, ast.Return) and src(n.ast.value) == got
               and gn.id in rd[n.id].get(got, ())]
        ctx.check("R08.2", f"{K}::a cache hit returns the cached object", bool(hit), None, mk)
        # stored object is the constructed and returned one
        newname = cn.ast.targets[0].id if isinstance(cn.ast, ast.Assign) and isinstance(cn.ast.targets[0], ast.Name) else None
        stored_new = newname is not None and src(sn.ast.value) == newname and rd[sn.id].get(newname) == frozenset([cn.id])
        ret_new = [n for n in cfg.nodes if n.kind == "stmt" and isinstance(n.ast, ast.Return) and src(n.ast.value) == newname
                   and rd[n.id].get(newname) == frozenset([cn.id]) and sn.id in dom[n.id]]
        ctx.check("R08.2", f"{K}::the new object is stored and then returned", stored_new and bool(ret_new), None, mk, sn.ast)
        # isinstance shortcut
        sc = [n for n in cfg.nodes if n.kind == "stmt" and isinstance(n.ast, ast.Return) and src(n.ast.value) == arg
              and any(src(t) == f"isinstance({arg}, {C.name})" and pol for t, pol in known_atoms(cfg, n.id))
              and rd[n.id].get(arg) == frozenset([cfg.entry.id])]
        ctx.check("R08.2", f"{K}::an existing {C.name} is returned unchanged", bool(sc), None, mk)
    # MultiDomain: entries canonicalised through DomainTuple.make and keys sorted in __init__
    mk = M.methods["make"]
    canon = any(isinstance(c, ast.Call) and src(c.func) == "DomainTuple.make" for c in ast.walk(mk.node))
    ctx.check("R08.2", f"{mk.key}::values canonicalised through DomainTuple.make", canon, None, mk)
    mi = M.methods["__init__"]
    srt = any(isinstance(st, ast.Assign) and any(is_self_attr(t, "_keys") for t in st.targets) and "sorted(" in src(st.value)
              for st in walk_no_nested(mi.node))
    ctx.check("R08.2", f"{mi.key}::keys are stored sorted (insertion order cannot leak into identity)", srt, None, mi)
    # PowerSpace cache
    pi = P.methods["__init__"]
    ctx.saw_func(pi)
    cfg = cfg_of(pi)
    rd = cfg.reaching_defs(pi.params())
    knodes = [n for n in cfg.nodes if n.kind == "stmt" and isinstance(n.ast, ast.Assign)
              and any(isinstance(t, ast.Name) and t.id == "key" for t in n.ast.targets)]
    if len(knodes) != 1:
        ctx.und("R08.2", f"{pi.key}::cache key", f"{len(knodes)} key assignments", pi)
    else:
        kn = knodes[0]
        kv = kn.ast.value
        good = isinstance(kv, ast.Tuple) and len(kv.elts) == 2
        # binbounds normalised to a tuple on every path where it is not None
        norm = False
        if good and isinstance(kv.elts[1], ast.Name):
            bb = kv.elts[1].id
            defs = rd[kn.id].get(bb, frozenset())
            kinds = []
            for d in defs:
                dn = cfg.nodes[d]
                if dn.kind == "entry":
                    kinds.append("param")
                elif isinstance(dn.ast, ast.Assign) and isinstance(dn.ast.value, ast.Call) and src(dn.ast.value.func) == "tuple":
                    kinds.append("tuple")
                else:
                    kinds.append("other")
            # the raw parameter may only reach the key when it is None
            norm = "other" not in kinds and "tuple" in kinds
            if "param" in kinds:
                tn = [n for n in cfg.nodes if n.kind == "stmt" and isinstance(n.ast, ast.Assign) and isinstance(n.ast.value, ast.Call)
                      and src(n.ast.value.func) == "tuple" and any(isinstance(t, ast.Name) and t.id == bb for t in n.ast.targets)]
                norm = norm and all(any(src(t) == f"{bb} is not None" and pol for t, pol in known_atoms(cfg, x.id)) for x in tn)
        ctx.check("R08.2", f"{pi.key}::cache key is (partner, tuple(binbounds))", good and norm, src(kv), pi, kn.ast)
        uses = [c for c in walk_no_nested(pi.node) if isinstance(c, (ast.Subscript, ast.Call)) and "_powerIndexCache" in src(c)]
        keys = set()
        for u in uses:
            if isinstance(u, ast.Subscript) and src(u.value).endswith("_powerIndexCache"):
                keys.add(src(u.slice))
            if isinstance(u, ast.Call) and call_name(u) == "get" and src(u.func.value).endswith("_powerIndexCache"):
                keys.add(src(u.args[0]))
        ctx.check("R08.2", f"{pi.key}::lookup, store and read-back use the same key", keys == {"key"}, f"keys used: {sorted(keys)}", pi)

    # ------------------------------------------------------------------ R08.3
    ctx.rule("R08.3", "pickling goes through the factory: __reduce__ returns a module-level callable whose body calls make / "
                      "the caching constructor with the reduced arguments", floor=3)
    for C, maker in ((D, "DomainTuple.make"), (M, "MultiDomain.make"), (P, "PowerSpace")):
        red = C.methods.get("__reduce__")
        key = f"{C.key}::__reduce__ re-creates through {maker}"
        if red is None:
            ctx.bad("R08.3", key, "no __reduce__: default pickling copies the object and bypasses the identity cache", C)
            continue
        ctx.saw_func(red)
        rets = [r for r in walk_no_nested(red.node) if isinstance(r, ast.Return)]
        good = False
        detail = None
        if len(rets) == 1 and isinstance(rets[0].value, ast.Tuple) and len(rets[0].value.elts) >= 2 and isinstance(rets[0].value.elts[0], ast.Name):
            fn = C.module.functions.get(rets[0].value.elts[0].id)
            if fn is not None:
                ctx.saw_func(fn)
                fr = [r for r in walk_no_nested(fn.node) if isinstance(r, ast.Return)]
                good = len(fr) == 1 and isinstance(fr[0].value, ast.Call) and src(fr[0].value.func) == maker and \
                    (fn.node.args.vararg is not None and [src(a) for a in fr[0].value.args] == [f"*{fn.node.args.vararg.arg}"]
                     or [src(a) for a in fr[0].value.args] == fn.params())
                detail = short(fr[0]) if fr else None
        ctx.check("R08.3", key, good, detail, red)

    # ------------------------------------------------------------------ R08.4
    ctx.rule("R08.4", "hash/eq key: every attribute in _needed_for_hash is assigned on every constructor path, never "
                      "re-assigned afterwards, and bound to a hashable canonical form; no Domain subclass overrides __eq__/__hash__", floor=10)
    subs = [c for c in m.subclasses(Dom) if not c.local]
    n = 0
    for c in subs:
        r = m.resolve_attr(c, "_needed_for_hash")
        if r is None or r[0] != "value":
            continue
        node = r[1][1]
        if not isinstance(node, (ast.List, ast.Tuple)):
            ctx.und("R08.4", f"{c.key}::_needed_for_hash", "not a literal", c)
            continue
        attrs = [e.value for e in node.elts if isinstance(e, ast.Constant)]
        init = m.resolve_method(c, "__init__")
        if init is None:
            continue
        ctx.saw_class(c)
        ctx.saw_func(init)
        must, may, normal = attr_summary(m, c, init)
        for a in attrs:
            n += 1
            ctx.check("R08.4", f"{c.key}::{a} assigned on every constructor path", a in must,
                      f"assigned on {'some' if a in may else 'no'} path(s) of {init.key}", init)
            # not assigned outside __init__
            later = []
            for k in m.mro(c):
                for fi in k.methods.values():
                    if fi.name == "__init__":
                        continue
                    if a in assigned_attrs(fi.node):
                        later.append(fi.key)
            ctx.check("R08.4", f"{c.key}::{a} is never re-assigned after construction", not later, f"re-assigned in {later}", c)
            # canonical form
            verdicts = []
            for st in assigned_attrs(init.node).get(a, []):
                verdicts.append((_canonical(st, a, init), st))
            for v, st in verdicts:
                ctx.check("R08.4", f"{c.key}::{a} = {short(getattr(st, 'value', st), 60)} is hashable/canonical", v,
                          "bound to a mutable / array value: equal descriptions would not compare or hash equal", init, st)
        for dunder in ("__eq__", "__hash__"):
            if any(dunder in k.methods for k in m.mro(c) if k is not Dom and Dom in m.mro(k)):
                ctx.bad("R08.4", f"{c.key}::overrides {dunder}", "identity key is no longer _needed_for_hash", c)
    ctx.extra["hash_attrs_checked"] = n
    # DomainTuple / MultiDomain: __hash__ and __eq__ look at the same state
    for C, attrs in ((D, {"_dom"}), (M, {"_keys", "_domains"})):
        h = C.methods.get("__hash__")
        e = C.methods.get("__eq__")
        if h is None or e is None:
            ctx.bad("R08.4", f"{C.key}::defines __hash__ and __eq__", "missing", C)
            continue
        hs = {x.attr for x in ast.walk(h.node) if is_self_attr(x)}
        ctx.check("R08.4", f"{C.key}::__hash__ uses the canonical state {sorted(attrs)}", hs == attrs, f"uses {sorted(hs)}", h)


CANON_CALLS = {"int", "float", "bool", "str", "tuple", "frozenset", "frozendict"}
MUTABLE_CALLS = {"list", "dict", "set", "array", "asarray", "zeros", "ones", "empty", "arange", "linspace"}


def _canonical(st, attr, init):
    if not isinstance(st, ast.Assign):
        return None
    if len(st.targets) == 1 and isinstance(st.targets[0], ast.Tuple):
        return None  # unpacked from a cache tuple etc.
    v = st.value
    # chained assignment self._a = self._b = value
    return _canon_expr(v, init)


def _canon_expr(v, init):
    if isinstance(v, ast.Constant):
        return True
    if isinstance(v, ast.Call):
        nm = call_name(v)
        if nm in CANON_CALLS:
            return True
        if nm in MUTABLE_CALLS:
            return False
        return None
    if isinstance(v, ast.Tuple):
        rs = [_canon_expr(e, init) for e in v.elts]
        if any(r is False for r in rs):
            return False
        return True if all(r is True for r in rs) else None
    if isinstance(v, (ast.List, ast.Dict, ast.Set, ast.ListComp, ast.DictComp, ast.SetComp)):
        return False
    if isinstance(v, ast.BinOp):
        a, b = _canon_expr(v.left, init), _canon_expr(v.right, init)
        if a is False or b is False:
            return False
        return True if a and b else None
    if isinstance(v, ast.Attribute) and isinstance(v.value, ast.Name) and v.value.id == "self":
        return True  # another (already canonical or derived) attribute
    if isinstance(v, ast.Name):
        return None  # raw parameter / local: not decided
    return None


# --------------------------------------------------------------------------- R08.5
def r08_5(ctx, m, subs):
    """Equal descriptions given in different representations (scalar vs per-axis tuple ...) must produce bit-identical hash-key
    values: the branches of a constructor that compute one hash attribute from the same inputs use the same floating-point
    expression (algebraically equal forms such as 1/(a*b) and 1/a/b differ in the last bit)."""
    ctx.rule("R08.5", "branches of a domain constructor that compute a hash-key attribute from the same inputs use the same arithmetic "
                      "expression (so equal descriptions in different representations hash and compare equal bit for bit)", floor=1)
    for c in subs:
        r = m.resolve_attr(c, "_needed_for_hash")
        if r is None or r[0] != "value" or not isinstance(r[1][1], (ast.List, ast.Tuple)):
            continue
        attrs = [e.value for e in r[1][1].elts if isinstance(e, ast.Constant)]
        init = c.methods.get("__init__")
        if init is None:
            continue
        params = init.params()[1:]
        # names derived from a parameter (one step: x = f(param) / x[:] = param)
        root = {p: p for p in params}
        for st in walk_no_nested(init.node):
            if isinstance(st, ast.Assign):
                srcs_ = {n.id for n in ast.walk(st.value) if isinstance(n, ast.Name) and n.id in root}
                for t in st.targets:
                    base = t.value if isinstance(t, ast.Subscript) else t
                    if isinstance(base, ast.Name) and len(srcs_) == 1 and base.id not in params:
                        root[base.id] = root[next(iter(srcs_))]
                    if isinstance(base, ast.Attribute) and isinstance(base.value, ast.Name) and base.value.id == "self" and len(srcs_) == 1:
                        root["self." + base.attr] = root[next(iter(srcs_))]

        def skel(e):
            """(skeleton text, frozenset of leaf roots)"""
            if isinstance(e, ast.Call) and call_name(e) in ("tuple", "float", "array", "asarray", "int") and len(e.args) == 1:
                return skel(e.args[0])
            if isinstance(e, ast.BinOp) and isinstance(e.op, ast.Mult) and isinstance(e.left, (ast.Tuple, ast.List)):
                return "<sequence repetition>", frozenset(["?"])
            if isinstance(e, ast.BinOp) and isinstance(e.op, (ast.Mult, ast.Div, ast.Add, ast.Sub, ast.Pow)):
                l, ll = skel(e.left)
                r_, rl = skel(e.right)
                op = {ast.Mult: "*", ast.Div: "/", ast.Add: "+", ast.Sub: "-", ast.Pow: "**"}[type(e.op)]
                return f"({l} {op} {r_})", ll | rl
            if isinstance(e, ast.Constant):
                return repr(float(e.value)) if isinstance(e.value, (int, float)) else repr(e.value), frozenset()
            names = {n.id for n in ast.walk(e) if isinstance(n, ast.Name)} | \
                {"self." + n.attr for n in ast.walk(e) if isinstance(n, ast.Attribute) and isinstance(n.value, ast.Name) and n.value.id == "self"}
            roots = {root[n] for n in names if n in root}
            if len(roots) == 1:
                rt = next(iter(roots))
                return f"<{rt}>", frozenset([rt])
            return "<?>", frozenset(["?"])
        for a in attrs:
            forms = {}
            stmts = []
            for st in walk_no_nested(init.node):
                if isinstance(st, ast.Assign) and any(is_self_attr(t, a) for t in st.targets):
                    v = st.value
                    # inline a directly preceding temporary: self._a = tuple(temp) with temp = <arith>
                    inner = v.args[0] if isinstance(v, ast.Call) and call_name(v) == "tuple" and len(v.args) == 1 else v
                    if isinstance(inner, ast.Name):
                        defs = [s2 for s2 in walk_no_nested(init.node) if isinstance(s2, ast.Assign) and isinstance(s2.targets[0], ast.Name)
                                and s2.targets[0].id == inner.id and isinstance(s2.value, ast.BinOp)]
                        if len(defs) == 1:
                            v = defs[0].value
                    sk, leaves = skel(v)
                    if "(" in sk and "?" not in leaves and len(leaves) >= 2:
                        forms.setdefault(leaves, set()).add(sk)
                        stmts.append(st)
            for leaves, sks in forms.items():
                key = f"{c.key}::{a} computed from {sorted(leaves)}: one floating-point expression in all branches"
                ctx.check("R08.5", key, len(sks) == 1,
                          f"branches use different expressions {sorted(sks)}: algebraically equal but not bit-identical, so the same "
                          "description given as a scalar and as a tuple yields unequal domains", init, stmts[0] if stmts else None)


_run_c08 = run


def run(ctx):  # noqa: F811
    _run_c08(ctx)
    m = ctx.model
    Dom = m.cls(*DOM)
    r08_5(ctx, m, [c for c in m.subclasses(Dom) if not c.local])


def r08_6(ctx, m):
    """power space: the non-empty-bin test covers every bin the bounds describe, before anything is cached"""
    from ..terms import inline_at
    P = m.cls(*PS)
    pi = P.methods["__init__"]
    ctx.rule("R08.6", "PowerSpace: bin populations are counted for all len(bounds)+1 bins (bincount with that minlength) and the "
                      "constructor raises on an empty bin before the binning is cached", floor=2)
    cfg = cfg_of(pi)
    rd = cfg.reaching_defs(pi.params())
    bcs = [(n, c) for n, c in find_nodes(cfg, lambda q: isinstance(q, ast.Call) and call_name(q) == "bincount" and not any(k.arg == "weights" for k in q.keywords))]
    key = f"{pi.key}::population count spans len(bounds)+1 bins"
    if len(bcs) != 1:
        ctx.und("R08.6", key, f"{len(bcs)} unweighted bincount calls", pi)
        return
    n, c = bcs[0]
    ml = [k.value for k in c.keywords if k.arg == "minlength"]
    good = False
    det = "no minlength: bins above the largest occupied one are not counted, so an empty upper bin goes unnoticed"
    if ml:
        e = inline_at(cfg, rd, n.id, ml[0], depth=1)
        det = src(e)
        good = isinstance(e, ast.BinOp) and isinstance(e.op, ast.Add) and {src(e.left), src(e.right)} >= {"1"} and "len(" in src(e)
    ctx.check("R08.6", key, good, det, pi, c)
    rho = n.ast.targets[0].id if isinstance(n.ast, ast.Assign) and isinstance(n.ast.targets[0], ast.Name) else None
    tests = [t for t in cfg.nodes if t.kind == "test" and rho and f"({rho} == 0).any()" in src(t.ast)]
    stores = [x for x in cfg.nodes if x.kind == "stmt" and isinstance(x.ast, ast.Assign) and isinstance(x.ast.targets[0], ast.Subscript)
              and "_powerIndexCache" in src(x.ast.targets[0])]
    dom = cfg.dominators()
    okk = len(tests) == 1 and bool(stores) and all(tests[0].id in dom[x.id] for x in stores) and \
        cfg.raise_exit.id in cfg.reachable([b for b, l in cfg.succ[tests[0].id] if l == "T"])
    ctx.check("R08.6", f"{pi.key}::raises on an empty bin before caching", okk, None, pi)


_run_c08b = run


def run(ctx):  # noqa: F811
    _run_c08b(ctx)
    r08_6(ctx, ctx.model)


def r08_7(ctx, m):
    """a quantity asked for a subset of the sub-domains is built from those sub-domains only"""
    ctx.rule("R08.7", "DomainTuple.scalar_weight(spaces) / total_volume(spaces): every returned value is built from self._dom[i] for "
                      "the requested i only - no aggregate of the whole tuple (size, shape, axes) enters it (the volume of a "
                      "sub-selection is not pixel weight times the pixel count of the full tuple)", floor=4)
    C = m.cls(*DT)
    for name in ("scalar_weight", "total_volume"):
        fi = C.methods.get(name)
        if fi is None:
            ctx.und("R08.7", f"{C.key}::{name}", "method missing", C)
            continue
        ctx.saw_func(fi)
        for r in walk_no_nested(fi.node):
            if not isinstance(r, ast.Return) or r.value is None:
                continue
            # names feeding the return value (flow-insensitive backward slice over the function's assignments)
            feeds, work = set(), [r.value]
            seen_names = set()
            while work:
                e = work.pop()
                for x in ast.walk(e):
                    if isinstance(x, ast.Attribute) and src(x.value) == "self":
                        feeds.add(x.attr)
                    if isinstance(x, ast.Name) and x.id not in seen_names:
                        seen_names.add(x.id)
                        for st in walk_no_nested(fi.node):
                            if isinstance(st, (ast.Assign, ast.AugAssign)) and any(isinstance(t, ast.Name) and t.id == x.id
                                                                                   for t in ast.walk(st.targets[0] if isinstance(st, ast.Assign) else st.target)):
                                work.append(st.value)
            whole = sorted(a for a in feeds if a.lstrip("_") in ("size", "shape", "axes", "axtuple", "local_shape") or a in ("__len__",))
            ctx.check("R08.7", f"{fi.key}::`{short(r, 50)}` uses the requested sub-domains only", not whole,
                      f"reads self.{whole[0]}, an aggregate over ALL sub-domains" if whole else None, fi, r)


def r08_8(ctx, m, subs):
    """shared caches of derived quantities are keyed by everything the cached value depends on"""
    ctx.rule("R08.8", "class-level caches in domain classes: for every store CACHE[key] = value inside a method, the inputs the value "
                      "is computed from (parameters and self attributes, through the local assignments) are a subset of the inputs "
                      "of the key - otherwise an equal-keyed but different domain gets another domain's numbers", floor=1)
    n_found = 0
    for C in subs:
        caches = {k for k, v in C.consts.items() if isinstance(v, (ast.Dict,)) or (isinstance(v, ast.Call) and src(v.func) in ("dict", "OrderedDict"))}
        if not caches:
            continue
        for name, fi in sorted(C.methods.items()):
            params = set(fi.params()[1:])
            assigns = {}
            for st in walk_no_nested(fi.node):
                if isinstance(st, ast.Assign):
                    for t in st.targets:
                        for x in ast.walk(t):
                            if isinstance(x, ast.Name) and isinstance(x.ctx, ast.Store):
                                assigns.setdefault(x.id, []).append(st.value)
                elif isinstance(st, ast.AugAssign) and isinstance(st.target, ast.Name):
                    assigns.setdefault(st.target.id, []).append(st.value)
                elif isinstance(st, ast.For):
                    for x in ast.walk(st.target):
                        if isinstance(x, ast.Name):
                            assigns.setdefault(x.id, []).append(st.iter)

            def inputs(e):
                out, work, seen = set(), [e], set()
                while work:
                    q = work.pop()
                    for x in ast.walk(q):
                        if isinstance(x, ast.Attribute) and src(x.value) == "self" and x.attr not in caches:
                            out.add(x.attr.lstrip("_"))
                        elif isinstance(x, ast.Name) and x.id not in seen:
                            seen.add(x.id)
                            if x.id in params and x.id not in assigns:
                                out.add(x.id.lstrip("_"))
                            elif x.id in params:
                                out.add(x.id.lstrip("_"))
                                work.extend(assigns[x.id])
                            elif x.id in assigns:
                                work.extend(assigns[x.id])
                return out
            for st in walk_no_nested(fi.node):
                if isinstance(st, ast.Assign) and isinstance(st.targets[0], ast.Subscript) and isinstance(st.targets[0].value, ast.Attribute) \
                        and st.targets[0].value.attr in caches:
                    n_found += 1
                    ctx.saw_func(fi)
                    kin, vin = inputs(st.targets[0].slice), inputs(st.value)
                    extra = sorted(vin - kin)
                    ctx.check("R08.8", f"{fi.key}::{st.targets[0].value.attr}[{short(st.targets[0].slice, 30)}] is keyed by all inputs of its value",
                              not extra, f"value depends on {sorted(vin)}, key only on {sorted(kin)}: {extra} missing from the key", fi, st)
    if not n_found:
        ctx.und("R08.8", "nifty/cl/domains::class-level cache stores", "none found", "nifty/cl/domains")


def r08_9(ctx, m):
    """LMSpace: unique k-lengths = the l values of the m=0 block of the k-length table"""
    from ..terms import canon
    ctx.rule("R08.9", "LMSpace: get_k_length_array fills its leading (m = 0) block with arange(B) and get_unique_k_lengths returns "
                      "arange(B') with the same bound B' = B = lmax + 1 - the table contains every l from 0 to lmax, whatever mmax is", floor=1)
    C = m.cls("nifty.cl.domains.lm_space", "LMSpace")
    ka, uk = C.methods.get("get_k_length_array"), C.methods.get("get_unique_k_lengths")
    if ka is None or uk is None:
        ctx.error("R08.9: LMSpace k-length methods missing")
        return
    ctx.saw_func(ka)
    ctx.saw_func(uk)

    def norm_bound(e, fi):
        # inline plain local aliases of attributes and the trivial properties lmax/mmax
        loc = {src(st.targets[0]): st.value for st in walk_no_nested(fi.node) if isinstance(st, ast.Assign) and isinstance(st.targets[0], ast.Name)
               and isinstance(st.value, ast.Attribute)}
        t = src(e)
        for k, v in loc.items():
            t = __import__("re").sub(rf"\b{k}\b", src(v), t)
        t = t.replace("self.lmax", "self._lmax").replace("self.mmax", "self._mmax")
        return canon(ast.parse(t, mode="eval").body, add=True)
    first = None
    for st in walk_no_nested(ka.node):
        if isinstance(st, ast.Assign) and isinstance(st.targets[0], ast.Subscript) and isinstance(st.targets[0].slice, ast.Slice) \
                and st.targets[0].slice.lower is not None and src(st.targets[0].slice.lower) == "0" and st.targets[0].slice.step is None \
                and isinstance(st.value, ast.Call) and call_name(st.value) == "arange" and st.value.args:
            first = st
    rets = [r for r in walk_no_nested(uk.node) if isinstance(r, ast.Return)]
    key = f"{uk.key}::arange bound equals the bound of the table's m=0 block"
    if first is None or len(rets) != 1 or not (isinstance(rets[0].value, ast.Call) and call_name(rets[0].value) == "arange" and rets[0].value.args):
        ctx.und("R08.9", key, "shape not recognised", uk)
        return
    b_tab, b_uni = norm_bound(first.value.args[0], ka), norm_bound(rets[0].value.args[0], uk)
    ctx.check("R08.9", key, b_tab == b_uni, f"table block: arange({b_tab}); unique: arange({b_uni})", uk, rets[0])


_run_c08c = run


def run(ctx):  # noqa: F811
    _run_c08c(ctx)
    m = ctx.model
    Dom = m.cls(*DOM)
    r08_7(ctx, m)
    r08_8(ctx, m, [c for c in m.subclasses(Dom) if not c.local])
    r08_9(ctx, m)


def r08_10(ctx, m):
    """isotropy shortcut of the unique k-lengths"""
    from ..util import cfg_of, known_atoms
    ctx.rule("R08.10", "RGSpace.get_unique_k_lengths: the closed-form shortcut for isotropic grids (k^2 = integer * d^2) is entered only "
                       "under a test that compares ALL distances (np.all(distances == distances[0]) or an equivalent over the whole "
                       "vector); a test of two selected axes lets anisotropic grids of three or more dimensions through", floor=1)
    C = m.cls("nifty.cl.domains.rg_space", "RGSpace")
    fi = C.methods.get("get_unique_k_lengths")
    if fi is None:
        ctx.error("R08.10: RGSpace.get_unique_k_lengths missing")
        return
    ctx.saw_func(fi)
    cfg = cfg_of(fi)
    # the shortcut: a return whose value is scaled by a single distance entry and that does not consult the k-length array
    for n in cfg.nodes:
        if n.kind != "stmt" or not isinstance(n.ast, ast.Return) or n.ast.value is None:
            continue
        v = src(n.ast.value)
        if "self.distances[0]" not in v and "self._rdistances[0]" not in v:
            continue
        atoms = known_atoms(cfg, n.id)
        tests = [(t, pol) for t, pol in atoms if "distances" in src(t)]
        dim1 = any(pol and ("== 1" in cc(t)) for t, pol in atoms)
        key = f"{fi.key}::`{short(n.ast, 50)}` is reached for isotropic grids only"
        if dim1:
            ctx.ok("R08.10", key, "one-dimensional grid", fi, n.ast)
            continue
        whole = [t for t, pol in tests if pol and any(isinstance(c, ast.Call) and call_name(c) in ("all", "allclose", "array_equal", "ptp", "unique", "set") for c in ast.walk(t))]
        pair = [t for t, pol in tests if pol and isinstance(t, ast.Compare) and all(isinstance(x, ast.Subscript) for x in [t.left] + list(t.comparators))]
        if whole:
            ctx.ok("R08.10", key, f"guard `{src(whole[0])}`", fi, n.ast)
        elif pair:
            ctx.bad("R08.10", key, f"guard `{src(pair[0])}` compares two entries only: an anisotropic grid with equal first and last "
                                   "distance takes the isotropic closed form", fi, n.ast)
        else:
            ctx.und("R08.10", key, f"guards {[src(t) for t, p in tests]}", fi, n.ast)


_run_c08d = run


def run(ctx):  # noqa: F811
    _run_c08d(ctx)
    r08_10(ctx, ctx.model)


def r08_11(ctx, m):
    D = m.cls(*DOM)
    h = D.methods.get("__hash__")
    ctx.rule("R08.11", "Domain.__hash__ memoises its value in the instance, and the default pickling ships that memo: the hash may only be "
                       "built from the _needed_for_hash attributes (numbers, tuples, other domains - whose hashes are the same in every "
                       "interpreter), never from a string such as the class name (str hashes are salted per process), or the memo must "
                       "be dropped from the pickled state - otherwise an unpickled domain compares equal to a fresh one but hashes "
                       "differently and misses the tuple / multi-domain / power-index caches", floor=1)
    if h is None:
        ctx.und("R08.11", f"{D.key}::__hash__", "missing", D)
    else:
        ctx.saw_func(h)
        memo = [st for st in walk_no_nested(h.node) if isinstance(st, ast.Assign) and src(st.targets[0]) == "self._hash"]
        key = f"{h.key}::memoised hash is interpreter independent"
        if len(memo) != 1:
            ctx.und("R08.11", key, f"{len(memo)} memo assignments", h)
        else:
            t = src(memo[0].value)
            salted = [w for w in ("__qualname__", "__name__", "__class__", "type(self)", "str(", "repr(", "__module__") if w in t]
            drops = any(n_ in D.methods for n_ in ("__getstate__", "__reduce__", "__reduce_ex__"))
            if salted and not drops:
                ctx.bad("R08.11", key, f"`{t}` hashes {salted}: string hashes differ between interpreters, and the memo `_hash` is part of the pickled "
                                       "instance dictionary", h, memo[0])
            else:
                ctx.check("R08.11", key, True if "_needed_for_hash" in t or drops else None, t, h, memo[0])
    ctx.rule("R08.12", "LMSpace accepts every 0 <= mmax <= lmax: its k-length table is filled by a loop over m = 1..mmax that may run "
                       "zero times; a concatenate/stack over a comprehension of that range raises for mmax = 0 ('need at least one array')", floor=1)
    L = m.cls("nifty.cl.domains.lm_space", "LMSpace")
    ka = L.methods.get("get_k_length_array")
    ctx.saw_func(ka)
    bad = []
    for c in ast.walk(ka.node):
        if isinstance(c, ast.Call) and call_name(c) in ("concatenate", "stack", "hstack", "vstack") and c.args and isinstance(c.args[0], (ast.ListComp, ast.GeneratorExp)):
            g = c.args[0].generators[0]
            if isinstance(g.iter, ast.Call) and src(g.iter.func) == "range" and g.iter.args and src(g.iter.args[0]) == "1" and "mmax" in src(g.iter):
                bad.append(c)
    ctx.check("R08.12", f"{ka.key}::the m-loop may be empty", not bad, f"`{short(bad[0], 70)}` has nothing to join for mmax = 0" if bad else None, ka, bad[0] if bad else None)


_run_c08e = run


def run(ctx):  # noqa: F811
    _run_c08e(ctx)
    r08_11(ctx, ctx.model)


def r08_13(ctx, m, rid13="R08.13", rid14="R08.14"):
    from ..terms import inline_at
    P = m.cls(*PS)
    pi = P.methods["__init__"]
    ctx.saw_func(pi)
    ctx.rule(rid13, "PowerSpace: the population that becomes the bin volume (rho * pixel volume) and divides the summed k-lengths is, on "
                       "every path, the bincount of the very index map that is stored as pindex - a closed form (2l+1) or any other "
                       "source disagrees with the index map as soon as modes are missing (mmax < lmax)", floor=2)
    cfg = cfg_of(pi)
    rd = cfg.reaching_defs(pi.params())
    # the stored index map: second element of the cached tuple
    stores = [x for x in cfg.nodes if x.kind == "stmt" and isinstance(x.ast, ast.Assign) and isinstance(x.ast.targets[0], ast.Subscript)
              and "_powerIndexCache" in src(x.ast.targets[0]) and isinstance(x.ast.value, ast.Tuple) and len(x.ast.value.elts) == 4]
    if len(stores) != 1:
        ctx.und(rid13, f"{pi.key}::population = bincount(pindex)", f"{len(stores)} cache stores", pi)
    else:
        pidx = src(stores[0].ast.value.elts[1])
        users = [n for n in cfg.nodes if n.kind == "stmt" and isinstance(n.ast, ast.Assign) and isinstance(n.ast.value, ast.BinOp)
                 and any(isinstance(x, ast.Name) and "rho" in x.id for x in ast.walk(n.ast.value))]
        for n in users:
            rn = [x.id for x in ast.walk(n.ast.value) if isinstance(x, ast.Name) and "rho" in x.id][0]
            defs = [cfg.nodes[d] for d in (rd.get(n.id) or {}).get(rn, ())]
            okd = bool(defs) and all(d.kind == "stmt" and isinstance(d.ast, ast.Assign) and isinstance(d.ast.value, ast.Call) and call_name(d.ast.value) == "bincount"
                                     and src(d.ast.value.args[0]).replace(" ", "") in (f"{pidx}.ravel()", f"{pidx}.reshape(-1)", f"{pidx}.flatten()") for d in defs)
            ctx.check(rid13, f"{pi.key}::`{short(n.ast, 50)}` uses the counted population", okd,
                      f"`{rn}` defined by {[src(d.ast)[:70] for d in defs if d.ast is not None]}", pi, n.ast)
    R = m.cls("nifty.cl.domains.rg_space", "RGSpace")
    uk = R.methods["get_unique_k_lengths"]
    ctx.rule(rid14, "RGSpace.get_unique_k_lengths (isotropic shortcut): inside the loop over the further axes the per-axis extent is "
                       "indexed by the loop variable (maxdist[i]); a constant index builds the table of squared lengths from the "
                       "wrong axis for non-cubic grids", floor=1)
    n_ = 0
    for lp in ast.walk(uk.node):
        if isinstance(lp, ast.For) and isinstance(lp.target, ast.Name) and isinstance(lp.iter, ast.Call) and src(lp.iter.func) == "range" and "dimensions" in src(lp.iter):
            subs = [x for b in lp.body for x in ast.walk(b) if isinstance(x, ast.Subscript) and isinstance(x.value, ast.Name) and x.value.id == "maxdist"]
            for x in subs:
                n_ += 1
                ctx.check(rid14, f"{uk.key}::`{src(x)}` inside `for {lp.target.id} in {src(lp.iter)}`", src(x.slice) == lp.target.id,
                          f"constant index `{src(x.slice)}` in a loop over the axes", uk, x)
    if not n_:
        ctx.und(rid14, f"{uk.key}::axis loop", "no per-axis subscript found", uk)


_run_c08f = run


def run(ctx):  # noqa: F811
    _run_c08f(ctx)
    r08_13(ctx, ctx.model)
