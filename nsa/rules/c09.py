"""C09 - harmonic transforms: Hartley convention table across back ends, mode bookkeeping of FFT/Hartley operators."""
import ast

from ..consteval import ConstEval, TOP
from ..model import src, short, walk_no_nested, call_name, is_self_attr
from ..modespec import Spec

CFGMOD = "nifty.config"
DD = "nifty.cl.ducc_dispatch"
RCF = "nifty.re.correlated_field"
HO = "nifty.cl.operators.harmonic_operators"
# polarity table (ducc documentation): non_canonical: real+imag / genuine_hartley ; canonical: real-imag / genuine_fht
POLARITY = {"add": "non_canonical_hartley", "genuine_hartley": "non_canonical_hartley",
            "sub": "canonical_hartley", "genuine_fht": "canonical_hartley"}


def writer_values(ctx, m):
    cfgm = m.module(CFGMOD)
    upd = cfgm.functions["update"]
    ctx.saw_func(upd)
    vals = set()
    for st in ast.walk(upd.node):
        if isinstance(st, ast.If) and "hartley_convention" in src(st.test):
            for a in ast.walk(st):
                if isinstance(a, ast.Assign) and any(isinstance(t, ast.Name) and t.id == "value" for t in a.targets) \
                        and isinstance(a.value, ast.Constant):
                    vals.add(a.value.value)
    dflt = None
    cd = cfgm.assigns.get("_config")
    if isinstance(cd, ast.Call):
        for kw in cd.keywords:
            if kw.arg == "hartley_convention" and isinstance(kw.value, ast.Constant):
                dflt = kw.value.value
    elif isinstance(cd, ast.Dict):
        for k, v in zip(cd.keys, cd.values):
            if isinstance(k, ast.Constant) and k.value == "hartley_convention" and isinstance(v, ast.Constant):
                dflt = v.value
    return vals, dflt, upd


def reader_selection(fi):
    """In a reader: `X = A if c == LIT else B` -> (literal, choice when equal, choice otherwise)"""
    out = []
    cname = None
    for st in walk_no_nested(fi.node):
        if isinstance(st, ast.Assign) and isinstance(st.value, ast.Call) and "hartley_convention" in src(st.value):
            cname = st.targets[0].id if isinstance(st.targets[0], ast.Name) else None
    for st in walk_no_nested(fi.node):
        if isinstance(st, ast.Assign) and isinstance(st.value, ast.IfExp):
            t = st.value.test
            if isinstance(t, ast.Compare) and len(t.ops) == 1 and isinstance(t.ops[0], (ast.Eq, ast.NotEq)) \
                    and isinstance(t.comparators[0], ast.Constant) and src(t.left) == cname:
                a, b = st.value.body, st.value.orelse
                if isinstance(t.ops[0], ast.NotEq):
                    a, b = b, a
                out.append((t.comparators[0].value, src(a).split(".")[-1], src(b).split(".")[-1], st))
    return cname, out


def run(ctx):
    m = ctx.model
    vals, dflt, upd = writer_values(ctx, m)
    ctx.rule("R09.1", "Hartley convention table: config.update canonicalises to exactly two values (default one of them); each of "
                      "the three readers compares against one of these literals and selects real+imag / genuine_hartley for the "
                      "non-canonical and real-imag / genuine_fht for the canonical convention", floor=8)
    ctx.check("R09.1", f"{CFGMOD}::update stores exactly the two canonical values", vals == {"non_canonical_hartley", "canonical_hartley"}, str(sorted(vals)), upd)
    ctx.check("R09.1", f"{CFGMOD}::default convention is a canonical value", dflt in vals, str(dflt), upd)
    # unknown values are rejected
    rej = any(isinstance(n, ast.Raise) for st in ast.walk(upd.node) if isinstance(st, ast.If) and "hartley_convention" in src(st.test)
              for n in ast.walk(st))
    ctx.check("R09.1", f"{CFGMOD}::update rejects other values", rej, None, upd)
    readers = [(DD, "_scipy_hartley"), (DD, "hartley"), (RCF, "hartley")]
    for modn, fn in readers:
        fi = m.func(modn, fn)
        ctx.saw_func(fi)
        cname, sel = reader_selection(fi)
        key = f"{fi.key}::convention literal and polarity"
        if cname is None or len(sel) != 1:
            ctx.und("R09.1", key, f"reader idiom not recognised (config variable {cname}, {len(sel)} selections)", fi)
            continue
        lit, when_eq, otherwise, st = sel[0]
        problems = []
        if lit not in vals:
            problems.append(f"compares against {lit!r}, which config.update never stores (the else-branch is always taken)")
        other = (vals - {lit}).pop() if lit in vals and len(vals) == 2 else None
        if POLARITY.get(when_eq) != lit:
            problems.append(f"selects `{when_eq}` for {lit!r}; the convention table requires {[k for k, v in POLARITY.items() if v == lit]}")
        if other is not None and POLARITY.get(otherwise) != other:
            problems.append(f"selects `{otherwise}` for {other!r}; the convention table requires {[k for k, v in POLARITY.items() if v == other]}")
        ctx.check("R09.1", key, not problems, "; ".join(problems) or f"{lit!r} -> {when_eq}, else {otherwise}", fi, st)
        # real/imag combination: add_or_sub(tmp.real, tmp.imag) in this order
        for r in [r for r in walk_no_nested(fi.node) if isinstance(r, ast.Return)]:
            v = r.value
            seln = st.targets[0].id if isinstance(st.targets[0], ast.Name) else None
            if isinstance(v, ast.Call) and isinstance(v.func, ast.Name) and v.func.id == seln:
                a = [src(x) for x in v.args]
                ctx.check("R09.1", f"{fi.key}::combines real (+/-) imag of the complex transform in this order",
                          len(a) == 2 and a[0].endswith(".real") and a[1].endswith(".imag") and a[0][:-5] == a[1][:-5], str(a), fi, r)
    # ducc path falls back to the scipy implementation on devices and the module binds hartley consistently
    dd = m.module(DD)
    binds = [n for n in ast.walk(dd.tree) if isinstance(n, ast.Assign) and any(isinstance(t, ast.Name) and t.id == "hartley" for t in n.targets)]
    for b in binds:
        ctx.check("R09.1", f"{dd.relpath}::{short(b)}", src(b.value) == "_scipy_hartley", None, dd.relpath, b)

    # ------------------------------------------------------------------ R09.2
    ctx.rule("R09.2", "mode bookkeeping of FFTOperator.apply / HartleyOperator._apply_cartesian: the volume factor is taken from "
                      "the domain's space for TIMES/ADJOINT and from the target's space for the inverse modes, the result lives on "
                      "_tgt(mode), the transform direction follows the harmonic flag of the input's space; the complex Hartley "
                      "path treats real and imaginary part alike; HarmonicTransformOperator delegates the unchanged mode", floor=18)
    F = m.cls(HO, "FFTOperator")
    H = m.cls(HO, "HartleyOperator")
    for cls, meth in ((F, "apply"), (H, "_apply_cartesian")):
        fi = cls.methods[meth]
        ctx.saw_func(fi)
        xn, mn = fi.params()[1:3]
        for mode in (1, 2, 4, 8):
            sp = Spec(m, cls, fi, {mn: mode})
            sp.run()
            want = "self._domain" if mode in (1, 2) else "self._target"
            # collect the volume factor source: any `...[self._space].scalar_dvol` that survives specialisation in returns
            vols = set()
            for e, a, st in sp.returns:
                for x in ast.walk(e):
                    if isinstance(x, ast.Attribute) and x.attr == "scalar_dvol":
                        vols.add(src(x.value))
            ctx.check("R09.2", f"{fi.key}::mode {mode}: volume factor of the {'domain' if mode in (1, 2) else 'target'} space",
                      vols == {f"{want}[self._space]"}, f"uses {sorted(vols)}", fi)
            doms = set()
            for e, a, st in sp.returns:
                for c in ast.walk(e):
                    if isinstance(c, ast.Call) and call_name(c) == "Field" and c.args:
                        doms.add(src(c.args[0]))
            ctx.check("R09.2", f"{fi.key}::mode {mode}: result is built on _tgt(mode)", doms == {f"self._tgt({mode})"},
                      f"result domains {sorted(doms)}", fi)
    # FFT direction by the harmonic flag of the INPUT's space
    ap = F.methods["apply"]
    xn, mn = ap.params()[1:3]
    okd = True
    det = []
    for harm in (True, False):
        sp = Spec(m, F, ap, {mn: 1}, facts={f"{xn}.domain[self._space].harmonic": harm}).run()
        txts = [src(e) for e, a, st in sp.returns]
        det.append((harm, [t[:90] for t in txts]))
        for t in txts:
            uses_i = "ifftn(" in t
            uses_f = "fftn(" in t.replace("ifftn(", "")
            cells = f"{xn}.domain[self._space].size" in t
            if harm and not (uses_i and not uses_f and (cells or "Tval" not in t)):
                okd = False
            if not harm and not (uses_f and not uses_i and not cells):
                okd = False
        # the harmonic branch must scale by the cell count somewhere
        if harm and not any(f"{xn}.domain[self._space].size" in t for t in txts):
            okd = False
    ctx.check("R09.2", f"{ap.key}::harmonic input -> ifftn scaled by the cell count, position input -> fftn", okd, str(det), ap)
    hap = H.methods["apply"]
    ctx.saw_func(hap)
    xn, mn = hap.params()[1:3]
    rr = [r for r in walk_no_nested(hap.node) if isinstance(r, ast.Return)]
    txt = [src(r.value) for r in rr]
    ctx.check("R09.2", f"{hap.key}::complex input: same routine and mode for real and imaginary part",
              f"self._apply_cartesian({xn}.real, {mn}) + 1j * self._apply_cartesian({xn}.imag, {mn})" in txt and f"self._apply_cartesian({xn}, {mn})" in txt,
              str(txt), hap)
    HT = m.cls(HO, "HarmonicTransformOperator")
    hta = HT.methods["apply"]
    ctx.saw_func(hta)
    rr = [r for r in walk_no_nested(hta.node) if isinstance(r, ast.Return)]
    xn, mn = hta.params()[1:3]
    ctx.check("R09.2", f"{hta.key}::delegates (x, mode) unchanged", len(rr) == 1 and src(rr[0].value) == f"self._op.apply({xn}, {mn})", src(rr[0].value) if rr else None, hta)
    ini = HT.methods["__init__"]
    cap = [s_ for s_ in walk_no_nested(ini.node) if isinstance(s_, ast.Assign) and is_self_attr(s_.targets[0], "_capability")]
    ctx.check("R09.2", f"{ini.key}::advertises only TIMES|ADJOINT_TIMES (what both candidate transforms support)",
              len(cap) == 1 and src(cap[0].value) in ("self.TIMES | self.ADJOINT_TIMES", "self.ADJOINT_TIMES | self.TIMES"), src(cap[0].value) if cap else None, ini)
