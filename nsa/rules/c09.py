"""C09 - harmonic transforms: Hartley convention table across back ends, mode bookkeeping of FFT/Hartley operators."""
import ast

from ..consteval import ConstEval, TOP
from ..model import src, short, walk_no_nested, call_name, is_self_attr, cc
from ..modespec import Spec

CFGMOD = "nifty.config"
DD = "nifty.cl.ducc_dispatch"
RCF = "nifty.re.correlated_field"
HO = "nifty.cl.operators.harmonic_operators"
# polarity table (ducc documentation): non_canonical: real+imag / genuine_hartley ; canonical: real-imag / genuine_fht
POLARITY = {"add": "non_canonical_hartley", "genuine_hartley": "non_canonical_hartley",
            "sub": "canonical_hartley", "genuine_fht": "canonical_hartley"}


def writer_values(ctx, m):
    cfgm = m.module(CFGMOD)
    upd = cfgm.functions["update"]
    ctx.saw_func(upd)
    vals = set()
    for st in ast.walk(upd.node):
        if isinstance(st, ast.If) and "hartley_convention" in src(st.test):
            for a in ast.walk(st):
                if isinstance(a, ast.Assign) and any(isinstance(t, ast.Name) and t.id == "value" for t in a.targets) \
                        and isinstance(a.value, ast.Constant):
                    vals.add(a.value.value)
    dflt = None
    cd = cfgm.assigns.get("_config")
    if isinstance(cd, ast.Call):
        for kw in cd.keywords:
            if kw.arg == "hartley_convention" and isinstance(kw.value, ast.Constant):
                dflt = kw.value.value
    elif isinstance(cd, ast.Dict):
        for k, v in zip(cd.keys, cd.values):
            if isinstance(k, ast.Constant) and k.value == "hartley_convention" and isinstance(v, ast.Constant):
                dflt = v.value
    return vals, dflt, upd


def reader_selection(fi):
    """In a reader: `X = A if c == LIT else B` -> (literal, choice when equal, choice otherwise)"""
    out = []
    cname = None
    for st in walk_no_nested(fi.node):
        if isinstance(st, ast.Assign) and isinstance(st.value, ast.Call) and "hartley_convention" in src(st.value):
            cname = st.targets[0].id if isinstance(st.targets[0], ast.Name) else None
    for st in walk_no_nested(fi.node):
        if isinstance(st, ast.Assign) and isinstance(st.value, ast.IfExp):
            t = st.value.test
            if isinstance(t, ast.Compare) and len(t.ops) == 1 and isinstance(t.ops[0], (ast.Eq, ast.NotEq)) \
                    and isinstance(t.comparators[0], ast.Constant) and src(t.left) == cname:
                a, b = st.value.body, st.value.orelse
                if isinstance(t.ops[0], ast.NotEq):
                    a, b = b, a
                out.append((t.comparators[0].value, src(a).split(".")[-1], src(b).split(".")[-1], st))
    return cname, out


def run(ctx):
    m = ctx.model
    vals, dflt, upd = writer_values(ctx, m)
    ctx.rule("R09.1", "Hartley convention table: config.update canonicalises to exactly two values (default one of them); each of "
                      "the three readers compares against one of these literals and selects real+imag / genuine_hartley for the "
                      "non-canonical and real-imag / genuine_fht for the canonical convention", floor=8)
    ctx.check("R09.1", f"{CFGMOD}::update stores exactly the two canonical values", vals == {"non_canonical_hartley", "canonical_hartley"}, str(sorted(vals)), upd)
    ctx.check("R09.1", f"{CFGMOD}::default convention is a canonical value", dflt in vals, str(dflt), upd)
    # unknown values are rejected
    rej = any(isinstance(n, ast.Raise) for st in ast.walk(upd.node) if isinstance(st, ast.If) and "hartley_convention" in src(st.test)
              for n in ast.walk(st))
    ctx.check("R09.1", f"{CFGMOD}::update rejects other values", rej, None, upd)
    readers = [(DD, "_scipy_hartley"), (DD, "hartley"), (RCF, "hartley")]
    for modn, fn in readers:
        fi = m.func(modn, fn)
        ctx.saw_func(fi)
        cname, sel = reader_selection(fi)
        key = f"{fi.key}::convention literal and polarity"
        if cname is None or len(sel) != 1:
            ctx.und("R09.1", key, f"reader idiom not recognised (config variable {cname}, {len(sel)} selections)", fi)
            continue
        lit, when_eq, otherwise, st = sel[0]
        problems = []
        if lit not in vals:
            problems.append(f"compares against {lit!r}, which config.update never stores (the else-branch is always taken)")
        other = (vals - {lit}).pop() if lit in vals and len(vals) == 2 else None
        if POLARITY.get(when_eq) != lit:
            problems.append(f"selects `{when_eq}` for {lit!r}; the convention table requires {[k for k, v in POLARITY.items() if v == lit]}")
        if other is not None and POLARITY.get(otherwise) != other:
            problems.append(f"selects `{otherwise}` for {other!r}; the convention table requires {[k for k, v in POLARITY.items() if v == other]}")
        ctx.check("R09.1", key, not problems, "; ".join(problems) or f"{lit!r} -> {when_eq}, else {otherwise}", fi, st)
        # real/imag combination: add_or_sub(tmp.real, tmp.imag) in this order
        for r in [r for r in walk_no_nested(fi.node) if isinstance(r, ast.Return)]:
            v = r.value
            seln = st.targets[0].id if isinstance(st.targets[0], ast.Name) else None
            if isinstance(v, ast.Call) and isinstance(v.func, ast.Name) and v.func.id == seln:
                a = [src(x) for x in v.args]
                ctx.check("R09.1", f"{fi.key}::combines real (+/-) imag of the complex transform in this order",
                          len(a) == 2 and a[0].endswith(".real") and a[1].endswith(".imag") and a[0][:-5] == a[1][:-5], str(a), fi, r)
    # ducc path falls back to the scipy implementation on devices and the module binds hartley consistently
    dd = m.module(DD)
    binds = [n for n in ast.walk(dd.tree) if isinstance(n, ast.Assign) and any(isinstance(t, ast.Name) and t.id == "hartley" for t in n.targets)]
    for b in binds:
        ctx.check("R09.1", f"{dd.relpath}::{short(b)}", src(b.value) == "_scipy_hartley", None, dd.relpath, b)

    # ------------------------------------------------------------------ R09.2
    ctx.rule("R09.2", "mode bookkeeping of FFTOperator.apply / HartleyOperator._apply_cartesian: the volume factor is taken from "
                      "the domain's space for TIMES/ADJOINT and from the target's space for the inverse modes, the result lives on "
                      "_tgt(mode), the transform direction follows the harmonic flag of the input's space; the complex Hartley "
                      "path treats real and imaginary part alike; HarmonicTransformOperator delegates the unchanged mode", floor=18)
    F = m.cls(HO, "FFTOperator")
    H = m.cls(HO, "HartleyOperator")
    for cls, meth in ((F, "apply"), (H, "_apply_cartesian")):
        fi = cls.methods[meth]
        ctx.saw_func(fi)
        xn, mn = fi.params()[1:3]
        for mode in (1, 2, 4, 8):
            sp = Spec(m, cls, fi, {mn: mode})
            sp.run()
            want = "self._domain" if mode in (1, 2) else "self._target"
            # collect the volume factor source: any `...[self._space].scalar_dvol` that survives specialisation in returns
            vols = set()
            for e, a, st in sp.returns:
                for x in ast.walk(e):
                    if isinstance(x, ast.Attribute) and x.attr == "scalar_dvol":
                        vols.add(src(x.value))
            ctx.check("R09.2", f"{fi.key}::mode {mode}: volume factor of the {'domain' if mode in (1, 2) else 'target'} space",
                      vols == {f"{want}[self._space]"}, f"uses {sorted(vols)}", fi)
            doms = set()
            for e, a, st in sp.returns:
                for c in ast.walk(e):
                    if isinstance(c, ast.Call) and call_name(c) == "Field" and c.args:
                        doms.add(src(c.args[0]))
            ctx.check("R09.2", f"{fi.key}::mode {mode}: result is built on _tgt(mode)", doms == {f"self._tgt({mode})"},
                      f"result domains {sorted(doms)}", fi)
    # FFT direction by the harmonic flag of the INPUT's space
    ap = F.methods["apply"]
    xn, mn = ap.params()[1:3]
    okd = True
    det = []
    for harm in (True, False):
        sp = Spec(m, F, ap, {mn: 1}, facts={f"{xn}.domain[self._space].harmonic": harm}).run()
        txts = [src(e) for e, a, st in sp.returns]
        det.append((harm, [t[:90] for t in txts]))
        for t in txts:
            uses_i = "ifftn(" in t
            uses_f = "fftn(" in t.replace("ifftn(", "")
            cells = f"{xn}.domain[self._space].size" in t
            if harm and not (uses_i and not uses_f and (cells or "Tval" not in t)):
                okd = False
            if not harm and not (uses_f and not uses_i and not cells):
                okd = False
        # the harmonic branch must scale by the cell count somewhere
        if harm and not any(f"{xn}.domain[self._space].size" in t for t in txts):
            okd = False
    ctx.check("R09.2", f"{ap.key}::harmonic input -> ifftn scaled by the cell count, position input -> fftn", okd, str(det), ap)
    hap = H.methods["apply"]
    ctx.saw_func(hap)
    xn, mn = hap.params()[1:3]
    rr = [r for r in walk_no_nested(hap.node) if isinstance(r, ast.Return)]
    from ..terms import canon
    txt = [canon(r.value, add=True) for r in rr]
    ctx.check("R09.2", f"{hap.key}::complex input: same routine and mode for real and imaginary part",
              canon(f"self._apply_cartesian({xn}.real, {mn}) + 1j * self._apply_cartesian({xn}.imag, {mn})", add=True) in txt and
              canon(f"self._apply_cartesian({xn}, {mn})") in txt,
              str(txt), hap)
    HT = m.cls(HO, "HarmonicTransformOperator")
    hta = HT.methods["apply"]
    ctx.saw_func(hta)
    rr = [r for r in walk_no_nested(hta.node) if isinstance(r, ast.Return)]
    xn, mn = hta.params()[1:3]
    ctx.check("R09.2", f"{hta.key}::delegates (x, mode) unchanged", len(rr) == 1 and src(rr[0].value) == f"self._op.apply({xn}, {mn})", src(rr[0].value) if rr else None, hta)
    ini = HT.methods["__init__"]
    cap = [s_ for s_ in walk_no_nested(ini.node) if isinstance(s_, ast.Assign) and is_self_attr(s_.targets[0], "_capability")]
    ctx.check("R09.2", f"{ini.key}::advertises only TIMES|ADJOINT_TIMES (what both candidate transforms support)",
              len(cap) == 1 and src(cap[0].value) in ("self.TIMES | self.ADJOINT_TIMES", "self.ADJOINT_TIMES | self.TIMES"), src(cap[0].value) if cap else None, ini)


# ---------------------------------------------------------------------------------------------------------------- R09.3-R09.5
TRANSFORM_WORDS = ("fft", "hartley", "fht", "c2c")


def _is_transform_name(nm):
    return nm is not None and any(w in nm.lower() for w in TRANSFORM_WORDS)


def r09_3(ctx, m):
    """config identity: readers import the dict object by name, so the writer must mutate it in place"""
    cfgm = m.module(CFGMOD)
    ctx.rule("R09.3", "the configuration dict is shared by identity: modules bind it with `from ..config import _config`, so "
                      "nifty.config binds `_config` exactly once (module level) and update() stores the value by item assignment "
                      "into that object", floor=3)
    importers = []
    for modn in (DD, RCF, "nifty.cl.any_array"):
        mod = m.module(modn)
        for n in ast.walk(mod.tree):
            if isinstance(n, ast.ImportFrom) and (n.module or "").endswith("config") and any(a.name == "_config" for a in n.names):
                importers.append(mod.relpath)
    binds = []
    for n in ast.walk(cfgm.tree):
        tg = []
        if isinstance(n, ast.Assign):
            tg = n.targets
        elif isinstance(n, (ast.AugAssign, ast.AnnAssign)):
            tg = [n.target]
        elif isinstance(n, ast.Delete):
            tg = n.targets
        elif isinstance(n, (ast.For, ast.With)):
            tg = [x for x in ast.walk(n) if isinstance(x, ast.Name) and isinstance(x.ctx, ast.Store)]
        for t in tg:
            for x in ([t] if not isinstance(t, (ast.Tuple, ast.List)) else t.elts):
                if isinstance(x, ast.Name) and x.id == "_config":
                    binds.append(n)
    toplevel = [b for b in binds if b in cfgm.tree.body]
    by_name = bool(importers)
    ctx.check("R09.3", f"{cfgm.relpath}::_config is bound once, at module level (readers hold the object: {sorted(set(importers))})",
              (len(binds) == 1 and len(toplevel) == 1) if by_name else None,
              "; ".join(f"line {b.lineno}: {short(b)}" for b in binds if b not in toplevel) or None, cfgm.relpath,
              next((b for b in binds if b not in toplevel), None))
    upd = cfgm.functions["update"]
    kn, vn = upd.params()[:2]
    from ..util import cfg_of
    cfg = cfg_of(upd)
    stores = [n for n in cfg.nodes if n.kind == "stmt" and isinstance(n.ast, ast.Assign) and isinstance(n.ast.targets[0], ast.Subscript)
              and src(n.ast.targets[0].value) == "_config"]
    okk = len(stores) == 1 and src(stores[0].ast.targets[0].slice) == kn and src(stores[0].ast.value) == vn \
        and stores[0].id in cfg.dominators().get(cfg.exit.id, ())
    ctx.check("R09.3", f"{upd.key}::every normal return has stored _config[<key>] = <value> in place", okk,
              None if okk else f"{len(stores)} item store(s) into _config", upd)
    for rel in sorted(set(importers)):
        ctx.ok("R09.3", f"{rel}::binds the configuration object by name", None, rel)


def r09_4(ctx, m):
    """axes forwarding through the back ends and from the operators"""
    ctx.rule("R09.4", "sub-space transforms: every back-end function with an `axes` parameter forwards it to each transform call "
                      "it makes; FFTOperator.apply / HartleyOperator._apply_cartesian transform exactly the axes of their space "
                      "(`<x>.domain.axes[self._space]`)", floor=12)
    from ..util import cfg_of, find_nodes
    from ..terms import inline_at
    funcs = []
    for modn in (DD, RCF):
        mod = m.module(modn)
        for fi in m.functions_in(modn) if hasattr(m, "functions_in") else []:
            funcs.append(fi)
    if not funcs:
        for modn in (DD, RCF):
            mod = m.module(modn)
            for n in ast.walk(mod.tree):
                if isinstance(n, ast.FunctionDef) and any(a.arg == "axes" for a in n.args.args) and _is_transform_name(n.name):
                    funcs.append((mod, n))
    for mod, fn in funcs:
        aliases = set()
        for st in walk_no_nested(fn):
            if isinstance(st, ast.Assign) and isinstance(st.targets[0], ast.Name) and isinstance(st.value, ast.IfExp) \
                    and all(_is_transform_name(src(b).split(".")[-1]) for b in (st.value.body, st.value.orelse)):
                aliases.add(st.targets[0].id)
        for c in walk_no_nested(fn):
            if not isinstance(c, ast.Call):
                continue
            nm = call_name(c)
            if not (_is_transform_name(nm) or (isinstance(c.func, ast.Name) and c.func.id in aliases)):
                continue
            kw = [k for k in c.keywords if k.arg == "axes"]
            passed = (len(kw) == 1 and src(kw[0].value) == "axes") or (len(c.args) >= 2 and src(c.args[1]) == "axes")
            ctx.check("R09.4", f"{mod.relpath}::{fn.name}::{src(c.func)}(...) receives axes", passed,
                      None if passed else f"`{short(c)}` transforms over all axes although the caller selected {fn.name}(..., axes)",
                      mod.relpath, c)
    F = m.cls(HO, "FFTOperator")
    H = m.cls(HO, "HartleyOperator")
    for cls, meth in ((F, "apply"), (H, "_apply_cartesian")):
        fi = cls.methods[meth]
        xn = fi.params()[1]
        cfg = cfg_of(fi)
        rd = cfg.reaching_defs(fi.params())
        aliases = {st.targets[0].id for st in walk_no_nested(fi.node) if isinstance(st, ast.Assign) and isinstance(st.targets[0], ast.Name)
                   and isinstance(st.value, ast.Name) and _is_transform_name(st.value.id)}
        calls = find_nodes(cfg, lambda q: isinstance(q, ast.Call) and (_is_transform_name(call_name(q)) or (isinstance(q.func, ast.Name) and q.func.id in aliases)))
        key = f"{fi.key}::transforms the axes of its own space"
        if not calls:
            ctx.und("R09.4", key, "no transform call found", fi)
            continue
        for n, c in calls:
            kw = [k.value for k in c.keywords if k.arg == "axes"] or (c.args[1:2])
            e = inline_at(cfg, rd, n.id, kw[0], depth=2) if kw else None
            ctx.check("R09.4", key, e is not None and src(e) == f"{xn}.domain.axes[self._space]", src(e) if e is not None else "no axes passed", fi, c)


def r09_5(ctx, m):
    """axis bookkeeping of the JAX correlated field (length-domain abstract interpretation of the sub-grid loop)"""
    from ..lendom import unroll, lin_add, lin_str
    ctx.rule("R09.5", "CorrelatedFieldMaker.finalize: for the i-th sub-grid the Hartley transform acts on exactly the array axes "
                      "its harmonic shape occupies in the accumulated excitation shape, range(len(shape before), len(shape after)); "
                      "the spherical transform on the last of them (loop unrolled symbolically for 3 sub-grids)", floor=3)
    C = m.cls(RCF, "CorrelatedFieldMaker")
    fi = C.methods["finalize"]
    ctx.saw_func(fi)
    body = fi.node.body
    loops = [(i, st) for i, st in enumerate(body) if isinstance(st, ast.For)
             and any(isinstance(c, ast.Call) and call_name(c) == "partial" and c.args and _is_transform_name(src(c.args[0])) for c in ast.walk(st))]
    key0 = f"{fi.key}::sub-grid loop"
    if len(loops) != 1:
        ctx.und("R09.5", key0, f"{len(loops)} loops building partial(<transform>, axes=...)", fi)
        return
    idx, loop = loops[0]
    # role: the accumulated shape is what parametrises the excitations after the loop
    acc = None
    for st in body[idx + 1:]:
        for c in ast.walk(st):
            if isinstance(c, ast.Call) and call_name(c) == "ShapeWithDtype" and c.args and isinstance(c.args[0], ast.Name):
                acc = acc or c.args[0].id
    if acc is None:
        ctx.und("R09.5", key0, "accumulated excitation shape not identified (ShapeWithDtype(<name>) after the loop)", fi)
        return

    def pred(c):
        return (call_name(c) == "partial" and c.args and _is_transform_name(src(c.args[0]))) or call_name(c) == "get_sht"

    K = 3
    sites, ends = unroll(body[:idx], loop, K, pred)
    lens = []
    for e in ends:
        v = e.get(acc)
        lens.append(v[1] if v is not None and v[0] == "tuple" else None)
    if any(l is None for l in lens):
        ctx.und("R09.5", key0, f"length of `{acc}` not tracked through the loop", fi)
        return
    from ..lendom import LenInterp
    for c, it, env in sites:
        lo, hi = lens[it], lens[it + 1]
        interp = LenInterp([x.id for x in ast.walk(loop.target) if isinstance(x, ast.Name)], it)
        interp.env = env
        if call_name(c) == "partial":
            kw = [k.value for k in c.keywords if k.arg == "axes"]
            v = interp.ev(kw[0]) if kw else None
            key = f"{fi.key}::sub-grid {it}: Hartley axes = positions of its harmonic shape"
            if v is None or v[0] != "range":
                ctx.und("R09.5", key, f"axes expression `{src(kw[0]) if kw else None}` not understood", fi, c)
                continue
            good = v[1] == lo and v[2] == hi and lo != hi
            ctx.check("R09.5", key, good, f"axes = range({lin_str(v[1])}, {lin_str(v[2])}); the sub-grid occupies range({lin_str(lo)}, {lin_str(hi)})", fi, c)
        else:
            kw = [k.value for k in c.keywords if k.arg == "axis"]
            v = interp.ev(kw[0]) if kw else None
            key = f"{fi.key}::sub-grid {it}: spherical transform on its (last) axis"
            if v is None or v[0] != "int":
                ctx.und("R09.5", key, f"axis expression not understood", fi, c)
                continue
            ctx.check("R09.5", key, v[1] == lin_add(hi, {1: 1}, -1) and lo != hi, f"axis = {lin_str(v[1])}; accumulated length {lin_str(hi)}", fi, c)


_run_c09b = run


def run(ctx):  # noqa: F811
    _run_c09b(ctx)
    r09_3(ctx, ctx.model)
    r09_4(ctx, ctx.model)
    r09_5(ctx, ctx.model)


def r09_6(ctx, m):
    """the Hartley convention is a property of the configuration at the time of the transform, not of an operator object"""
    ctx.rule("R09.6", "the Hartley convention is read from the shared configuration by the function that performs the transform, in "
                      "the same call: no reader takes the convention as a parameter that overrides the lookup, and no class "
                      "remembers a configuration value in an instance attribute (an operator built before config.update would "
                      "disagree with every other implementation afterwards)", floor=3)
    readers = []
    for modn in (DD, RCF, HO):
        mod = m.module(modn, required=False)
        if mod is None:
            continue
        for fi in mod.all_functions:
            reads = [c for c in walk_no_nested(fi.node) if isinstance(c, (ast.Call, ast.Subscript)) and "hartley_convention" in src(c) and "_config" in src(c)
                     and (isinstance(c, ast.Subscript) or call_name(c) == "get")]
            if not reads:
                continue
            readers.append(fi)
            ctx.saw_func(fi)
            key = f"{fi.key}::reads the convention at transform time"
            if fi.name == "__init__" or any(isinstance(st, ast.Assign) and isinstance(st.targets[0], ast.Attribute) and src(st.targets[0].value) == "self"
                                            and any(x is reads[0] for x in ast.walk(st.value)) for st in ast.walk(fi.node)):
                ctx.bad("R09.6", key, f"`{src(reads[0])}` is stored on the instance: later config.update calls are ignored by this object", fi, reads[0])
                continue
            # the lookup must not be overridable by an argument
            params = set(fi.params())
            over = None
            for r in reads:
                for x in walk_no_nested(fi.node):
                    if isinstance(x, ast.IfExp) and any(y is r for y in ast.walk(x)) and any(isinstance(n_, ast.Name) and n_.id in params for n_ in ast.walk(x.test)):
                        over = x
            does_transform = any(isinstance(c, ast.Call) and _is_transform_name(call_name(c) or "") for c in walk_no_nested(fi.node)) or \
                any(isinstance(a, ast.Attribute) and _is_transform_name(a.attr) for a in walk_no_nested(fi.node))
            if over is not None:
                ctx.bad("R09.6", key, f"`{src(over)}`: a caller-supplied value overrides the configuration", fi, over)
            else:
                ctx.check("R09.6", key, True if does_transform else None, None if does_transform else "no transform call found next to the lookup", fi, reads[0])
    if not readers:
        ctx.error("R09.6: no reader of hartley_convention found")


def r09_7(ctx, m):
    """zero width means identity - and only zero width"""
    from ..util import cfg_of, known_atoms
    ctx.rule("R09.7", "HarmonicSmoothingOperator returns the identity only under the exact test sigma == 0 (sigma carries the units "
                      "of the grid: a tolerance test such as isclose/abs(sigma) < eps turns every small-scale grid's smoothing off); "
                      "negative widths are refused before", floor=2)
    fi = m.func(HO, "HarmonicSmoothingOperator", required=False)
    if fi is None:
        ctx.error("R09.7: HarmonicSmoothingOperator missing")
        return
    ctx.saw_func(fi)
    sg = fi.params()[1]
    cfg = cfg_of(fi)
    ident = [n for n in cfg.nodes if n.kind == "stmt" and isinstance(n.ast, ast.Return) and isinstance(n.ast.value, ast.Call)
             and call_name(n.ast.value) in ("ScalingOperator",) and len(n.ast.value.args) >= 2 and src(n.ast.value.args[1]) in ("1.0", "1", "1.")]
    key = f"{fi.key}::identity shortcut"
    if len(ident) != 1:
        ctx.und("R09.7", key, f"{len(ident)} identity returns", fi)
    else:
        atoms = known_atoms(cfg, ident[0].id)
        mine = [(t, pol) for t, pol in atoms if sg in {x.id for x in ast.walk(t) if isinstance(x, ast.Name)} and "<" not in cc(t)]
        exact = [1 for t, pol in mine if pol and cc(t) in (f"{sg} == 0.0", f"{sg} == 0")] + \
                [1 for t, pol in mine if not pol and cc(t) in (f"{sg} != 0.0", f"{sg} != 0")]
        tol = [t for t, pol in atoms if any(w in src(t) for w in ("isclose", "allclose", "finfo", "eps")) or
               (isinstance(t, ast.Compare) and "abs(" in src(t))]
        if tol:
            ctx.bad("R09.7", key, f"guarded by the tolerance test `{src(tol[0])}`: widths that are small in absolute units but not small "
                                  "compared with the pixel size are treated as zero", fi, ident[0].ast)
        else:
            ctx.check("R09.7", key, True if exact else None, f"guards {[('' if p else 'not ') + src(t) for t, p in atoms]}", fi, ident[0].ast)
    raises = [n for n in cfg.nodes if n.kind == "stmt" and isinstance(n.ast, ast.Raise)]
    neg = [n for n in raises if any(pol and cc(t) in (f"{sg} < 0.0", f"{sg} < 0") for t, pol in known_atoms(cfg, n.id))]
    ctx.check("R09.7", f"{fi.key}::negative widths are refused", True if neg else None, None, fi)


def r09_8(ctx, m):
    """sub-space transforms are normalised over the transformed axes only"""
    ctx.rule("R09.8", "back-end transforms with an `axes` parameter never bring the element count of the WHOLE array (x.size, "
                      "prod(x.shape), len(x.ravel())) into their result: the normalisation of an inverse transform over a subset of "
                      "the axes is the product of those axes' lengths (delegated to the library via inorm / scipy's ifftn)", floor=6)
    for modn in (DD,):
        mod = m.module(modn)
        for fi in mod.all_functions:
            if "axes" not in fi.params():
                continue
            ctx.saw_func(fi)
            whole = []
            for x in walk_no_nested(fi.node):
                if isinstance(x, ast.Attribute) and x.attr == "size" and isinstance(x.ctx, ast.Load):
                    whole.append(x)
                if isinstance(x, ast.Call) and call_name(x) in ("prod", "product") and x.args and src(x.args[0]).endswith(".shape"):
                    whole.append(x)
                if isinstance(x, ast.Call) and src(x.func) == "len" and x.args and ("ravel" in src(x.args[0]) or "flatten" in src(x.args[0])):
                    whole.append(x)
            # only sizes that enter arithmetic matter
            arith = []
            for b in walk_no_nested(fi.node):
                if isinstance(b, (ast.BinOp, ast.AugAssign)):
                    for w in whole:
                        if any(y is w for y in ast.walk(b)):
                            arith.append(w)
            ctx.check("R09.8", f"{fi.key}::no whole-array element count in the result", not arith,
                      f"`{src(arith[0])}` enters the arithmetic: wrong by the product of the untransformed axes whenever `axes` is a proper subset"
                      if arith else None, fi, arith[0] if arith else None)


_run_c09c = run


def run(ctx):  # noqa: F811
    _run_c09c(ctx)
    r09_6(ctx, ctx.model)
    r09_7(ctx, ctx.model)
    r09_8(ctx, ctx.model)


# ---------------------------------------------------------------------------------------------------------------- R09.9 - R09.11
_MEMO_SELFTEST = '''
_cache = {}
def make(target):
    if target.shape not in _cache:
        _cache[target.shape] = build(target.nlat, target.nlon)
    return _cache[target.shape]
'''


def module_memos(tree):
    """(function node, store statement, cache name, key expr, value expr) for every `CACHE[key] = value` into a module-level dict"""
    caches = {t.id for st in tree.body if isinstance(st, ast.Assign) and isinstance(st.value, (ast.Dict, ast.Call))
              and (isinstance(st.value, ast.Dict) or src(st.value.func) in ("dict", "OrderedDict", "collections.OrderedDict"))
              for t in st.targets if isinstance(t, ast.Name)}
    out = []
    for fn in ast.walk(tree):
        if not isinstance(fn, (ast.FunctionDef, ast.AsyncFunctionDef)):
            continue
        for st in ast.walk(fn):
            if isinstance(st, ast.Assign) and len(st.targets) == 1 and isinstance(st.targets[0], ast.Subscript) \
                    and isinstance(st.targets[0].value, ast.Name) and st.targets[0].value.id in caches:
                out.append((fn, st, st.targets[0].value.id, st.targets[0].slice, st.value))
    return out


def _paths(e, env=None, depth=3):
    """attribute paths / names read by e, local single assignments unfolded"""
    out = set()
    skip = set()
    for z in ast.walk(e):
        if isinstance(z, ast.Attribute):
            p = src(z)
            if all(c.isidentifier() for c in p.split(".")):
                out.add(p)
    # keep only maximal paths
    out = {p for p in out if not any(q != p and q.startswith(p + ".") for q in out)}
    for z in ast.walk(e):
        if isinstance(z, ast.Name) and isinstance(z.ctx, ast.Load) and not any(p.split(".")[0] == z.id for p in out):
            if env and z.id in env and depth > 0:
                out |= _paths(env[z.id], env, depth - 1)
            else:
                out.add(z.id)
    return out - skip


def r09_9(ctx, m):
    R = "R09.9"
    ctx.rule(R, "module-level memoisation in the transform modules: whatever the cached value is built from is determined by the cache "
                "key - every attribute path of a parameter read while building the value also occurs in the key expression (or the "
                "key is the object itself); e.g. a Gauss-Legendre geometry (nlat, nlon) must not be keyed by the flat pixel count",
             floor=0)
    t = ast.parse(_MEMO_SELFTEST)
    mm = module_memos(t)
    if len(mm) != 1 or _paths(mm[0][4]) <= _paths(mm[0][3]):
        from ..model import AnalysisError
        raise AnalysisError("R09.9: self-test of the memo matcher failed")
    builtins_ = {"np", "numpy", "dict", "ducc0", "int", "float", "tuple", "len", "range", "jnp", "jax", "scipy"}
    n = 0
    for mn in ("nifty.cl.operators.harmonic_operators", "nifty.cl.ducc_dispatch", "nifty.re.correlated_field", "nifty.cl.domains.rg_space",
               "nifty.cl.domains.gl_space", "nifty.cl.domains.lm_space", "nifty.cl.domains.hp_space"):
        mod = m.module(mn, required=False)
        if mod is None:
            continue
        for fn, st, cname, key, val in module_memos(mod.tree):
            n += 1
            env = {}
            for s2 in ast.walk(fn):
                if isinstance(s2, ast.Assign) and len(s2.targets) == 1 and isinstance(s2.targets[0], ast.Name):
                    env[s2.targets[0].id] = s2.value
            params = {a.arg for a in fn.args.args}
            kp = {p for p in _paths(key, env)}
            vp = {p for p in _paths(val, env) if p.split(".")[0] in params}
            whole = {p for p in kp if p in params}
            missing = sorted(p for p in vp if p not in kp and p.split(".")[0] not in whole)
            ctx.check(R, f"{mod.relpath}::{fn.name}::{cname}[{src(key)}] determines the cached value", not missing,
                      f"value reads {missing} which the key `{src(key)}` does not contain: two arguments with the same key share one entry", mod.relpath, st)
    if not n:
        ctx.ok(R, "transform modules::no module-level memoisation", "nothing is cached across operator instances", "nifty/cl/operators/harmonic_operators.py")


def r09_10(ctx, m):
    R = "R09.10"
    ctx.rule(R, "back-end transforms leave their argument untouched: no call in ducc_dispatch passes an in-place option (overwrite_x / "
                "inplace / overwrite_input true) or the input buffer as `out=` to a transform - the SciPy back-end would destroy the "
                "caller's (possibly locked field's) array for complex input and disagree with the native one on the second use", floor=6)
    mod = m.module("nifty.cl.ducc_dispatch")
    for fi in mod.all_functions:
        calls = [c for c in walk_no_nested(fi.node) if isinstance(c, ast.Call) and any(k in src(c.func) for k in ("fft", "hartley", "c2c", "r2c", "c2r", "dct", "dst"))
                 and not src(c.func).startswith("_")]
        if not calls or not fi.params():
            continue
        ctx.saw_func(fi)
        a0 = fi.params()[0]
        for c in calls:
            bad = [f"{k.arg}={src(k.value)}" for k in c.keywords
                   if (k.arg in ("overwrite_x", "inplace", "overwrite_input", "overwrite") and not (isinstance(k.value, ast.Constant) and not k.value.value))
                   or (k.arg == "out" and src(k.value).split(".")[0].split("[")[0] == a0)]
            ctx.check(R, f"{fi.key}::`{short(c, 40)}` does not write into its input", not bad, f"in-place option {bad}" if bad else "", fi, c)


def r09_11(ctx, m):
    R = "R09.11"
    ctx.rule(R, "RGSpace.check_codomain rejects a partner as soon as ONE axis has the wrong harmonic distance: the refusal is taken "
                "under `not all(<axis ok>)` or `any(<axis wrong>)` of the per-axis comparison (never `all(<wrong>)` / `not any(<ok>)`) - "
                "a transform onto a partly mismatched grid has inconsistent volume factors", floor=1)
    from ..util import cfg_of, strip_not
    C = m.cls("nifty.cl.domains.rg_space", "RGSpace")
    fi = C.methods.get("check_codomain")
    key = f"{C.key}.check_codomain::distance mismatch on any axis is refused"
    if fi is None:
        ctx.und(R, key, "method missing", C)
        return
    ctx.saw_func(fi)
    env = {}
    for st in walk_no_nested(fi.node):
        if isinstance(st, ast.Assign) and len(st.targets) == 1 and isinstance(st.targets[0], ast.Name):
            env[st.targets[0].id] = st.value
    verdicts = []
    for st in walk_no_nested(fi.node):
        if not (isinstance(st, ast.If) and any(isinstance(b, ast.Raise) for b in st.body)):
            continue
        t, pol = strip_not(st.test, True)
        if not (isinstance(t, ast.Call) and call_name(t) in ("all", "any") and len(t.args) == 1):
            continue
        arr = t.args[0]
        if isinstance(arr, ast.Name) and arr.id in env:
            arr = env[arr.id]
        neg_arr = False
        while isinstance(arr, ast.UnaryOp) and isinstance(arr.op, (ast.Invert, ast.Not)):
            arr = arr.operand
            neg_arr = not neg_arr
        if not (isinstance(arr, ast.Compare) and len(arr.ops) == 1 and "distances" in src(arr)):
            continue
        # which side is the deviation (mentions the distances), which the tolerance
        dev_left = "distances" in src(arr.left)
        if dev_left == ("distances" in src(arr.comparators[0])) or not isinstance(arr.ops[0], (ast.Lt, ast.LtE, ast.Gt, ast.GtE)):
            verdicts.append((None, src(st.test)))
            continue
        less = isinstance(arr.ops[0], (ast.Lt, ast.LtE))
        okarr = less if dev_left else not less   # deviation < tolerance : axis ok
        if neg_arr:
            okarr = not okarr
        red = call_name(t)
        # refusal condition = pol ? red(arr) : not red(arr)
        good = (red == "all" and okarr and not pol) or (red == "any" and not okarr and pol)
        verdicts.append((good, f"raises under `{src(st.test)}`" + (f" with {src(t.args[0])} = `{src(arr)}`" if isinstance(t.args[0], ast.Name) else "")))
    if not verdicts:
        ctx.und(R, key, "no refusal over a per-axis distance comparison found", fi)
    for good, det in verdicts:
        ctx.check(R, key, good, det, fi)


_run_c09d = run


def run(ctx):  # noqa: F811
    _run_c09d(ctx)
    r09_9(ctx, ctx.model)
    r09_10(ctx, ctx.model)
    r09_11(ctx, ctx.model)
