"""C10 - power distribution: gather/scatter through the same index, adjoint accumulates, power operator is the diagonal of
the distributed spectrum."""
import ast

from ..model import src, short, walk_no_nested, call_name, is_self_attr
from ..modespec import Spec
from ..terms import inline_at
from ..util import cfg_of

DIST = "nifty.cl.operators.distributors"
SUG = "nifty.cl.sugar"


def run(ctx):
    m = ctx.model
    D = m.cls(DIST, "DOFDistributor")
    P = m.cls(DIST, "PowerDistributor")
    ctx.saw_class(D)
    ctx.saw_class(P)
    ctx.rule("R10.1", "DOFDistributor gathers and scatters through the same index attribute on the same axis, the scatter "
                      "accumulates, TIMES maps bins onto the target and ADJOINT back onto the domain; PowerDistributor uses the "
                      "power space's pindex", floor=8)
    ap = D.methods["apply"]
    ctx.saw_func(ap)
    xn, mn = ap.params()[1:3]
    for mode, want in ((1, f"self._times({xn})"), (2, f"self._adjoint_times({xn})")):
        sp = Spec(m, D, ap, {mn: mode}).run()
        ctx.check("R10.1", f"{ap.key}::mode {mode} -> {want}", len(sp.returns) == 1 and src(sp.returns[0][0]) == want,
                  str([src(e) for e, a, s in sp.returns]), ap)
    t = D.methods["_times"]
    a = D.methods["_adjoint_times"]
    ctx.saw_func(t)
    ctx.saw_func(a)
    # gather
    gath = [s_ for s_ in ast.walk(t.node) if isinstance(s_, ast.Subscript) and isinstance(s_.slice, ast.Tuple)
            and any(is_self_attr(e) for e in s_.slice.elts) and isinstance(s_.ctx, ast.Load)]
    key = f"{t.key}::gather through an index attribute"
    idx_attr, axis = None, None
    if len(gath) == 1:
        for i, e in enumerate(gath[0].slice.elts):
            if is_self_attr(e):
                idx_attr, axis = e.attr, i
        others = [src(e) for i, e in enumerate(gath[0].slice.elts) if i != axis]
        ctx.check("R10.1", key, all(o == "slice(None)" for o in others), f"{src(gath[0])}", t, gath[0])
    else:
        ctx.und("R10.1", key, f"{len(gath)} gather expressions", t)
    # scatter
    sc = [c for c in ast.walk(a.node) if isinstance(c, ast.Call) and call_name(c) in ("special_add_at", "at")]
    key = f"{a.key}::scatter accumulates through the same index on the same axis"
    plain = [s_ for s_ in ast.walk(a.node) if isinstance(s_, ast.Assign) and isinstance(s_.targets[0], ast.Subscript)
             and any(is_self_attr(e) for e in ast.walk(s_.targets[0].slice))]
    if plain:
        ctx.bad("R10.1", key, f"`{short(plain[0])}` is a plain indexed store: contributions of modes in the same bin overwrite each other "
                              "instead of being summed", a, plain[0])
    elif len(sc) == 1 and call_name(sc[0]) == "special_add_at" and len(sc[0].args) == 4:
        ax, ix = sc[0].args[1], sc[0].args[2]
        ctx.check("R10.1", key, is_self_attr(ix, idx_attr) and isinstance(ax, ast.Constant) and ax.value == axis,
                  f"gather axis {axis} via self.{idx_attr}; scatter `{src(sc[0])}`", a, sc[0])
        # the result of special_add_at is used (it returns the accumulated array)
        used = any(isinstance(s_, ast.Assign) and s_.value is sc[0] for s_ in ast.walk(a.node))
        ctx.check("R10.1", f"{a.key}::the accumulated array is the one returned", used, None, a)
    else:
        ctx.und("R10.1", key, f"{[src(c) for c in sc]}", a)
    # result domains and shape pairing
    rt = [r for r in walk_no_nested(t.node) if isinstance(r, ast.Return)]
    ra = [r for r in walk_no_nested(a.node) if isinstance(r, ast.Return)]
    ctx.check("R10.1", f"{t.key}::TIMES result lives on the target", len(rt) == 1 and src(rt[0].value).startswith(("Field(self._target,", "Field.from_raw(self._target,")), src(rt[0].value) if rt else None, t)
    ctx.check("R10.1", f"{a.key}::ADJOINT result lives on the domain", len(ra) == 1 and src(ra[0].value).startswith(("Field(self._domain,", "Field.from_raw(self._domain,")), src(ra[0].value) if ra else None, a)
    bt, ba = src(t.node), src(a.node)
    ctx.check("R10.1", f"{D.key}::bin-shaped and pixel-shaped buffers are paired consistently",
              "reshape(self._hshape)" in bt and "shape=self._pshape" in bt and "reshape(self._pshape)" in ba and "shape=self._hshape" in ba, None, D)
    pi = P.methods["__init__"]
    ctx.saw_func(pi)
    calls = [c for c in walk_no_nested(pi.node) if isinstance(c, ast.Call) and src(c.func) == "self._init2"]
    ctx.check("R10.1", f"{pi.key}::index is the power space's pindex and the domain space is the power space",
              len(calls) == 1 and [src(x) for x in calls[0].args] == ["power_space.pindex", "self._space", "power_space"], str([src(c) for c in calls]), pi)
    i2 = D.methods["_init2"]
    ctx.saw_func(i2)
    st = [s_ for s_ in walk_no_nested(i2.node) if isinstance(s_, ast.Assign) and is_self_attr(s_.targets[0], idx_attr or "_dofdex")]
    ctx.check("R10.1", f"{i2.key}::the index attribute stores the given index map", len(st) == 1 and i2.params()[1] in src(st[0].value), src(st[0]) if st else None, i2)

    ctx.rule("R10.2", "create_power_operator returns DiagonalOperator(d, domain, space, ...) where d is - through aliases only - "
                      "the result of applying PowerDistributor(domain[space], power_domain) to the spectrum field", floor=3)
    cpo = m.func(SUG, "create_power_operator")
    cpf = m.func(SUG, "_create_power_field")
    ctx.saw_func(cpo)
    ctx.saw_func(cpf)
    cfg = cfg_of(cpo)
    rd = cfg.reaching_defs(cpo.params())
    rets = [n for n in cfg.nodes if n.kind == "stmt" and isinstance(n.ast, ast.Return)]
    key = f"{cpo.key}::returns the diagonal of the distributed spectrum"
    if len(rets) != 1:
        ctx.und("R10.2", key, f"{len(rets)} returns", cpo)
    else:
        e = inline_at(cfg, rd, rets[0].id, rets[0].ast.value, stop=("space", "domain"))
        okk = isinstance(e, ast.Call) and call_name(e) == "DiagonalOperator" and len(e.args) >= 3 and isinstance(e.args[0], ast.Call) \
            and call_name(e.args[0]) == "_create_power_field" and [src(x) for x in e.args[0].args] == ["domain[space]", "power_spectrum"] \
            and src(e.args[1]) == "domain" and src(e.args[2]) == "space"
        ctx.check("R10.2", key, okk, src(e), cpo, rets[0].ast)
    cfg = cfg_of(cpf)
    rd = cfg.reaching_defs(cpf.params())
    rets = [n for n in cfg.nodes if n.kind == "stmt" and isinstance(n.ast, ast.Return)]
    key = f"{cpf.key}::distributes the spectrum field with PowerDistributor(domain, power_domain)"
    if len(rets) != 1:
        ctx.und("R10.2", key, f"{len(rets)} returns", cpf)
    else:
        v = rets[0].ast.value
        okk = isinstance(v, ast.Call) and isinstance(v.func, ast.Call) and call_name(v.func) == "PowerDistributor" \
            and len(v.func.args) == 2 and src(v.func.args[0]) == cpf.params()[0] and isinstance(v.func.args[1], ast.Name) \
            and len(v.args) == 1 and isinstance(v.args[0], ast.Name)
        pdn = v.func.args[1].id if okk else None
        if okk:
            pdefs = sorted(src(cfg.nodes[d].ast.value) for d in rd[rets[0].id].get(pdn, frozenset())
                           if cfg.nodes[d].kind == "stmt" and isinstance(cfg.nodes[d].ast, ast.Assign))
            okk = pdefs == sorted([f"{cpf.params()[1]}.domain[0]", f"PowerSpace({cpf.params()[0]})"])
        ctx.check("R10.2", key, okk, src(v), cpf, rets[0].ast)
        if okk:
            fp = v.args[0].id
            defs = rd[rets[0].id].get(fp, frozenset())
            srcs = sorted(src(cfg.nodes[d].ast.value) for d in defs if cfg.nodes[d].kind == "stmt" and isinstance(cfg.nodes[d].ast, ast.Assign))
            ctx.check("R10.2", f"{cpf.key}::the distributed field is the given spectrum (or its evaluation on the power space), nothing else",
                      srcs == sorted([cpf.params()[1], f"PS_field({pdn}, {cpf.params()[1]})"]), str(srcs), cpf)
