"""C10 - power distribution: gather/scatter through the same index, adjoint accumulates, power operator is the diagonal of
the distributed spectrum."""
import ast

from ..model import src, short, walk_no_nested, call_name, is_self_attr
from ..modespec import Spec
from ..terms import inline_at
from ..util import cfg_of

DIST = "nifty.cl.operators.distributors"
SUG = "nifty.cl.sugar"


def run(ctx):
    m = ctx.model
    D = m.cls(DIST, "DOFDistributor")
    P = m.cls(DIST, "PowerDistributor")
    ctx.saw_class(D)
    ctx.saw_class(P)
    ctx.rule("R10.1", "DOFDistributor gathers and scatters through the same index attribute on the same axis, the scatter "
                      "accumulates, TIMES maps bins onto the target and ADJOINT back onto the domain; PowerDistributor uses the "
                      "power space's pindex", floor=8)
    ap = D.methods["apply"]
    ctx.saw_func(ap)
    xn, mn = ap.params()[1:3]
    for mode, want in ((1, f"self._times({xn})"), (2, f"self._adjoint_times({xn})")):
        sp = Spec(m, D, ap, {mn: mode}).run()
        ctx.check("R10.1", f"{ap.key}::mode {mode} -> {want}", len(sp.returns) == 1 and src(sp.returns[0][0]) == want,
                  str([src(e) for e, a, s in sp.returns]), ap)
    t = D.methods["_times"]
    a = D.methods["_adjoint_times"]
    ctx.saw_func(t)
    ctx.saw_func(a)
    # gather
    gath = [s_ for s_ in ast.walk(t.node) if isinstance(s_, ast.Subscript) and isinstance(s_.slice, ast.Tuple)
            and any(is_self_attr(e) for e in s_.slice.elts) and isinstance(s_.ctx, ast.Load)]
    key = f"{t.key}::gather through an index attribute"
    idx_attr, axis = None, None
    if len(gath) == 1:
        for i, e in enumerate(gath[0].slice.elts):
            if is_self_attr(e):
                idx_attr, axis = e.attr, i
        others = [src(e) for i, e in enumerate(gath[0].slice.elts) if i != axis]
        ctx.check("R10.1", key, all(o == "slice(None)" for o in others), f"{src(gath[0])}", t, gath[0])
    else:
        ctx.und("R10.1", key, f"{len(gath)} gather expressions", t)
    # scatter
    sc = [c for c in ast.walk(a.node) if isinstance(c, ast.Call) and call_name(c) in ("special_add_at", "at")]
    key = f"{a.key}::scatter accumulates through the same index on the same axis"
    plain = [s_ for s_ in ast.walk(a.node) if isinstance(s_, ast.Assign) and isinstance(s_.targets[0], ast.Subscript)
             and any(is_self_attr(e) for e in ast.walk(s_.targets[0].slice))]
    if plain:
        ctx.bad("R10.1", key, f"`{short(plain[0])}` is a plain indexed store: contributions of modes in the same bin overwrite each other "
                              "instead of being summed", a, plain[0])
    elif len(sc) == 1 and call_name(sc[0]) == "special_add_at" and len(sc[0].args) == 4:
        ax, ix = sc[0].args[1], sc[0].args[2]
        ctx.check("R10.1", key, is_self_attr(ix, idx_attr) and isinstance(ax, ast.Constant) and ax.value == axis,
                  f"gather axis {axis} via self.{idx_attr}; scatter `{src(sc[0])}`", a, sc[0])
        # the result of special_add_at is used (it returns the accumulated array)
        used = any(isinstance(s_, ast.Assign) and s_.value is sc[0] for s_ in ast.walk(a.node))
        ctx.check("R10.1", f"{a.key}::the accumulated array is the one returned", used, None, a)
    else:
        ctx.und("R10.1", key, f"{[src(c) for c in sc]}", a)
    # result domains and shape pairing
    rt = [r for r in walk_no_nested(t.node) if isinstance(r, ast.Return)]
    ra = [r for r in walk_no_nested(a.node) if isinstance(r, ast.Return)]
    ctx.check("R10.1", f"{t.key}::TIMES result lives on the target", len(rt) == 1 and src(rt[0].value).startswith(("Field(self._target,", "Field.from_raw(self._target,")), src(rt[0].value) if rt else None, t)
    ctx.check("R10.1", f"{a.key}::ADJOINT result lives on the domain", len(ra) == 1 and src(ra[0].value).startswith(("Field(self._domain,", "Field.from_raw(self._domain,")), src(ra[0].value) if ra else None, a)
    bt, ba = src(t.node), src(a.node)
    ctx.check("R10.1", f"{D.key}::bin-shaped and pixel-shaped buffers are paired consistently",
              "reshape(self._hshape)" in bt and "shape=self._pshape" in bt and "reshape(self._pshape)" in ba and "shape=self._hshape" in ba, None, D)
    pi = P.methods["__init__"]
    ctx.saw_func(pi)
    calls = [c for c in walk_no_nested(pi.node) if isinstance(c, ast.Call) and src(c.func) == "self._init2"]
    ctx.check("R10.1", f"{pi.key}::index is the power space's pindex and the domain space is the power space",
              len(calls) == 1 and [src(x) for x in calls[0].args] == ["power_space.pindex", "self._space", "power_space"], str([src(c) for c in calls]), pi)
    i2 = D.methods["_init2"]
    ctx.saw_func(i2)
    st = [s_ for s_ in walk_no_nested(i2.node) if isinstance(s_, ast.Assign) and is_self_attr(s_.targets[0], idx_attr or "_dofdex")]
    ctx.check("R10.1", f"{i2.key}::the index attribute stores the given index map", len(st) == 1 and i2.params()[1] in src(st[0].value), src(st[0]) if st else None, i2)

    ctx.rule("R10.2", "create_power_operator returns DiagonalOperator(d, domain, space, ...) where d is - through aliases only - "
                      "the result of applying PowerDistributor(domain[space], power_domain) to the spectrum field", floor=3)
    cpo = m.func(SUG, "create_power_operator")
    cpf = m.func(SUG, "_create_power_field")
    ctx.saw_func(cpo)
    ctx.saw_func(cpf)
    cfg = cfg_of(cpo)
    rd = cfg.reaching_defs(cpo.params())
    rets = [n for n in cfg.nodes if n.kind == "stmt" and isinstance(n.ast, ast.Return)]
    key = f"{cpo.key}::returns the diagonal of the distributed spectrum"
    if len(rets) != 1:
        ctx.und("R10.2", key, f"{len(rets)} returns", cpo)
    else:
        e = inline_at(cfg, rd, rets[0].id, rets[0].ast.value, stop=("space", "domain"))
        okk = isinstance(e, ast.Call) and call_name(e) == "DiagonalOperator" and len(e.args) >= 3 and isinstance(e.args[0], ast.Call) \
            and call_name(e.args[0]) == "_create_power_field" and [src(x) for x in e.args[0].args] == ["domain[space]", "power_spectrum"] \
            and src(e.args[1]) == "domain" and src(e.args[2]) == "space"
        ctx.check("R10.2", key, okk, src(e), cpo, rets[0].ast)
    cfg = cfg_of(cpf)
    rd = cfg.reaching_defs(cpf.params())
    rets = [n for n in cfg.nodes if n.kind == "stmt" and isinstance(n.ast, ast.Return)]
    key = f"{cpf.key}::distributes the spectrum field with PowerDistributor(domain, power_domain)"
    if len(rets) != 1:
        ctx.und("R10.2", key, f"{len(rets)} returns", cpf)
    else:
        v = rets[0].ast.value
        okk = isinstance(v, ast.Call) and isinstance(v.func, ast.Call) and call_name(v.func) == "PowerDistributor" \
            and len(v.func.args) == 2 and src(v.func.args[0]) == cpf.params()[0] and isinstance(v.func.args[1], ast.Name) \
            and len(v.args) == 1 and isinstance(v.args[0], ast.Name)
        pdn = v.func.args[1].id if okk else None
        if okk:
            pdefs = sorted(src(cfg.nodes[d].ast.value) for d in rd[rets[0].id].get(pdn, frozenset())
                           if cfg.nodes[d].kind == "stmt" and isinstance(cfg.nodes[d].ast, ast.Assign))
            okk = pdefs == sorted([f"{cpf.params()[1]}.domain[0]", f"PowerSpace({cpf.params()[0]})"])
        ctx.check("R10.2", key, okk, src(v), cpf, rets[0].ast)
        if okk:
            fp = v.args[0].id
            defs = rd[rets[0].id].get(fp, frozenset())
            srcs = sorted(src(cfg.nodes[d].ast.value) for d in defs if cfg.nodes[d].kind == "stmt" and isinstance(cfg.nodes[d].ast, ast.Assign))
            ctx.check("R10.2", f"{cpf.key}::the distributed field is the given spectrum (or its evaluation on the power space), nothing else",
                      srcs == sorted([cpf.params()[1], f"PS_field({pdn}, {cpf.params()[1]})"]), str(srcs), cpf)


# ---------------------------------------------------------------------------------------------------------------- R10.3-R10.6
from ..poly import cpoly, p_add, p_mul, p_sym, p_str  # noqa: E402
from ..util import known_atoms, find_nodes  # noqa: E402


def _flag_eval(test, val, flags):
    """three-valued evaluation of a test over {'real': bool, 'keep': bool}; flags maps source text -> ('real'|'keep', inverted)"""
    t = src(test)
    if t in flags:
        nm, inv = flags[t]
        return val[nm] ^ inv
    if isinstance(test, ast.UnaryOp) and isinstance(test.op, ast.Not):
        v = _flag_eval(test.operand, val, flags)
        return None if v is None else not v
    if isinstance(test, ast.BoolOp):
        vs = [_flag_eval(v, val, flags) for v in test.values]
        if isinstance(test.op, ast.And):
            return False if any(v is False for v in vs) else (None if any(v is None for v in vs) else True)
        return True if any(v is True for v in vs) else (None if any(v is None for v in vs) else False)
    return None


def _weight_calls(e):
    """[(power const or None, spaces text or None)] for .weight(...) calls in e"""
    out = []
    for c in ast.walk(e):
        if isinstance(c, ast.Call) and isinstance(c.func, ast.Attribute) and c.func.attr == "weight":
            pw = c.args[0] if c.args else next((k.value for k in c.keywords if k.arg == "power"), ast.Constant(value=1))
            sp = c.args[1] if len(c.args) > 1 else next((k.value for k in c.keywords if k.arg == "spaces"), None)
            try:
                pv = ast.literal_eval(pw)
            except Exception:
                pv = None
            out.append((pv, None if sp is None or src(sp) == "None" else src(sp), c))
    return out


def r10_3(ctx, m):
    pa = m.func(SUG, "power_analyze")
    sp1 = m.func(SUG, "_single_power_analyze")
    ctx.saw_func(pa)
    ctx.saw_func(sp1)
    ctx.rule("R10.3", "power_analyze: without phase information the analysed quantity is the squared modulus re^2+im^2 (f^2 for real "
                      "input), with phase information the pair (re^2, im^2) recombined as p0 + 1j*p1; only complex input reaches the "
                      "phase branch (real input is refused before `.imag` is read); every analysed space goes through "
                      "_single_power_analyze(part, space, binbounds) = PowerDistributor(domain, PowerSpace(domain[space], binbounds), "
                      "space).adjoint_times(volume-weighted part) / bin size, and volume weights cancel on all other spaces", floor=7)
    cfg = cfg_of(pa)
    params = pa.params()
    rd = cfg.reaching_defs(params)
    fld = params[0]
    keep = params[3] if len(params) > 3 else None
    flags = {}
    if keep:
        flags[keep] = ("keep", False)
    for n in cfg.nodes:
        if n.kind == "stmt" and isinstance(n.ast, ast.Assign) and len(n.ast.targets) == 1 and isinstance(n.ast.targets[0], ast.Name):
            v = n.ast.value
            inv = False
            if isinstance(v, ast.UnaryOp) and isinstance(v.op, ast.Not):
                v, inv = v.operand, True
            if isinstance(v, ast.Call) and call_name(v) == "iscomplextype" and len(v.args) == 1 and src(v.args[0]) == f"{fld}.dtype":
                # name = iscomplextype -> real inverted; name = not iscomplextype -> real
                flags[n.ast.targets[0].id] = ("real", not inv)
    for x in ast.walk(pa.node):
        if isinstance(x, ast.Call) and call_name(x) == "iscomplextype" and len(x.args) == 1 and src(x.args[0]) == f"{fld}.dtype":
            flags[src(x)] = ("real", True)
    if not any(v[0] == "real" for v in flags.values()) or not keep:
        ctx.und("R10.3", f"{pa.key}::real/complex flag", "no iscomplextype(<field>.dtype) flag found", pa)
        return
    # loop over spaces
    loops = [n for n in cfg.nodes if n.kind == "for" and n.first]
    loop_asts = [l.ast for l in loops]
    pname = None
    helper_calls = []
    for l in loop_asts:
        for c in ast.walk(l):
            if isinstance(c, ast.Call) and call_name(c) == sp1.name:
                helper_calls.append((l, c))
    key = f"{pa.key}::every analysed space goes through {sp1.name}(part, space, binbounds)"
    if len(helper_calls) != 1:
        ctx.und("R10.3", key, f"{len(helper_calls)} helper calls inside loops", pa)
        return
    loop, hc = helper_calls[0]
    lv = src(loop.target)
    # the list that is rebuilt by the loop
    st = [s_ for s_ in loop.body if isinstance(s_, ast.Assign) and any(x is hc for x in ast.walk(s_))]
    okk = None
    if len(st) == 1 and isinstance(st[0].targets[0], ast.Name) and isinstance(st[0].value, ast.ListComp) and st[0].value.elt is hc:
        pname = st[0].targets[0].id
        comp = st[0].value.generators[0]
        okk = src(comp.iter) == pname and not comp.ifs and [src(a) for a in hc.args] == [src(comp.target), lv, params[2]] \
            and src(loop.iter) == params[1]
    ctx.check("R10.3", key, okk, src(st[0]) if st else None, pa, hc)
    if pname is None:
        return
    # definitions of the parts list before the loop
    loopnode = [l for l in loops if l.ast is loop][0]
    defs = sorted((rd.get(loopnode.id) or {}).get(pname, ()))
    a, b = p_sym("re"), p_sym("im")
    seen_vals = set()
    for d in defs:
        dn = cfg.nodes[d]
        if dn.kind != "stmt" or not isinstance(dn.ast, ast.Assign) or any(dn.ast is s_ for s_ in ast.walk(loop)):
            continue
        atoms = known_atoms(cfg, dn.id)
        for K in (False, True):
            for R in (False, True):
                val = {"keep": K, "real": R}
                if any(_flag_eval(t, val, flags) is (not pol) for t, pol in atoms):
                    continue
                seen_vals.add((K, R))
                key = f"{pa.key}::keep_phase_information={K}, {'real' if R else 'complex'} input"
                if K and R:
                    ctx.bad("R10.3", key, f"real input reaches `{short(dn.ast)}`: there is no phase to keep (and `.imag` raises on real "
                                          f"fields); the refusal guard must test for REAL input", pa, dn.ast)
                    continue
                if not isinstance(dn.ast.value, ast.List):
                    ctx.und("R10.3", key, f"`{short(dn.ast)}` is not a list display", pa, dn.ast)
                    continue
                env = {fld: (a, {} if R else b)}
                try:
                    got = [cpoly(e, env) for e in dn.ast.value.elts]
                except KeyError as exc:
                    ctx.und("R10.3", key, f"term outside the polynomial fragment: {exc}", pa, dn.ast)
                    continue
                im2 = {} if R else p_mul(b, b)
                want = [(p_mul(a, a), {}), (im2, {})] if K else [(p_add(p_mul(a, a), im2), {})]
                ctx.check("R10.3", key, got == want,
                          "analysed: [" + ", ".join(f"{p_str(g[0])}" + (f" + i({p_str(g[1])})" if g[1] else "") for g in got) + "]", pa, dn.ast)
    for K, R in ((False, False), (False, True), (True, False)):
        if (K, R) not in seen_vals:
            ctx.bad("R10.3", f"{pa.key}::keep_phase_information={K}, {'real' if R else 'complex'} input",
                    "this admissible input never reaches the analysis (refused or no definition of the analysed quantity)", pa)
    # recombination
    rets = [n for n in cfg.nodes if n.kind == "stmt" and isinstance(n.ast, ast.Return) and n.ast.value is not None]
    key = f"{pa.key}::result = p0 + 1j*p1 with phase information, p0 without"
    if len(rets) != 1 or not isinstance(rets[0].ast.value, ast.IfExp):
        ctx.und("R10.3", key, "return shape not recognised", pa)
    else:
        ie = rets[0].ast.value
        t, body, orelse = ie.test, ie.body, ie.orelse
        tv = _flag_eval(t, {"keep": True, "real": False}, flags)
        if tv is False:
            body, orelse = orelse, body
        env = {pname: None}

        class Sub(ast.NodeTransformer):
            def visit_Subscript(self, node):
                if src(node.value) == pname and isinstance(node.slice, ast.Constant):
                    return ast.Name(id=f"__p{node.slice.value}", ctx=ast.Load())
                return node
        import copy
        try:
            e2 = {"__p0": (p_sym("p0"), {}), "__p1": (p_sym("p1"), {})}
            gb = cpoly(Sub().visit(copy.deepcopy(body)), e2)
            go = cpoly(Sub().visit(copy.deepcopy(orelse)), e2)
            ctx.check("R10.3", key, tv is not None and gb == (p_sym("p0"), p_sym("p1")) and go == (p_sym("p0"), {}), src(ie), pa, rets[0].ast)
        except KeyError as exc:
            ctx.und("R10.3", key, f"term not understood: {exc}", pa)
    # the helper and the volume weights
    r1 = [x for x in walk_no_nested(sp1.node) if isinstance(x, ast.Return)]
    hkey = f"{sp1.key}::adjoint distribution of the volume-weighted part, divided by the bin size"
    if len(r1) != 1:
        ctx.und("R10.3", hkey, f"{len(r1)} returns", sp1)
        return
    c1 = cfg_of(sp1)
    rd1 = c1.reaching_defs(sp1.params())
    rn = [n for n in c1.nodes if n.kind == "stmt" and n.ast is r1[0]][0]
    e = inline_at(c1, rd1, rn.id, r1[0].value, depth=3)
    f1, i1, bb1 = sp1.params()[:3]
    adj = [c for c in ast.walk(e) if isinstance(c, ast.Call) and isinstance(c.func, ast.Attribute) and c.func.attr in ("adjoint_times", "adjoint")]
    if len(adj) != 1 or len(adj[0].args) != 1:
        ctx.und("R10.3", hkey, f"`{src(e)}`: adjoint_times call not found", sp1)
        return
    adj = adj[0]
    pdc = adj.func.value
    okk = isinstance(pdc, ast.Call) and call_name(pdc) == "PowerDistributor" and len(pdc.args) == 3 and src(pdc.args[0]) == f"{f1}.domain" \
        and src(pdc.args[1]) == f"PowerSpace({f1}.domain[{i1}], {bb1})" and src(pdc.args[2]) == i1
    ctx.check("R10.3", f"{sp1.key}::distributor = PowerDistributor(domain, PowerSpace(domain[space], binbounds), space)", okk, src(pdc), sp1, r1[0])
    inner = _weight_calls(adj.args[0])
    outer = [w for w in _weight_calls(e) if w[2] not in [x[2] for x in inner]]
    # base of the inner chain must be the field itself
    base = adj.args[0]
    while isinstance(base, ast.Call) and isinstance(base.func, ast.Attribute) and base.func.attr == "weight":
        base = base.func.value
    outer_ok = True
    oc = e
    while isinstance(oc, ast.Call) and isinstance(oc.func, ast.Attribute) and oc.func.attr == "weight":
        oc = oc.func.value
    outer_ok = oc is adj
    pre = _weight_calls(ast.Module(body=[s_ for s_ in pa.node.body], type_ignores=[]))
    unknown = [w for w in inner + outer + pre if w[0] is None or w[1] not in (None, i1, lv, params[1])]
    if src(base) != f1 or not outer_ok or unknown:
        ctx.und("R10.3", hkey, f"`{src(e)}`: weighting chain not recognised", sp1)
        return
    a_all = sum(w[0] for w in inner if w[1] is None)
    a_idx = sum(w[0] for w in inner if w[1] == i1)
    b_all = sum(w[0] for w in outer if w[1] is None)
    b_idx = sum(w[0] for w in outer if w[1] == i1)
    e_all = sum(w[0] for w in pre if w[1] is None)
    e_an = sum(w[0] for w in pre if w[1] == params[1])
    e_bad = [w for w in pre if w[1] not in (None, params[1])]
    problems = []
    if e_bad:
        problems = None
    else:
        if a_all + b_all != 0:
            problems.append(f"each pass changes the volume weight of the other spaces by dvol^{a_all + b_all}")
        if e_all != 0:
            problems.append(f"power_analyze weights ALL spaces by dvol^{e_all} and nothing removes it from the spaces that are not analysed")
        if e_all + e_an + a_all + a_idx != 1:
            problems.append(f"the analysed space enters the bin sum with weight dvol^{e_all + e_an + a_all + a_idx}, not dvol^1")
        if b_all + b_idx != -1:
            problems.append(f"the bin sums are scaled by (bin size)^{b_all + b_idx}, not divided by the bin size")
    ctx.check("R10.3", hkey, None if problems is None else not problems, "; ".join(problems or []) or src(e), sp1, r1[0])


def r10_4(ctx, m):
    """a Field is an Operator and hence callable: `callable(x)` cannot separate spectrum fields from spectrum functions"""
    ctx.rule("R10.4", "argument discrimination: no `isinstance(x, C)` test for a class C that defines __call__ (Field derives from "
                      "Operator) sits in a region that is only reached when `callable(x)` is false - that branch would be dead and "
                      "the documented argument type rejected", floor=1)
    F = m.cls("nifty.cl.field", "Field")
    has_call = any("__call__" in c.methods for c in m.mro(F))
    mod = m.module(SUG)
    n_sites = 0
    for fi in [f for f in mod.functions.values()]:
        tests = [x for x in ast.walk(fi.node) if isinstance(x, ast.Call) and call_name(x) == "callable" and len(x.args) == 1]
        if not tests:
            continue
        cfg = cfg_of(fi)
        for n, c in find_nodes(cfg, lambda q: isinstance(q, ast.Call) and call_name(q) == "isinstance" and len(q.args) == 2):
            subj = src(c.args[0])
            cls_names = [src(x) for x in (c.args[1].elts if isinstance(c.args[1], ast.Tuple) else [c.args[1]])]
            if "Field" not in cls_names:
                continue
            atoms = known_atoms(cfg, n.id)
            dead = [t for t, pol in atoms if isinstance(t, ast.Call) and call_name(t) == "callable" and src(t.args[0]) == subj and pol is False]
            n_sites += 1
            ctx.check("R10.4", f"{fi.key}::isinstance({subj}, Field) is reachable for a Field", not (dead and has_call),
                      f"guarded by `not callable({subj})`, but Field inherits __call__ from Operator: a Field never gets here" if dead else None,
                      fi, c)
    if n_sites == 0:
        ctx.und("R10.4", f"{SUG}::callable/isinstance discrimination sites", "none found", mod.relpath)


def r10_5(ctx, m):
    """index arrays keep their integer width"""
    ctx.rule("R10.5", "the bin index array of a distributor is stored without a narrowing integer cast (bin indices run up to the "
                      "number of bins, which is not bounded by a small integer type)", floor=2)
    D = m.cls(DIST, "DOFDistributor")
    P = m.cls(DIST, "PowerDistributor")
    NARROW = ("int8", "int16", "int32", "uint8", "uint16", "uint32", "short", "intc", "byte", "ubyte", "ushort", "uintc", "float16", "float32", "half", "single")
    for cls in (D, P):
        for name, fi in cls.methods.items():
            if name not in ("__init__", "_init2"):
                continue
            casts = []
            for c in ast.walk(fi.node):
                if isinstance(c, ast.Call) and isinstance(c.func, ast.Attribute) and c.func.attr in ("astype", "view"):
                    casts.append((c, src(c.args[0]) if c.args else ""))
                elif isinstance(c, ast.Call):
                    for k in c.keywords:
                        if k.arg == "dtype":
                            casts.append((c, src(k.value)))
            bad = [(c, t) for c, t in casts if t.split(".")[-1].strip("'\"") in NARROW and ("dex" in src(c) or "pindex" in src(c))]
            ctx.check("R10.5", f"{fi.key}::no narrowing cast of the index array", not bad,
                      "; ".join(f"`{short(c)}` narrows to {t}" for c, t in bad) or None, fi, bad[0][0] if bad else None)


_run_c10b = run


def run(ctx):  # noqa: F811
    _run_c10b(ctx)
    r10_3(ctx, ctx.model)
    r10_4(ctx, ctx.model)
    r10_5(ctx, ctx.model)
    # the "divide by the bin size" step of power_analyze is Field.weight with the non-scalar volumes of the power space
    from .c06 import r06_8
    r06_8(ctx, "R10.6")
    r10_7(ctx, ctx.model)
    # natural binning of the partner: population and unique k-lengths (shared with C08)
    from .c08 import r08_13
    r08_13(ctx, ctx.model, rid13="R10.8", rid14="R10.9")
    # power operators on a sub-space are partial-space diagonals (shared with C01)
    from .c01 import r01_6
    r01_6(ctx, ctx.model, rid="R10.10")


def r10_7(ctx, m):
    """the callable-spectrum path keeps the values the spectrum function returns"""
    fi = m.func("nifty.cl.sugar", "PS_field")
    ctx.saw_func(fi)
    ctx.rule("R10.7", "PS_field (callable spectra of create_power_operator): the values returned by the spectrum function reach the field "
                      "without a narrowing dtype coercion (np.asarray(..., dtype=float), astype(float), .real) - a complex spectrum "
                      "would silently lose its imaginary part", floor=1)
    fn = fi.params()[1]
    calls = [c for c in walk_no_nested(fi.node) if isinstance(c, ast.Call) and src(c.func) == fn]
    key = f"{fi.key}::spectrum values are not coerced to a real dtype"
    if len(calls) != 1:
        ctx.und("R10.7", key, f"{len(calls)} calls of the spectrum function", fi)
        return
    bad = []
    for x in walk_no_nested(fi.node):
        if isinstance(x, ast.Call) and call_name(x) in ("asarray", "array", "astype", "asanyarray", "full", "broadcast_to"):
            dt = [k.value for k in x.keywords if k.arg == "dtype"] + ([x.args[0]] if call_name(x) == "astype" and x.args else [])
            if dt and any(w in src(dt[0]) for w in ("float", "int", "bool")):
                bad.append(x)
        if isinstance(x, ast.Attribute) and x.attr == "real" and any(c is y for c in calls for y in ast.walk(x.value)):
            bad.append(x)
    ctx.check("R10.7", key, not bad, f"`{short(bad[0], 70)}` forces a real dtype" if bad else None, fi, bad[0] if bad else calls[0])
