"""C11 - classic likelihood energies: a requested metric is attached on every path; transformation/residual contract."""
import ast

from ..model import src, short, walk_no_nested, call_name, is_self_attr
from ..terms import inline_at
from ..util import cfg_of, find_nodes, known_atoms

EO = "nifty.cl.operators.energy_operators"
JO = "nifty.cl.operators.jax_operator"
OPM = "nifty.cl.operators.operator"


def _metric_free_ok(atoms, xn, resolve=None):
    """The return is only reached when no metric was requested (or the input is not a linearization)."""
    for t, pol in atoms:
        if resolve is not None and isinstance(t, ast.Name):
            t = resolve(t)
        s = src(t)
        if s == f"{xn}.want_metric" and pol is False:
            return True
        if s in ("lin", f"is_linearization({xn})", f"{xn}.jac is not None") and pol is False:
            return True
        if s in (f"{xn}.jac is None",) and pol is True:
            return True
    return False


def run(ctx):
    m = ctx.model
    L = m.cls(EO, "LikelihoodEnergyOperator")
    ctx.saw_class(L)
    ctx.rule("R11.1", "metric attachment: in apply of every concrete LikelihoodEnergyOperator that computes its value locally, every "
                      "return reachable with x.want_metric true has passed through add_metric(...); the input check dominates; "
                      "StandardHamiltonian attaches SamplingEnabler(lh metric, prior metric, controller) exactly when a metric is "
                      "wanted and a sampling controller is set; operator sums attach a metric iff all summands delivered one", floor=12)
    subs = [c for c in m.subclasses(L) if not c.local]
    n_cls = 0
    for c in subs:
        ap = c.methods.get("apply")
        if ap is None:
            continue
        ctx.saw_class(c)
        ctx.saw_func(ap)
        xn = ap.params()[1]
        cfg = cfg_of(ap)
        rets = [n for n in cfg.nodes if n.kind == "stmt" and isinstance(n.ast, ast.Return)]
        # pure delegations
        if len(rets) == 1 and isinstance(rets[0].ast.value, ast.Call) and (
                src(rets[0].ast.value.func) in ("self._op", "_OpSum._apply_operator_sum", "self._op.apply")):
            ctx.ok("R11.1", f"{ap.key}::delegates to the wrapped operator (which attaches the metric)", None, ap)
            continue
        n_cls += 1
        # input check dominates
        chk = [n for n, cc in find_nodes(cfg, lambda q: isinstance(q, ast.Call) and src(q.func) == "self._check_input")]
        dom = cfg.dominators()
        ctx.check("R11.1", f"{ap.key}::_check_input dominates every return", bool(chk) and all(chk[0].id in dom[r.id] for r in rets if r.id in dom), None, ap)
        rd = cfg.reaching_defs(ap.params())
        for r in rets:
            v = r.ast.value
            at = known_atoms(cfg, r.id)
            key = f"{ap.key}::`{r.text()[:70]}`"
            if isinstance(v, ast.Call) and call_name(v) == "add_metric" and v.args:
                arg = v.args[0]
                none = isinstance(arg, ast.Constant) and arg.value is None
                ctx.check("R11.1", key, not none, "add_metric(None)", ap, r.ast)
            elif _metric_free_ok(at, xn, lambda nm, _r=r: inline_at(cfg, rd, _r.id, nm, depth=1)):
                ctx.ok("R11.1", key, "only reached when no metric is requested", ap, r.ast)
            else:
                # value may be a local that already carries the metric
                e = inline_at(cfg, rd, r.id, v, depth=2)
                if isinstance(e, ast.Call) and call_name(e) == "add_metric":
                    ctx.ok("R11.1", key, "returns a local produced by add_metric", ap, r.ast)
                else:
                    ctx.bad("R11.1", key, "a linearization with want_metric=True can leave through this return without a metric "
                                          f"(guards: {[('' if p else 'not ') + src(t) for t, p in at]})", ap, r.ast)
    ctx.extra["likelihood_classes_with_local_apply"] = n_cls
    # JaxLikelihoodEnergyOperator
    J = m.cls(JO, "JaxLikelihoodEnergyOperator", required=False)
    # (covered by the loop above if it derives from LikelihoodEnergyOperator)
    # StandardHamiltonian
    H = m.cls(EO, "StandardHamiltonian")
    ap = H.methods["apply"]
    ctx.saw_func(ap)
    xn = ap.params()[1]
    cfg = cfg_of(ap)
    rd = cfg.reaching_defs(ap.params())
    rets = [n for n in cfg.nodes if n.kind == "stmt" and isinstance(n.ast, ast.Return)]
    plain = [r for r in rets if not (isinstance(r.ast.value, ast.Call) and call_name(r.ast.value) == "add_metric")]
    withm = [r for r in rets if r not in plain]
    key = f"{ap.key}::metric-free result only if no metric is wanted or no sampling controller is set"
    okp = len(plain) == 1 and any(src(t) in (f"not {xn}.want_metric or self._ic_samp is None", f"self._ic_samp is None or not {xn}.want_metric") and pol
                                  for t, pol in [(n.ast, True) for n in cfg.nodes if n.kind == "test"]) and \
        any(src(g) in (f"not {xn}.want_metric or self._ic_samp is None", f"self._ic_samp is None or not {xn}.want_metric") and pol
            for g, pol in __import__("nsa.util", fromlist=["guards"]).guards(cfg, plain[0].id)) if plain else False
    ctx.check("R11.1", key, okp, f"{[r.text()[:60] for r in plain]}", ap)
    key = f"{ap.key}::attached metric is SamplingEnabler(likelihood metric, prior metric, controller)"
    if len(withm) != 1:
        ctx.und("R11.1", key, f"{len(withm)} returns with add_metric", ap)
    else:
        e = inline_at(cfg, rd, withm[0].id, withm[0].ast.value.args[0], depth=3)
        s = src(e)
        ctx.check("R11.1", key, s == f"SamplingEnabler(self._lh({xn}).metric, self._prior({xn}).metric, self._ic_samp)", s, ap, withm[0].ast)
        # the value: likelihood + prior, possibly plus stored constants (self._<attr> addends), along every reaching definition
        def alternatives(node_id, e, depth=4):
            e = inline_at(cfg, rd, node_id, e, depth=3)
            if isinstance(e, ast.Name) and depth > 0:
                out = []
                for d in sorted((rd.get(node_id) or {}).get(e.id, ())):
                    dn = cfg.nodes[d]
                    if dn.kind == "stmt" and isinstance(dn.ast, ast.Assign) and len(dn.ast.targets) == 1 and src(dn.ast.targets[0]) == e.id:
                        out += alternatives(d, dn.ast.value, depth - 1)
                    else:
                        out.append(None)
                return out
            if isinstance(e, ast.BinOp) and isinstance(e.op, ast.Add):
                res = []
                for a in alternatives(node_id, e.left, depth - 1):
                    for b in alternatives(node_id, e.right, depth - 1):
                        res.append(None if a is None or b is None else a + b)
                return res
            return [[src(e)]]
        alts = alternatives(withm[0].id, withm[0].ast.value.func.value)
        want = sorted([f"self._lh({xn})", f"self._prior({xn})"])
        okv = bool(alts) and all(a is not None and sorted(t for t in a if not (t.startswith("self._") and "(" not in t)) == want for a in alts)
        ctx.check("R11.1", f"{ap.key}::value is likelihood + prior (plus stored constants)", okv, str(alts), ap)
    # operator sums
    aos = m.func(OPM, "_OpSum._apply_operator_sum")
    ctx.saw_func(aos)
    body = src(aos.node)
    xn = aos.params()[0]
    ctx.check("R11.1", f"{aos.key}::summands are linearized with the incoming want_metric",
              f"Linearization.make_var({xn}.val.extract(oo.domain), {xn}.want_metric)" in body, None, aos)
    cfg = cfg_of(aos)
    adds = [(n, c) for n, c in find_nodes(cfg, lambda q: isinstance(q, ast.Call) and call_name(q) == "add_metric")]
    okk = False
    if len(adds) == 1:
        at = known_atoms(cfg, adds[0][0].id)
        okk = any(src(t) == "all((mm is not None for mm in metrics))" and pol for t, pol in at) and "reduce(add, metrics)" in src(adds[0][1])
    ctx.check("R11.1", f"{aos.key}::metric attached iff every summand delivered one (sum of the metrics)", okk, None, aos)

    # ------------------------------------------------------------------ R11.2
    ctx.rule("R11.2", "every concrete LikelihoodEnergyOperator hands a residual operator and a sqrt-metric callable to the base "
                      "constructor (a transformation is optional: constant likelihoods have none)", floor=8)
    for c in subs:
        if c.name.startswith("_Likelihood") and c.name in ("_LikelihoodChain", "_LikelihoodSum"):
            pass
        init = c.methods.get("__init__")
        if init is None:
            continue
        sc = [cc for cc in walk_no_nested(init.node) if isinstance(cc, ast.Call) and isinstance(cc.func, ast.Attribute) and cc.func.attr == "__init__"
              and "super" in src(cc.func.value)]
        ctx.check("R11.2", f"{c.key}::base constructor receives (residual, sqrt-metric callable)",
                  len(sc) == 1 and len(sc[0].args) + len(sc[0].keywords) == 2, f"{[short(x) for x in sc]}", init)


# ---------------------------------------------------------------------------------------------------------------- R11.3 / R11.4
def r11_3(ctx, m):
    """accumulator recursion of _LikelihoodSum.unpack: unpack(ops, res) == res ++ flat(ops)"""
    S = m.cls(EO, "_LikelihoodSum")
    fi = S.methods.get("unpack")
    ctx.rule("R11.3", "_LikelihoodSum.unpack(ops, res) returns res followed by the flattened summands: in every branch of the loop "
                      "the accumulator is replaced by itself followed by exactly one new piece (the recursive call receives the "
                      "accumulator and its result replaces it, or receives an empty list and its result is appended); make() starts "
                      "from an empty accumulator", floor=3)
    if fi is None:
        ctx.error("_LikelihoodSum.unpack missing")
        return
    ctx.saw_func(fi)
    ps = fi.params()
    ops, acc = ps[1], ps[2]
    loops = [st for st in fi.node.body if isinstance(st, ast.For) and src(st.iter) == ops]
    key = f"{fi.key}::loop over the summands"
    if len(loops) != 1:
        ctx.und("R11.3", key, f"{len(loops)} loops over `{ops}`", fi)
        return
    lv = src(loops[0].target)

    def seq(e):
        """expression -> list of pieces: 'ACC', ('flat', text), ('item', text) ; None if not understood"""
        if isinstance(e, ast.Name) and e.id == acc:
            return ["ACC"]
        if isinstance(e, ast.List):
            return [("item", src(x)) for x in e.elts]
        if isinstance(e, ast.BinOp) and isinstance(e.op, ast.Add):
            a, b = seq(e.left), seq(e.right)
            return None if a is None or b is None else a + b
        if isinstance(e, ast.Call) and isinstance(e.func, ast.Attribute) and e.func.attr == fi.name and len(e.args) == 2:
            a = seq(e.args[1])
            return None if a is None else a + [("flat", src(e.args[0]))]
        return None

    def branches(stmts, conds):
        out = []
        for st in stmts:
            if isinstance(st, ast.If):
                t_, pol_ = st.test, True
                while isinstance(t_, ast.UnaryOp) and isinstance(t_.op, ast.Not):
                    t_, pol_ = t_.operand, not pol_
                out += branches(st.body, conds + [(src(t_), pol_)])
                out += branches(st.orelse, conds + [(src(t_), not pol_)])
            else:
                out.append((st, conds))
        return out
    n = 0
    for st, conds in branches(loops[0].body, []):
        nested = any(c == f"isinstance({lv}, {ps[0]})" and pol for c, pol in conds)
        bkey = f"{fi.key}::{'nested sum' if nested else 'plain summand'} branch"
        new = None
        if isinstance(st, ast.Assign) and len(st.targets) == 1 and src(st.targets[0]) == acc:
            new = seq(st.value)
        elif isinstance(st, ast.AugAssign) and src(st.target) == acc and isinstance(st.op, ast.Add):
            s_ = seq(st.value)
            new = None if s_ is None else ["ACC"] + s_
        elif isinstance(st, ast.Expr) and isinstance(st.value, ast.Call) and isinstance(st.value.func, ast.Attribute) \
                and src(st.value.func.value) == acc and st.value.func.attr in ("append", "extend") and len(st.value.args) == 1:
            a = st.value.args[0]
            s_ = [("item", src(a))] if st.value.func.attr == "append" else seq(a)
            new = None if s_ is None else ["ACC"] + s_
        if new is None:
            ctx.und("R11.3", bkey, f"`{short(st)}` not understood", fi, st)
            continue
        n += 1
        want = ("flat", f"{lv}._ops") if nested else ("item", lv)
        ctx.check("R11.3", bkey, new == ["ACC", want],
                  f"accumulator becomes {new}; expected ['ACC', {want}]" + (" - the summands collected so far are duplicated" if new.count("ACC") > 1 else ""), fi, st)
    rr = [r for r in walk_no_nested(fi.node) if isinstance(r, ast.Return)]
    ctx.check("R11.3", f"{fi.key}::returns the accumulator", len(rr) == 1 and src(rr[0].value) == acc, None, fi)
    mk = S.methods.get("make")
    if mk is not None:
        calls = [c for c in ast.walk(mk.node) if isinstance(c, ast.Call) and isinstance(c.func, ast.Attribute) and c.func.attr == fi.name]
        ctx.check("R11.3", f"{mk.key}::starts from an empty accumulator", len(calls) == 1 and [src(a) for a in calls[0].args] == [mk.params()[1], "[]"],
                  "; ".join(src(c) for c in calls), mk)


# expectation of the data under the likelihood itself, per class (frozen; reason)
EXPECT = {
    "PoissonianEnergy": ({"d": "X"}, "E[d] = lambda for Poisson counts"),
    "BernoulliEnergy": ({"d": "X"}, "E[d] = p for Bernoulli events"),
    "CategoricalEnergy": ({"d": "X"}, "E[d_i] = p_i for one-hot categorical data"),
    "InverseGammaEnergy": ({"beta": "alphap1*X"}, "beta ~ Gamma(shape alpha+1, scale x): E[beta] = (alpha+1) x"),
    "_SpecialGammaEnergy": ({}, "second derivative does not depend on the residual"),
}
FISHER_CONST = {
    "StudentTEnergy": ("(theta+1)/(theta+3)", "Fisher information of the location of a Student-t with theta degrees of freedom (unit scale)"),
}


def r11_4(ctx, m, rid="R11.4", only=None):
    from .c03 import _load_sympy
    from ..fieldsym import FieldSym, NotUnderstood
    ctx.rule(rid, "Fisher identity per energy (real-valued case, per pixel): with E the energy term of apply() and T the "
                      "transformation of get_transformation(), (dT/dx)^2 equals the expectation over the data of d^2E/dx^2 "
                      "(sympy as term normaliser; expectation of the data from a frozen table)", floor=6 if only is None else len(only))
    sp = _load_sympy()
    if sp is None:
        ctx.und(rid, f"{EO}::sympy", "sympy not importable", EO)
        return
    for cname in [c_ for c_ in list(EXPECT) + list(FISHER_CONST) if only is None or c_ in only]:
        C = m.cls(EO, cname)
        ap, gt = C.methods.get("apply"), C.methods.get("get_transformation")
        key = f"{C.key}::(dT/dx)^2 == E_d[d^2E/dx^2]"
        if ap is None or gt is None:
            ctx.und(rid, key, "apply/get_transformation missing", C)
            continue
        ctx.saw_func(ap)
        ctx.saw_func(gt)
        xn = ap.params()[1]
        fs = FieldSym(sp, facts={"self._cplx": False, f"{xn}.want_metric": False})
        try:
            E, _ = fs.run(ap.node.body, {xn: fs.X})
            T, _ = fs.run(gt.node.body, {})
        except NotUnderstood as exc:
            ctx.und(rid, key, f"term not understood: {exc}", C)
            continue
        if E is None or T is None:
            ctx.und(rid, key, "no returned term", C)
            continue
        X = fs.X
        Epp = sp.diff(E, X, 2)
        if cname in EXPECT:
            sub, why = EXPECT[cname]
            loc = {"X": X}
            loc.update({k.strip("_"): v for k, v in fs.syms.items()})
            for dname, expr in sub.items():
                dsym = fs.syms.get("_" + dname) or fs.syms.get(dname)
                if dsym is None:
                    Epp = None
                    break
                Epp = Epp.subs(dsym, sp.sympify(expr, locals={k: v for k, v in loc.items()}))
            if Epp is None:
                ctx.und(rid, key, f"data attribute of the expectation table not found among {sorted(fs.syms)}", C)
                continue
            fisher = Epp
        else:
            cexpr, why = FISHER_CONST[cname]
            loc = {k.strip("_"): v for k, v in fs.syms.items()}
            fisher = sp.sympify(cexpr, locals=loc)
        Tp2 = sp.diff(T, X) ** 2
        diff = sp.simplify(Tp2 - fisher)
        if diff != 0:
            # second normaliser pass: exact evaluation at rational points (identity of analytic terms)
            free = sorted(diff.free_symbols, key=str)
            pts = [sp.Rational(1, 3), sp.Rational(2, 7), sp.Rational(3, 5), sp.Rational(5, 11)]
            vals = []
            for i in range(3):
                v = diff.subs({s_: pts[(i + j) % len(pts)] for j, s_ in enumerate(free)})
                vals.append(sp.simplify(v))
            zero = all(v == 0 for v in vals)
        else:
            zero = True
        ctx.check(rid, key, bool(zero),
                  f"E = {E}; T = {T}; (dT/dx)^2 = {sp.simplify(Tp2)}; Fisher = {sp.simplify(fisher)} [{why}]", C, gt.node)


_run_c11b = run


def run(ctx):  # noqa: F811
    _run_c11b(ctx)
    r11_3(ctx, ctx.model)
    r11_4(ctx, ctx.model)


def r11_5(ctx, m, rid="R11.5"):
    """the metric J^dagger J is Hermitian positive: scaling shortcut of SandwichOperator.make"""
    import copy
    from ..poly import cpoly, p_sym, p_add, p_mul, p_str
    SW = m.cls("nifty.cl.operators.sandwich_operator", "SandwichOperator")
    mk = SW.methods.get("make")
    ctx.rule(rid, "SandwichOperator.make (which builds every likelihood metric J^dagger J): for a scaling bun with factor f the "
                      "cheese is scaled by |f|^2 = re^2 + im^2 (a real, non-negative number), otherwise the operator is "
                      "bun.adjoint @ cheese @ bun", floor=2)
    if mk is None:
        ctx.error("SandwichOperator.make missing")
        return
    ctx.saw_func(mk)
    cfg = cfg_of(mk)
    rd = cfg.reaching_defs(mk.params())
    pp = [p_ for p_ in mk.params() if p_ not in ("cls", "self")]
    bn = pp[0]
    scale_sites = find_nodes(cfg, lambda q: isinstance(q, ast.Call) and isinstance(q.func, ast.Attribute) and q.func.attr == "scale" and len(q.args) == 1)
    key = f"{mk.key}::scaling bun: cheese scaled by |factor|^2"
    if len(scale_sites) != 1:
        ctx.und(rid, key, f"{len(scale_sites)} `.scale(...)` sites", mk)
    else:
        n, c = scale_sites[0]
        at = known_atoms(cfg, n.id)
        guarded = any(pol and src(t) == f"isinstance({bn}, ScalingOperator)" for t, pol in at)
        e = inline_at(cfg, rd, n.id, c.args[0], depth=2)

        class Sub(ast.NodeTransformer):
            def visit_Attribute(self, node):
                if src(node) == f"{bn}._factor":
                    return ast.Name(id="__f", ctx=ast.Load())
                return self.generic_visit(node)
        try:
            got = cpoly(Sub().visit(copy.deepcopy(e)), {"__f": (p_sym("re"), p_sym("im"))})
            want = (p_add(p_mul(p_sym("re"), p_sym("re")), p_mul(p_sym("im"), p_sym("im"))), {})
            ctx.check(rid, key, guarded and got == want,
                      f"factor = {src(e)} = ({p_str(got[0])}) + i({p_str(got[1])}) for f = re + i im; J^dagger J needs re^2 + im^2", mk, c)
        except KeyError as exc:
            ctx.und(rid, key, f"term not understood: {exc}", mk, c)
    # general branch
    ops = [nn for nn in cfg.nodes if nn.kind == "stmt" and isinstance(nn.ast, ast.Assign) and isinstance(nn.ast.value, ast.BinOp)
           and isinstance(nn.ast.value.op, ast.MatMult) and "adjoint" in src(nn.ast.value)]
    txt = [src(nn.ast.value).replace(" ", "") for nn in ops]
    cheese = pp[1]
    ctx.check(rid, f"{mk.key}::general bun: op = bun.adjoint @ cheese @ bun", txt == [f"{bn}.adjoint@{cheese}@{bn}"], str(txt), mk)


_run_c11c = run


def run(ctx):  # noqa: F811
    _run_c11c(ctx)
    r11_5(ctx, ctx.model)


# documented negative log-pdf per pixel, up to X-independent terms, in the CONSTRUCTOR's parameter names (class docstrings)
NLL = {
    "PoissonianEnergy": "X - d*log(X)",
    "InverseGammaEnergy": "(alpha + 1)*log(X) + beta/X",
    "StudentTEnergy": "(theta + 1)/2*log(1 + X**2/theta)",
    "BernoulliEnergy": "-d*log(X) - (1 - d)*log(1 - X)",
    "CategoricalEnergy": "-d*log(X)",
}


def _init_paths(stmts, conds=()):
    """paths through a constructor body: lists of (plain statements, branch facts); paths that raise are dropped"""
    paths = [([], list(conds))]
    for st in stmts:
        new = []
        for seq, cs in paths:
            if isinstance(st, ast.Raise):
                continue
            if isinstance(st, ast.If):
                for body, pol in ((st.body, True), (st.orelse, False)):
                    for s2, c2 in _init_paths(body, ()):  # sub-paths
                        new.append((seq + s2, cs + [(src(st.test), pol)] + c2))
                # a body that raises on every sub-path contributes nothing (dropped inside the recursion)
            else:
                new.append((seq + [st], cs))
        paths = new
    return paths


def r11_6(ctx, m):
    from .c03 import _load_sympy
    from ..fieldsym import FieldSym, NotUnderstood
    ctx.rule("R11.6", "negative log-pdf per energy with the constructor state resolved: along every non-raising path through "
                      "__init__ the attributes read by apply() are expressed in the constructor's parameters (Field(dom, "
                      "np.full(shape, v)) reads per pixel as v), and the energy term of apply() then differs from the documented "
                      "-log pdf only by a term independent of the parameter field (d/dX of the difference is 0; sympy as normaliser)", floor=5)
    sp = _load_sympy()
    if sp is None:
        ctx.und("R11.6", f"{EO}::sympy", "sympy not importable", EO)
        return

    class FS(FieldSym):
        def __init__(self, *a, **k):
            super().__init__(*a, **k)
            self.attrs = {}

        def ev(self, e, env):
            if isinstance(e, ast.Attribute) and isinstance(e.value, ast.Name) and e.value.id == "self" and e.attr in self.attrs:
                return self.attrs[e.attr]
            if isinstance(e, ast.Call) and call_name(e) == "Field" and len(e.args) == 2 and not e.keywords:
                return self.ev(e.args[1], env)
            return super().ev(e, env)

    for cname, spec in NLL.items():
        C = m.cls(EO, cname)
        ini, ap = C.methods.get("__init__"), C.methods.get("apply")
        if ini is None or ap is None:
            ctx.und("R11.6", f"{C.key}::-log pdf", "__init__/apply missing", C)
            continue
        ctx.saw_func(ini)
        ctx.saw_func(ap)
        params = [p for p in ini.params()[1:]]
        xn = ap.params()[1]
        seen = set()
        for seq, conds in _init_paths(ini.node.body):
            fs = FS(sp, facts={"self._cplx": False, f"{xn}.want_metric": False})
            env = {p: sp.Symbol(p, positive=True) for p in params}
            attrs, written = {}, set()
            for st in seq:
                if not (isinstance(st, ast.Assign) and len(st.targets) == 1):
                    continue
                t = st.targets[0]
                try:
                    v = fs.ev(st.value, env)
                except NotUnderstood:
                    v = None
                if isinstance(t, ast.Name):
                    if v is None:
                        env.pop(t.id, None)
                    else:
                        env[t.id] = v
                elif isinstance(t, ast.Attribute) and src(t.value) == "self":
                    written.add(t.attr)
                    if v is None:
                        attrs.pop(t.attr, None)
                    else:
                        attrs[t.attr] = v
            fs.attrs = attrs
            sig = tuple(sorted((k, str(v)) for k, v in attrs.items()))
            if sig in seen:
                continue
            seen.add(sig)
            rel = [("" if pol else "not ") + c for c, pol in conds if any(p in c for p in params) and "isinstance" not in c.split("(")[0] + "isinstance"[:0]]
            rel = [r for r in rel if "isscalar" in r or "isinstance" in r]
            key = f"{C.key}::apply() == -log pdf + const [{'; '.join(rel) or 'all paths'}]"
            try:
                E, _ = fs.run(ap.node.body, {xn: fs.X})
            except NotUnderstood as exc:
                ctx.und("R11.6", key, f"term not understood: {exc}", C)
                continue
            if E is None:
                ctx.und("R11.6", key, "no returned term", C)
                continue
            opaque = [s_ for s_ in E.free_symbols if str(s_) not in params and str(s_) != "X"]
            if opaque:
                ctx.und("R11.6", key, f"attributes {sorted(map(str, opaque))} are not expressed in the constructor's parameters on this path", C)
                continue
            loc = {p: env_p for p, env_p in ((p, sp.Symbol(p, positive=True)) for p in params)}
            loc["X"] = fs.X
            want = sp.sympify(spec, locals=loc)
            diff = sp.simplify(sp.diff(E - want, fs.X))
            if diff != 0:
                free = sorted(diff.free_symbols, key=str)
                pts = [sp.Rational(1, 3), sp.Rational(2, 7), sp.Rational(3, 5), sp.Rational(5, 11)]
                zero = all(sp.simplify(diff.subs({s_: pts[(i + j) % len(pts)] for j, s_ in enumerate(free)})) == 0 for i in range(3))
            else:
                zero = True
            ctx.check("R11.6", key, bool(zero), f"E = {E}; documented -log pdf = {want}", C, ap.node)


def r11_7(ctx, m):
    """integer event/count data never enters integer arithmetic"""
    ctx.rule("R11.7", "energies whose constructor demands integer data (np.issubdtype(d.dtype, np.integer)): wherever apply() uses "
                      "the stored data in +,-,* arithmetic the other operand is a float (float literal or float-valued term), so the "
                      "result leaves the data's integer dtype (d - 1 on unsigned data wraps to the maximum of the dtype)", floor=1)
    subs = [c for c in m.module(EO).classes.values() if "apply" in c.methods and "__init__" in c.methods]
    for C in subs:
        ini = C.methods["__init__"]
        ints = set()
        for x in ast.walk(ini.node):
            if isinstance(x, ast.Call) and src(x.func) in ("np.issubdtype", "numpy.issubdtype") and len(x.args) == 2 and "integer" in src(x.args[1]):
                a = x.args[0]
                if isinstance(a, ast.Attribute) and a.attr == "dtype" and isinstance(a.value, ast.Name):
                    ints.add(a.value.id)
        if not ints:
            continue
        attrs = {src(st.targets[0]) for st in ast.walk(ini.node) if isinstance(st, ast.Assign) and len(st.targets) == 1
                 and isinstance(st.targets[0], ast.Attribute) and isinstance(st.value, ast.Name) and st.value.id in ints}
        ap = C.methods["apply"]
        ctx.saw_func(ap)
        for b in ast.walk(ap.node):
            if not (isinstance(b, ast.BinOp) and isinstance(b.op, (ast.Add, ast.Sub, ast.Mult))):
                continue
            for d_, o in ((b.left, b.right), (b.right, b.left)):
                if src(d_) not in attrs:
                    continue
                key = f"{ap.key}::`{src(b)}` leaves the integer dtype of {src(d_)}"
                if isinstance(o, ast.Constant) and isinstance(o.value, float):
                    ctx.ok("R11.7", key, "float literal", ap, b)
                elif isinstance(o, ast.Constant) and isinstance(o.value, int) and not isinstance(o.value, bool):
                    ctx.bad("R11.7", key, f"integer literal {o.value}: the arithmetic stays in the data's dtype and wraps for unsigned data", ap, b)
                elif isinstance(o, ast.UnaryOp) and isinstance(o.operand, ast.Constant) and isinstance(o.operand.value, int):
                    ctx.bad("R11.7", key, "integer literal: the arithmetic stays in the data's dtype and wraps for unsigned data", ap, b)
                else:
                    ctx.und("R11.7", key, f"dtype of `{src(o)}` not known", ap, b)


_run_c11d = run


def run(ctx):  # noqa: F811
    _run_c11d(ctx)
    r11_6(ctx, ctx.model)
    r11_7(ctx, ctx.model)


def r11_8(ctx, m):
    from .c03 import r03_6
    # the metric of an energy survives the addition of constants (shared with C03)
    try:
        r03_6(ctx, rid="R11.8")
    except TypeError:
        pass
    ctx.rule("R11.9", "VariableCovarianceGaussianEnergy: the full Fisher metric is assembled as a mapping from KEY to block - residual key "
                      "-> inverse covariance, inverse-covariance key -> fct / icov^2 - so that it does not depend on how the two key "
                      "names sort; a positional MultiField(domain, (a, b)) silently assumes one order", floor=1)
    V = m.cls(EO, "VariableCovarianceGaussianEnergy")
    ap = V.methods["apply"]
    ctx.saw_func(ap)
    key = f"{ap.key}::metric blocks are labelled by their keys"
    pos_mf = [c for c in walk_no_nested(ap.node) if isinstance(c, ast.Call) and src(c.func) == "MultiField" and len(c.args) >= 2 and isinstance(c.args[1], (ast.Tuple, ast.List))
              and len(c.args[1].elts) > 1]
    dicts = [d for d in walk_no_nested(ap.node) if isinstance(d, ast.Dict) and {src(k) for k in d.keys if k is not None} == {"self._kr", "self._ki"}]
    if pos_mf:
        ctx.bad("R11.9", key, f"`{short(pos_mf[0], 70)}`: blocks are assigned by position (sorted key order), not by key: for a residual key that sorts before the "
                              "inverse-covariance key the two blocks are swapped", ap, pos_mf[0])
    elif len(dicts) == 1:
        d = dicts[0]
        mp = {src(k): src(v).replace(" ", "") for k, v in zip(d.keys, d.values)}
        locs = {src(st.targets[0].elts[j]): src(st.value.elts[j]) for st in walk_no_nested(ap.node) if isinstance(st, ast.Assign) and isinstance(st.targets[0], ast.Tuple)
                and isinstance(st.value, ast.Tuple) and len(st.targets[0].elts) == len(st.value.elts) for j in range(len(st.value.elts))}
        ivar = [n_ for n_, v_ in locs.items() if "self._ki" in v_]
        okm = len(ivar) == 1 and mp["self._kr"] == f"{ivar[0]}.val" and mp["self._ki"].replace("(", "").replace(")", "") in (f"fct*{ivar[0]}.val**-2", f"fct/{ivar[0]}.val**2")
        ctx.check("R11.9", key, True if okm else None, str(mp), ap, d)
    else:
        ctx.und("R11.9", key, "metric assembly not recognised", ap)
    ctx.rule("R11.10", "SandwichOperator.get_sqrt (the transformation of every Gaussian energy with a sandwich covariance): the square root "
                       "is cheese.get_sqrt() @ bun; the bun alone is returned only when there is no cheese at all (`self._cheese is None`) - "
                       "never for a cheese that merely is a ScalingOperator, whose factor would be dropped", floor=2)
    S = m.cls("nifty.cl.operators.sandwich_operator", "SandwichOperator")
    gs = S.methods.get("get_sqrt")
    if gs is None:
        ctx.und("R11.10", f"{S.key}::get_sqrt", "missing", S)
        return
    ctx.saw_func(gs)
    cfg = cfg_of(gs)
    for n in cfg.nodes:
        if n.kind != "stmt" or not isinstance(n.ast, ast.Return) or n.ast.value is None:
            continue
        t = src(n.ast.value).replace(" ", "")
        atoms = known_atoms(cfg, n.id)
        key = f"{gs.key}::`{short(n.ast, 50)}`"
        if t == "self._bun":
            none_guard = any(src(a).replace(" ", "") == "self._cheeseisNone" and pol for a, pol in atoms)
            other = [src(a) for a, pol in atoms if pol and "cheese" in src(a) and src(a).replace(" ", "") != "self._cheeseisNone"]
            ctx.check("R11.10", key, none_guard and not other, f"returned under {[('' if p else 'not ') + src(a) for a, p in atoms]}: the cheese's factor is dropped" if not none_guard or other else None, gs, n.ast)
        elif t in ("self._cheese.get_sqrt()@self._bun", "self._cheese.get_sqrt()(self._bun)"):
            ctx.ok("R11.10", key, None, gs, n.ast)
        else:
            ctx.und("R11.10", key, "return form not recognised", gs, n.ast)


_run_c11e = run


def run(ctx):  # noqa: F811
    _run_c11e(ctx)
    r11_8(ctx, ctx.model)
