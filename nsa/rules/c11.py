"""C11 - classic likelihood energies: a requested metric is attached on every path; transformation/residual contract."""
import ast

from ..model import src, short, walk_no_nested, call_name, is_self_attr
from ..terms import inline_at
from ..util import cfg_of, find_nodes, known_atoms

EO = "nifty.cl.operators.energy_operators"
JO = "nifty.cl.operators.jax_operator"
OPM = "nifty.cl.operators.operator"


def _metric_free_ok(atoms, xn, resolve=None):
    """The return is only reached when no metric was requested (or the input is not a linearization)."""
    for t, pol in atoms:
        if resolve is not None and isinstance(t, ast.Name):
            t = resolve(t)
        s = src(t)
        if s == f"{xn}.want_metric" and pol is False:
            return True
        if s in ("lin", f"is_linearization({xn})", f"{xn}.jac is not None") and pol is False:
            return True
        if s in (f"{xn}.jac is None",) and pol is True:
            return True
    return False


def run(ctx):
    m = ctx.model
    L = m.cls(EO, "LikelihoodEnergyOperator")
    ctx.saw_class(L)
    ctx.rule("R11.1", "metric attachment: in apply of every concrete LikelihoodEnergyOperator that computes its value locally, every "
                      "return reachable with x.want_metric true has passed through add_metric(...); the input check dominates; "
                      "StandardHamiltonian attaches SamplingEnabler(lh metric, prior metric, controller) exactly when a metric is "
                      "wanted and a sampling controller is set; operator sums attach a metric iff all summands delivered one", floor=12)
    subs = [c for c in m.subclasses(L) if not c.local]
    n_cls = 0
    for c in subs:
        ap = c.methods.get("apply")
        if ap is None:
            continue
        ctx.saw_class(c)
        ctx.saw_func(ap)
        xn = ap.params()[1]
        cfg = cfg_of(ap)
        rets = [n for n in cfg.nodes if n.kind == "stmt" and isinstance(n.ast, ast.Return)]
        # pure delegations
        if len(rets) == 1 and isinstance(rets[0].ast.value, ast.Call) and (
                src(rets[0].ast.value.func) in ("self._op", "_OpSum._apply_operator_sum", "self._op.apply")):
            ctx.ok("R11.1", f"{ap.key}::delegates to the wrapped operator (which attaches the metric)", None, ap)
            continue
        n_cls += 1
        # input check dominates
        chk = [n for n, cc in find_nodes(cfg, lambda q: isinstance(q, ast.Call) and src(q.func) == "self._check_input")]
        dom = cfg.dominators()
        ctx.check("R11.1", f"{ap.key}::_check_input dominates every return", bool(chk) and all(chk[0].id in dom[r.id] for r in rets if r.id in dom), None, ap)
        rd = cfg.reaching_defs(ap.params())
        for r in rets:
            v = r.ast.value
            at = known_atoms(cfg, r.id)
            key = f"{ap.key}::`{r.text()[:70]}`"
            if isinstance(v, ast.Call) and call_name(v) == "add_metric" and v.args:
                arg = v.args[0]
                none = isinstance(arg, ast.Constant) and arg.value is None
                ctx.check("R11.1", key, not none, "add_metric(None)", ap, r.ast)
            elif _metric_free_ok(at, xn, lambda nm, _r=r: inline_at(cfg, rd, _r.id, nm, depth=1)):
                ctx.ok("R11.1", key, "only reached when no metric is requested", ap, r.ast)
            else:
                # value may be a local that already carries the metric
                e = inline_at(cfg, rd, r.id, v, depth=2)
                if isinstance(e, ast.Call) and call_name(e) == "add_metric":
                    ctx.ok("R11.1", key, "returns a local produced by add_metric", ap, r.ast)
                else:
                    ctx.bad("R11.1", key, "a linearization with want_metric=True can leave through this return without a metric "
                                          f"(guards: {[('' if p else 'not ') + src(t) for t, p in at]})", ap, r.ast)
    ctx.extra["likelihood_classes_with_local_apply"] = n_cls
    # JaxLikelihoodEnergyOperator
    J = m.cls(JO, "JaxLikelihoodEnergyOperator", required=False)
    # (covered by the loop above if it derives from LikelihoodEnergyOperator)
    # StandardHamiltonian
    H = m.cls(EO, "StandardHamiltonian")
    ap = H.methods["apply"]
    ctx.saw_func(ap)
    xn = ap.params()[1]
    cfg = cfg_of(ap)
    rd = cfg.reaching_defs(ap.params())
    rets = [n for n in cfg.nodes if n.kind == "stmt" and isinstance(n.ast, ast.Return)]
    plain = [r for r in rets if not (isinstance(r.ast.value, ast.Call) and call_name(r.ast.value) == "add_metric")]
    withm = [r for r in rets if r not in plain]
    key = f"{ap.key}::metric-free result only if no metric is wanted or no sampling controller is set"
    okp = len(plain) == 1 and any(src(t) in (f"not {xn}.want_metric or self._ic_samp is None", f"self._ic_samp is None or not {xn}.want_metric") and pol
                                  for t, pol in [(n.ast, True) for n in cfg.nodes if n.kind == "test"]) and \
        any(src(g) in (f"not {xn}.want_metric or self._ic_samp is None", f"self._ic_samp is None or not {xn}.want_metric") and pol
            for g, pol in __import__("nsa.util", fromlist=["guards"]).guards(cfg, plain[0].id)) if plain else False
    ctx.check("R11.1", key, okp, f"{[r.text()[:60] for r in plain]}", ap)
    key = f"{ap.key}::attached metric is SamplingEnabler(likelihood metric, prior metric, controller)"
    if len(withm) != 1:
        ctx.und("R11.1", key, f"{len(withm)} returns with add_metric", ap)
    else:
        e = inline_at(cfg, rd, withm[0].id, withm[0].ast.value.args[0], depth=3)
        s = src(e)
        ctx.check("R11.1", key, s == f"SamplingEnabler(self._lh({xn}).metric, self._prior({xn}).metric, self._ic_samp)", s, ap, withm[0].ast)
        base = inline_at(cfg, rd, withm[0].id, withm[0].ast.value.func.value, depth=3)
        ctx.check("R11.1", f"{ap.key}::value is likelihood + prior", src(base).replace(" ", "") in (f"self._lh({xn})+self._prior({xn})", f"self._prior({xn})+self._lh({xn})"), src(base), ap)
    # operator sums
    aos = m.func(OPM, "_OpSum._apply_operator_sum")
    ctx.saw_func(aos)
    body = src(aos.node)
    xn = aos.params()[0]
    ctx.check("R11.1", f"{aos.key}::summands are linearized with the incoming want_metric",
              f"Linearization.make_var({xn}.val.extract(oo.domain), {xn}.want_metric)" in body, None, aos)
    cfg = cfg_of(aos)
    adds = [(n, c) for n, c in find_nodes(cfg, lambda q: isinstance(q, ast.Call) and call_name(q) == "add_metric")]
    okk = False
    if len(adds) == 1:
        at = known_atoms(cfg, adds[0][0].id)
        okk = any(src(t) == "all((mm is not None for mm in metrics))" and pol for t, pol in at) and "reduce(add, metrics)" in src(adds[0][1])
    ctx.check("R11.1", f"{aos.key}::metric attached iff every summand delivered one (sum of the metrics)", okk, None, aos)

    # ------------------------------------------------------------------ R11.2
    ctx.rule("R11.2", "every concrete LikelihoodEnergyOperator hands a residual operator and a sqrt-metric callable to the base "
                      "constructor (a transformation is optional: constant likelihoods have none)", floor=8)
    for c in subs:
        if c.name.startswith("_Likelihood") and c.name in ("_LikelihoodChain", "_LikelihoodSum"):
            pass
        init = c.methods.get("__init__")
        if init is None:
            continue
        sc = [cc for cc in walk_no_nested(init.node) if isinstance(cc, ast.Call) and isinstance(cc.func, ast.Attribute) and cc.func.attr == "__init__"
              and "super" in src(cc.func.value)]
        ctx.check("R11.2", f"{c.key}::base constructor receives (residual, sqrt-metric callable)",
                  len(sc) == 1 and len(sc[0].args) + len(sc[0].keywords) == 2, f"{[short(x) for x in sc]}", init)
