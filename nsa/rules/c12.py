"""C12 - JAX likelihood composition wrappers: delegation agreement, freeze table, method-set exhaustiveness,
base-class factorisation defaults."""
import ast

from ..model import src, short, walk_no_nested, call_name
from ..terms import inline_at
from ..util import cfg_of

LH = "nifty.re.likelihood"
IMPL = "nifty.re.likelihood_impl"
METHODS = ["energy", "normalized_residual", "metric", "left_sqrt_metric", "right_sqrt_metric", "transformation"]
# P = parameter space, D = data space
SIG = {
    "energy": (["Ppos"], None), "transformation": (["Ppos"], None), "normalized_residual": (["Ppos"], None),
    "left_sqrt_metric": (["Ppos", "D"], "P"), "right_sqrt_metric": (["Ppos", "Ptan"], "D"), "metric": (["Ppos", "Ptan"], "P"),
}


def _is_forward_fn(e):
    """self.forward  |  Partial(self.forward, **kw)"""
    if src(e) == "self.forward":
        return True
    return isinstance(e, ast.Call) and call_name(e) == "Partial" and e.args and src(e.args[0]) == "self.forward"


def _lin(e, primals, which):
    """e is jax.linearize(F, primals)[which] / jax.vjp(F, primals)[which]"""
    if isinstance(e, ast.Subscript) and isinstance(e.slice, ast.Constant) and isinstance(e.value, ast.Call):
        c = e.value
        kind = src(c.func)
        if kind in ("jax.linearize", "linearize", "jax.vjp", "vjp") and len(c.args) == 2 and _is_forward_fn(c.args[0]) \
                and src(c.args[1]) == primals and e.slice.value == which:
            return kind.split(".")[-1]
    return None


def _is_model_value(e, primals):
    if _lin(e, primals, 0):
        return True
    return isinstance(e, ast.Call) and src(e.func) == "self.forward" and e.args and src(e.args[0]) == primals


def _is_fwd_of(e, primals, tangents):
    return isinstance(e, ast.Call) and _lin(e.func, primals, 1) == "linearize" and len(e.args) == 1 and src(e.args[0]) == tangents


def _bwd_kind(f, primals):
    """f is the pull-back: _functional_conj(vjp(...)[1]) or _functional_conj(linear_transpose(linearize(...)[1], primals)).
    returns 'conj' / 'noconj' / None"""
    conj = False
    if isinstance(f, ast.Call) and call_name(f) == "_functional_conj" and len(f.args) == 1:
        conj = True
        f = f.args[0]
    okb = _lin(f, primals, 1) == "vjp" or (
        isinstance(f, ast.Call) and src(f.func) in ("jax.linear_transpose", "linear_transpose") and len(f.args) == 2
        and _lin(f.args[0], primals, 1) == "linearize")
    if not okb:
        return None
    return "conj" if conj else "noconj"


def _with_model_shape(e, name, primals, tangents):
    """(verdict, explanation) for the fully inlined return expression of LikelihoodWithModel.<name>."""
    s = src(e)
    calls = [c for c in ast.walk(e) if isinstance(c, ast.Call) and (src(c.func).startswith("self.likelihood"))]
    if len(calls) != 1:
        return None, f"expected exactly one call into the wrapped likelihood: {s}"
    c = calls[0]
    callee = src(c.func)
    want = ("self.likelihood", "self.likelihood.energy") if name == "energy" else (f"self.likelihood.{name}",)
    if callee not in want:
        return False, f"{name} delegates to `{callee}` instead of {want[-1]}"
    if not c.args or not _is_model_value(c.args[0], primals):
        return (False if c.args and src(c.args[0]) == primals else None), \
            f"wrapped {name} must be evaluated at forward(primals), got `{src(c.args[0]) if c.args else None}`"
    if name in ("energy", "normalized_residual", "transformation"):
        return (True, None) if e is c else (None, f"result is post-processed: {s}")
    a1 = c.args[1] if len(c.args) > 1 else None
    if a1 is None:
        return False, "tangents are not passed on"
    if name in ("metric", "right_sqrt_metric"):
        if not _is_fwd_of(a1, primals, tangents):
            return (False if src(a1) == tangents else None), \
                f"tangents must be pushed forward with the model's jvp before entering the wrapped {name}, got `{src(a1)}`"
    else:
        if src(a1) != tangents:
            return (False if _is_fwd_of(a1, primals, tangents) else None), \
                f"left_sqrt_metric takes data-space tangents unchanged, got `{src(a1)}`"
    if name == "right_sqrt_metric":
        return (True, None) if e is c else ((False, "right_sqrt_metric must not pull back") if _outer_bwd(e, c, primals) else (None, s))
    # metric / left: bwd(...)[0]
    ob = _outer_bwd(e, c, primals)
    if ob is None:
        return (False if e is c else None), f"result must be pulled back with the (conjugated) vjp of the model: {s}"
    if ob == "noconj":
        return False, "the pull-back is not conjugated (_functional_conj missing): wrong for complex-valued models"
    return True, None


def _outer_bwd(e, c, primals):
    if isinstance(e, ast.Subscript) and isinstance(e.slice, ast.Constant) and e.slice.value == 0 and isinstance(e.value, ast.Call) \
            and len(e.value.args) == 1 and e.value.args[0] is c:
        return _bwd_kind(e.value.func, primals)
    return None


def _ret(fi):
    rs = [r for r in walk_no_nested(fi.node) if isinstance(r, ast.Return)]
    return rs[0].value if len(rs) == 1 else None


def run(ctx):
    m = ctx.model
    base = m.cls(LH, "Likelihood")
    part = m.cls(LH, "LikelihoodPartial")
    wm = m.cls(LH, "LikelihoodWithModel")
    sm = m.cls(LH, "LikelihoodSum")
    for c in (base, part, wm, sm):
        ctx.saw_class(c)

    # ------------------------------------------------------------------ R12.0 base defaults
    ctx.rule("R12.0", "base-class factorisation defaults: metric = L applied after R, R = conjugate transpose of L, "
                      "L = conjugated vjp of the transformation at the same primals", floor=3)
    f = base.methods["metric"]
    ctx.saw_func(f)
    cfg = cfg_of(f)
    rd = cfg.reaching_defs(f.params())
    rnode = [n for n in cfg.nodes if n.kind == "stmt" and isinstance(n.ast, ast.Return)][0]
    e = inline_at(cfg, rd, rnode.id, rnode.ast.value)
    p, t = f.params()[1:3]
    okk = isinstance(e, ast.Call) and isinstance(e.func, ast.Call) and call_name(e.func) == "Partial" \
        and src(e.func.args[0]) == "self.left_sqrt_metric" and src(e.func.args[1]) == p \
        and len(e.args) == 1 and isinstance(e.args[0], ast.Call) and src(e.args[0].func) == "self.right_sqrt_metric" \
        and [src(a) for a in e.args[0].args] == [p, t]
    ctx.check("R12.0", f"{f.key}::metric(p, t) = L_p(R_p(t))", okk, src(e), f)
    f = base.methods["right_sqrt_metric"]
    ctx.saw_func(f)
    cfg = cfg_of(f)
    rd = cfg.reaching_defs(f.params())
    rnode = [n for n in cfg.nodes if n.kind == "stmt" and isinstance(n.ast, ast.Return)][0]
    e = inline_at(cfg, rd, rnode.id, rnode.ast.value)
    s = src(e)
    p, t = f.params()[1:3]
    okk = s.startswith("_functional_conj(jax.linear_transpose(Partial(self.left_sqrt_metric, " + p) and s.endswith(f")({t})[0]")
    ctx.check("R12.0", f"{f.key}::R_p = conj(transpose(L_p))", okk, s, f)
    f = base.methods["left_sqrt_metric"]
    ctx.saw_func(f)
    p, t = f.params()[1:3]
    cfg = cfg_of(f)
    rd = cfg.reaching_defs(f.params())
    rnode = [n for n in cfg.nodes if n.kind == "stmt" and isinstance(n.ast, ast.Return)][0]
    e = src(inline_at(cfg, rd, rnode.id, rnode.ast.value, depth=8, unpack_calls=True))
    want = f"_functional_conj(jax.vjp(Partial(self.transformation, **primals_kw), {p})[1])({t})[0]"
    ctx.check("R12.0", f"{f.key}::L_p = conj(vjp(transformation, p))", e == want, e, f)

    # ------------------------------------------------------------------ R12.3 freeze table
    ctx.rule("R12.3", "LikelihoodPartial freeze table: per method one insert slot per positional argument; position slots are "
                      "filled with the frozen primals, tangent slots with zeros_like(frozen), data-space slots with None; the "
                      "frozen axes are removed from the result exactly for the methods whose result lives in parameter space", floor=6)
    for name in METHODS:
        fi = part.methods.get(name)
        key = f"{part.key}::{name}"
        if fi is None:
            ctx.bad("R12.3", key, "method not wrapped: the inherited default would ignore the frozen primals", part)
            continue
        ctx.saw_func(fi)
        v = _ret(fi)
        if not (isinstance(v, ast.Call) and call_name(v) == "partial_insert_and_remove" and v.args):
            ctx.und("R12.3", key, "not a partial_insert_and_remove(...) wrapper", fi)
            continue
        kw = {k.arg: k.value for k in v.keywords}
        callee = src(v.args[0])
        args, res = SIG[name]
        ia = kw.get("insert_axes")
        ff = kw.get("flat_fill")
        rm = kw.get("remove_axes")
        problems = []
        if callee != f"self.likelihood.{name}":
            problems.append(f"wraps `{callee}` instead of self.likelihood.{name}")
        if not (isinstance(ia, ast.Tuple) and isinstance(ff, ast.Tuple) and len(ia.elts) == len(ff.elts) == len(args)):
            problems.append(f"needs {len(args)} insert/fill slots, has insert_axes={src(ia)} flat_fill={src(ff)}")
        else:
            for i, typ in enumerate(args):
                a, b = src(ia.elts[i]), src(ff.elts[i])
                if typ == "Ppos" and (a, b) != ("self.insert_axes", "self.primals_frozen"):
                    problems.append(f"slot {i} (position) must insert the frozen primals, has ({a}, {b})")
                if typ == "Ptan" and (a, b) != ("self.insert_axes", "zeros_like(self.primals_frozen)"):
                    problems.append(f"slot {i} (tangent) must insert zeros_like(frozen) (a frozen parameter has no tangent), has ({a}, {b})")
                if typ == "D" and (a, b) != ("None", "None"):
                    problems.append(f"slot {i} (data space) must stay untouched, has ({a}, {b})")
        rms = src(rm) if rm is not None else "None"
        if res == "P" and rms != "self.insert_axes":
            problems.append(f"result lives in parameter space: frozen axes must be removed (remove_axes={rms})")
        if res != "P" and rms not in ("None", "()"):
            problems.append(f"result does not live in parameter space but remove_axes={rms}")
        if res == "P" and src(kw.get("unflatten")) != "self.unflatten":
            problems.append("removed result is not re-wrapped with self.unflatten")
        ctx.check("R12.3", key, not problems, "; ".join(problems) or None, fi)

    # ------------------------------------------------------------------ R12.1 delegation agreement
    ctx.rule("R12.1", "LikelihoodWithModel / LikelihoodSum: every method delegates to the same-named method of the wrapped "
                      "likelihood(s); metric = bwd(metric(y, fwd(t))), left = bwd(left(y, t)), right = right(y, fwd(t)); sums "
                      "add energy/metric/left and collect right/transformation/residual key-wise", floor=12)
    for name in METHODS:
        fi = wm.methods.get(name)
        key = f"{wm.key}::{name}"
        if fi is None:
            ctx.bad("R12.1", key, "not overridden: the inherited default ignores the forward model", wm)
            continue
        ctx.saw_func(fi)
        cfg = cfg_of(fi)
        rd = cfg.reaching_defs(fi.params())
        rnode = [n for n in cfg.nodes if n.kind == "stmt" and isinstance(n.ast, ast.Return)]
        if len(rnode) != 1:
            ctx.und("R12.1", key, "multiple returns", fi)
            continue
        e = inline_at(cfg, rd, rnode[0].id, rnode[0].ast.value, depth=8, unpack_calls=True)
        pr, tn = (fi.params() + [None, None, None])[1:3]
        verdict, why = _with_model_shape(e, name, pr, tn)
        ctx.check("R12.1", key, verdict, why, fi, rnode[0].ast)
    for name in METHODS:
        fi = sm.methods.get(name)
        key = f"{sm.key}::{name}"
        if fi is None:
            ctx.bad("R12.1", key, "not overridden", sm)
            continue
        ctx.saw_func(fi)
        calls = [c for c in ast.walk(fi.node) if isinstance(c, ast.Call) and isinstance(c.func, ast.Attribute)
                 and isinstance(c.func.value, ast.Name) and c.func.value.id == "lh" and c.func.attr in METHODS]
        problems = []
        if len(calls) != 1 or calls[0].func.attr != name:
            problems.append(f"summands are asked for {[c.func.attr for c in calls]} instead of {name}")
        body = src(fi.node)
        if "self._items()" not in body:
            problems.append("does not iterate over all summands (self._items())")
        additive = name in ("energy", "metric", "left_sqrt_metric")
        if additive and "reduce(operator.add" not in body.replace("\n", "").replace(" ", "").replace("reduce(operator.add", "reduce(operator.add"):
            if "operator.add" not in body:
                problems.append("results of the summands must be added")
        if not additive and not any(isinstance(n, ast.DictComp) and src(n.key) == "key" for n in ast.walk(fi.node)):
            problems.append("results of the summands must be collected key-wise")
        if calls:
            a = [src(x) for x in calls[0].args]
            if name == "left_sqrt_metric" and a[:2] != ["primals", "tangents[key]"]:
                problems.append(f"each summand gets its own data-space tangent tangents[key], got {a}")
            if name in ("metric", "right_sqrt_metric") and a[:2] != ["primals", "tangents"]:
                problems.append(f"arguments {a}")
            if name in ("energy", "transformation", "normalized_residual") and a[:1] != ["primals"]:
                problems.append(f"arguments {a}")
        ctx.check("R12.1", key, not problems, "; ".join(problems) or None, fi)

    # ------------------------------------------------------------------ R12.2 method-set exhaustiveness
    ctx.rule("R12.2", "every concrete Likelihood in likelihood_impl.py defines energy and one of {transformation}, "
                      "{left_sqrt_metric} so that no base-class default is entered with a missing piece", floor=6)
    impl = m.module(IMPL)
    for c in impl.classes.values():
        if base not in m.mro(c) or c is base:
            continue
        ctx.saw_class(c)
        own = set()
        for k in m.mro(c):
            if k is base:
                break
            own |= set(k.methods)
        ctx.check("R12.2", f"{c.key}::defines energy + (transformation | left_sqrt_metric)",
                  "energy" in own and ("transformation" in own or "left_sqrt_metric" in own),
                  f"defines {sorted(own & set(METHODS))}", c)
        if "metric" in own and "left_sqrt_metric" not in own and "transformation" not in own:
            ctx.bad("R12.2", f"{c.key}::metric without a square root", "metric is defined but neither left_sqrt_metric nor transformation", c)


# --------------------------------------------------------------------------- R12.4
def r12_4(ctx, m, base, impl):
    """diagonal likelihoods: metric coefficient == (left-sqrt coefficient)^2, component by component"""
    ctx.rule("R12.4", "diagonal likelihoods: for every implementation whose left_sqrt_metric and metric act component-wise on the "
                      "tangents, the metric coefficient equals the squared left-sqrt coefficient (the noise operators cov_inv / "
                      "std_inv are treated as S^2 / S), for real and complex data", floor=4)
    from .c03 import _load_sympy
    sp = _load_sympy()
    if sp is None:
        ctx.notes.append("sympy not importable: R12.4 undecided")
        return
    from ..terms import subst

    def terms_of(fi):
        """(list of component expressions with locals inlined, tangent param name) or None"""
        ps = fi.params()
        if len(ps) < 3:
            return None
        env = {}
        for st in fi.node.body:
            if isinstance(st, ast.Assign) and len(st.targets) == 1 and isinstance(st.targets[0], ast.Name):
                env[st.targets[0].id] = subst(st.value, env)
            elif isinstance(st, ast.Return):
                v = subst(st.value, env)
                if isinstance(v, ast.Call) and src(v.func) == "type(primals)" and len(v.args) == 1:
                    v = v.args[0]
                comps = list(v.elts) if isinstance(v, ast.Tuple) else [v]
                return comps, ps[1], ps[2]
            elif isinstance(st, ast.Expr):
                continue
            else:
                return None
        return None

    def tosym(e, syms, cval):
        if isinstance(e, ast.Constant) and isinstance(e.value, (int, float)):
            return sp.nsimplify(e.value)
        s = src(e)
        if s == "self.iscomplex":
            return sp.Integer(cval)
        if s == "self.dof":
            return syms["dof"]
        if isinstance(e, ast.Subscript) and isinstance(e.value, ast.Name) and isinstance(e.slice, ast.Constant):
            return syms.setdefault(f"{e.value.id}[{e.slice.value}]", sp.Symbol(f"{e.value.id}_{e.slice.value}", positive=True))
        if isinstance(e, ast.Name):
            return syms.setdefault(e.id, sp.Symbol(e.id, positive=True))
        if isinstance(e, ast.BinOp):
            a, b = tosym(e.left, syms, cval), tosym(e.right, syms, cval)
            ops = {ast.Add: lambda: a + b, ast.Sub: lambda: a - b, ast.Mult: lambda: a * b, ast.Div: lambda: a / b, ast.Pow: lambda: a ** b}
            if type(e.op) in ops:
                return ops[type(e.op)]()
        if isinstance(e, ast.UnaryOp) and isinstance(e.op, ast.USub):
            return -tosym(e.operand, syms, cval)
        if isinstance(e, ast.Call):
            f = src(e.func)
            if f in ("jnp.sqrt", "np.sqrt") and len(e.args) == 1:
                return sp.sqrt(tosym(e.args[0], syms, cval))
            if f == "self.noise_std_inv" and len(e.args) == 1:
                return syms["S"] * tosym(e.args[0], syms, cval)
            if f == "self.noise_cov_inv" and len(e.args) == 1:
                return syms["S"] ** 2 * tosym(e.args[0], syms, cval)
        raise ValueError(s)

    for c in impl.classes.values():
        if base not in m.mro(c) or c is base:
            continue
        lf, mf = c.methods.get("left_sqrt_metric"), c.methods.get("metric")
        if lf is None or mf is None:
            continue
        key = f"{c.key}::metric coefficient == (left_sqrt_metric coefficient)^2"
        tl, tm = terms_of(lf), terms_of(mf)
        if tl is None or tm is None or len(tl[0]) != len(tm[0]):
            ctx.und("R12.4", key, "not a component-wise closed form", c)
            continue
        verdict, why = True, []
        try:
            for cval in (0, 1):
                syms = {"dof": sp.Symbol("dof", positive=True), "S": sp.Symbol("S", positive=True)}
                for k, (el, em) in enumerate(zip(tl[0], tm[0])):
                    def tang(tparam, ncomp):
                        name = f"{tparam}[{k}]" if ncomp > 1 else tparam
                        return name
                    L = tosym(el, syms, cval)
                    M = tosym(em, syms, cval)
                    tL = syms.get(tang(tl[2], len(tl[0])))
                    tM = syms.get(tang(tm[2], len(tm[0])))
                    if tL is None or tM is None:
                        raise ValueError("tangent component not found")
                    a = sp.simplify(sp.diff(L, tL))
                    b = sp.simplify(sp.diff(M, tM))
                    if sp.simplify(L - a * tL) != 0 or sp.simplify(M - b * tM) != 0:
                        raise ValueError("not linear/diagonal in the tangent")
                    if sp.simplify(b - a ** 2) != 0:
                        verdict = False
                        why.append(f"component {k}, {'complex' if cval else 'real'} data: metric coefficient {b} but left-sqrt coefficient "
                                   f"{a} (square {sp.simplify(a ** 2)})")
        except ValueError as ex:
            ctx.und("R12.4", key, f"term not translated: {ex}", c)
            continue
        ctx.check("R12.4", key, verdict, "; ".join(why) or None, c)


_run_c12 = run


def run(ctx):  # noqa: F811
    _run_c12(ctx)
    m = ctx.model
    r12_4(ctx, m, m.cls(LH, "Likelihood"), m.module(IMPL))


# --------------------------------------------------------------------------- R12.5
class _JaxScalar:
    """per-entry reading of the scalar likelihood formulas of nifty.re.likelihood_impl (real-valued case)"""

    def __init__(self, sp, mod):
        self.sp = sp
        self.mod = mod
        self.Ni = sp.Symbol("Ni", positive=True)

    class NU(Exception):
        pass

    def ev(self, e, env):
        sp = self.sp
        if isinstance(e, ast.Constant):
            if isinstance(e.value, (int, float)) and not isinstance(e.value, bool):
                return sp.nsimplify(e.value)
            if e.value is None:
                return None
            raise self.NU(src(e))
        if isinstance(e, ast.Name):
            if e.id in env:
                return env[e.id]
            raise self.NU(f"name {e.id}")
        if isinstance(e, ast.Attribute):
            t = src(e)
            if t in env:
                return env[t]
            if e.attr == "real":
                return self.ev(e.value, env)
            raise self.NU(t)
        if isinstance(e, ast.UnaryOp) and isinstance(e.op, ast.USub):
            return -self.ev(e.operand, env)
        if isinstance(e, ast.BinOp):
            a, b = self.ev(e.left, env), self.ev(e.right, env)
            ops = {ast.Add: lambda: a + b, ast.Sub: lambda: a - b, ast.Mult: lambda: a * b, ast.Div: lambda: a / b, ast.Pow: lambda: a ** b}
            if type(e.op) in ops:
                return ops[type(e.op)]()
            raise self.NU(src(e))
        if isinstance(e, ast.Call):
            nm = call_name(e)
            f = src(e.func)
            if f == "self.noise_cov_inv" and len(e.args) == 1:
                return self.Ni * self.ev(e.args[0], env)
            if f == "self.noise_std_inv" and len(e.args) == 1:
                return sp.sqrt(self.Ni) * self.ev(e.args[0], env)
            if nm == "vdot" and len(e.args) == 2:
                return self.ev(e.args[0], env) * self.ev(e.args[1], env)
            if nm == "sum" and len(e.args) == 1:
                return self.ev(e.args[0], env)
            if nm == "tree_map" and len(e.args) == 2:
                g = {"log": sp.log, "log1p": lambda z: sp.log(1 + z), "exp": sp.exp, "sqrt": sp.sqrt}.get(src(e.args[0]).split(".")[-1])
                if g is None:
                    raise self.NU(src(e))
                return g(self.ev(e.args[1], env))
            if nm == "conj" and isinstance(e.func, ast.Attribute) and not e.args:
                return self.ev(e.func.value, env)
            if isinstance(e.func, ast.Attribute) and isinstance(e.func.value, ast.Name) and e.func.value.id == "self" and hasattr(self, "cls") \
                    and e.func.attr in self.cls.methods:
                callee = self.cls.methods[e.func.attr]
                ps = callee.params()[1:]
                env2 = {k: v for k, v in env.items() if k.startswith("self.")}
                for p_, a in zip(ps, e.args):
                    env2[p_] = self.ev(a, env)
                return self.body(callee.node, env2)
            callee = self.mod.functions.get(nm) if isinstance(e.func, ast.Name) else None
            if callee is not None:
                ps = callee.params()
                env2 = {k: v for k, v in env.items() if k.startswith("self.")}
                for p_, a in zip(ps, e.args):
                    env2[p_] = self.ev(a, env)
                return self.body(callee.node, env2)
            raise self.NU(src(e))
        raise self.NU(src(e))

    def body(self, fn, env):
        env = dict(env)
        for st in fn.body:
            if isinstance(st, ast.Expr):
                continue
            if isinstance(st, ast.Assign) and len(st.targets) == 1 and isinstance(st.targets[0], ast.Name):
                env[st.targets[0].id] = self.ev(st.value, env)
                continue
            if isinstance(st, ast.Return):
                return self.ev(st.value, env)
            raise self.NU(f"statement `{short(st)}`")
        raise self.NU("no return")


def r12_5(ctx, m):
    from .c03 import _load_sympy
    sp = _load_sympy()
    ctx.rule("R12.5", "one-parameter JAX likelihoods (Gaussian, StudentT, Poissonian; real case, per entry): metric(p, t)/t equals the "
                      "expectation over the data of d^2 energy/dp^2 (Fisher information), equals (left_sqrt_metric(p, t)/t)^2 and equals "
                      "(d transformation/dp)^2; the normalised residual is the left square root applied to data - primals", floor=9)
    if sp is None:
        ctx.und("R12.5", f"{IMPL}::sympy", "sympy not importable", IMPL)
        return
    mod = m.module(IMPL)
    table = {
        "Gaussian": (None, None, "second derivative does not depend on the data"),
        "Poissonian": ("P", None, "E[d] = lambda for Poisson counts"),
        "StudentT": (None, "Ni*(dof+1)/(dof+3)", "Fisher information of the location of a Student-t (dof, scale 1/sqrt(Ni))"),
    }
    for cname, (dsub, fisher_const, why) in table.items():
        C = m.cls(IMPL, cname)
        ctx.saw_class(C)
        rdr = _JaxScalar(sp, mod)
        rdr.cls = C
        P, T, D, dof = sp.Symbol("P", positive=True), sp.Symbol("T", real=True), sp.Symbol("D", real=True), sp.Symbol("dof", positive=True)
        env0 = {"self.data": D, "self.dof": dof}
        key = f"{C.key}::metric = Fisher information = left_sqrt^2 = (d transformation)^2"
        try:
            need = ("energy", "metric", "left_sqrt_metric", "transformation", "normalized_residual")
            if any(n_ not in C.methods for n_ in need):
                ctx.und("R12.5", key, f"methods missing: {[n_ for n_ in need if n_ not in C.methods]}", C)
                continue
            for n_ in need:
                ctx.saw_func(C.methods[n_])

            def call(name, *args):
                fi = C.methods[name]
                env = dict(env0)
                for p_, a in zip(fi.params()[1:], args):
                    env[p_] = a
                return rdr.body(fi.node, env)
            E = call("energy", P)
            M = call("metric", P, T)
            Lq = call("left_sqrt_metric", P, T)
            Tr = call("transformation", P)
            Nr = call("normalized_residual", P)
        except _JaxScalar.NU as exc:
            ctx.und("R12.5", key, f"term not understood: {exc}", C)
            continue
        Epp = sp.diff(E, P, 2)
        if fisher_const is not None:
            fisher = sp.sympify(fisher_const, locals={"Ni": rdr.Ni, "dof": dof})
        else:
            fisher = Epp.subs(D, P) if dsub == "P" else Epp
        mcoef = sp.simplify(M / T)
        ok1 = sp.simplify(mcoef - fisher) == 0
        ok2 = sp.simplify((Lq / T) ** 2 - mcoef) == 0
        ok3 = sp.simplify(sp.diff(Tr, P) ** 2 - mcoef) == 0
        Lres = call("left_sqrt_metric", P, D - P)
        ok4 = sp.simplify(Nr - Lres) == 0
        det = f"metric/t = {mcoef}; Fisher = {sp.simplify(fisher)} [{why}]; (left_sqrt/t)^2 = {sp.simplify((Lq / T) ** 2)}; (dT/dp)^2 = {sp.simplify(sp.diff(Tr, P) ** 2)}"
        ctx.check("R12.5", f"{C.key}::metric coefficient equals the Fisher information of the energy", bool(ok1), det, C)
        ctx.check("R12.5", f"{C.key}::left_sqrt_metric squared equals the metric", bool(ok2), det, C)
        ctx.check("R12.5", f"{C.key}::squared derivative of the transformation equals the metric", bool(ok3), det, C)
        ctx.check("R12.5", f"{C.key}::normalised residual = left_sqrt_metric(primals, data - primals)", bool(ok4), f"normalized_residual = {Nr}; left_sqrt(data - primals) = {Lres}", C)


_run_c12b = run


def run(ctx):  # noqa: F811
    _run_c12b(ctx)
    r12_5(ctx, ctx.model)


def r12_6(ctx, m):
    """NDVariableCovarianceGaussian: the parametrisation switch selects the same kind of operation in every method"""
    from ..util import cfg_of, known_atoms, strip_not
    ctx.rule("R12.6", "NDVariableCovarianceGaussian: in energy, metric, left_sqrt_metric, transformation and normalized_residual the "
                      "mean/residual block is treated with solve(...) under `self.covariance` and with a matrix product otherwise - "
                      "the same selection in every method (sibling agreement), so metric, square roots and energy describe the same "
                      "distribution in both parametrisations", floor=5)
    C = m.cls(IMPL, "NDVariableCovarianceGaussian", required=False)
    if C is None:
        ctx.error("R12.6: NDVariableCovarianceGaussian missing")
        return
    ctx.saw_class(C)
    table = {}
    for name in ("energy", "metric", "left_sqrt_metric", "transformation", "normalized_residual"):
        fi = C.methods.get(name)
        if fi is None:
            ctx.und("R12.6", f"{C.key}::{name}", "method missing", C)
            continue
        ctx.saw_func(fi)
        cfg = cfg_of(fi)
        sel = {}
        for n in cfg.nodes:
            if n.kind != "stmt" or n.ast is None:
                continue
            calls = [c for c in ast.walk(n.ast) if isinstance(c, ast.Call) and call_name(c) in ("solve", "_matmul", "matmul")
                     and not any(k.arg == "matrix_eqn" for k in c.keywords)]
            if not calls:
                continue
            pol = [p for t, p in known_atoms(cfg, n.id) if src(t) == "self.covariance"]
            kind = {("solve" if call_name(c) == "solve" else "matmul") for c in calls}
            for k in kind:
                for p in (pol or [True, False]):
                    sel.setdefault(p, set()).add(k)
        table[name] = sel
        key = f"{fi.key}::covariance -> solve, precision -> matrix product (vector block)"
        if not sel:
            ctx.und("R12.6", key, "no vector-block operation found", fi)
            continue
        ok = sel.get(True) == {"solve"} and sel.get(False) == {"matmul"}
        ctx.check("R12.6", key, ok, f"selection {dict((('covariance' if k else 'precision'), sorted(v)) for k, v in sel.items())}", fi)


def r12_7(ctx, m):
    """solve(..., transposed=True) returns X with X A = B, not its transpose"""
    from ..util import cfg_of, known_atoms
    ctx.rule("R12.7", "tree_math.util.solve: under `transposed` both operands are transposed before the solve AND the result is "
                      "transposed back before it is returned (X A = B  <=>  A^T X^T = B^T); the matrix block of the variable-covariance "
                      "metric C^-1 T C^-1 relies on it for non-symmetric tangents", floor=2)
    fi = m.func("nifty.re.tree_math.util", "solve", required=False)
    if fi is None:
        ctx.error("R12.7: tree_math.util.solve missing")
        return
    ctx.saw_func(fi)
    cfg = cfg_of(fi)
    rd = cfg.reaching_defs(fi.params())
    A, B = fi.params()[:2]
    tr = {}
    for n in cfg.nodes:
        if n.kind == "stmt" and isinstance(n.ast, ast.Assign) and isinstance(n.ast.targets[0], ast.Name) and isinstance(n.ast.value, ast.Call):
            v = n.ast.value
            is_t = (call_name(v) == "tree_map" and len(v.args) == 2 and "transpose" in src(v.args[0]) and src(v.args[1]) == n.ast.targets[0].id) or \
                   (call_name(v) in ("matrix_transpose", "transpose", "swapaxes") and v.args and src(v.args[0]) == n.ast.targets[0].id)
            if is_t and any(src(t) == "transposed" and p for t, p in known_atoms(cfg, n.id)):
                tr.setdefault(n.ast.targets[0].id, []).append(n)
    pre = sorted(k for k in tr if k in (A, B))
    ctx.check("R12.7", f"{fi.key}::operands are transposed under the flag", pre == sorted([A, B]) if pre else None, f"transposed before the solve: {pre}", fi)
    rets = [n for n in cfg.nodes if n.kind == "stmt" and isinstance(n.ast, ast.Return) and n.ast.value is not None]
    key = f"{fi.key}::the result is transposed back under the flag"
    if len(rets) != 1:
        ctx.und("R12.7", key, f"{len(rets)} returns", fi)
        return
    rv = rets[0].ast.value
    if isinstance(rv, ast.Name):
        back = rv.id in tr and any(d in {n.id for n in tr[rv.id]} for d in (rd.get(rets[0].id) or {}).get(rv.id, ()))
        if pre and not back:
            ctx.bad("R12.7", key, f"`{rv.id}` is returned as solved for the transposed system: the caller gets X^T", fi, rets[0].ast)
        else:
            ctx.check("R12.7", key, True if back else None, f"`{rv.id}` transposed at lines {[n.ast.lineno for n in tr.get(rv.id, [])]}", fi, rets[0].ast)
    else:
        t = src(rv)
        if pre and "transpose" not in t and "transposed" not in t:
            ctx.bad("R12.7", key, f"`{t}` is returned as solved for the transposed system: the caller gets X^T", fi, rets[0].ast)
        else:
            ctx.und("R12.7", key, f"return `{t}` not recognised", fi, rets[0].ast)


_run_c12c = run


def run(ctx):  # noqa: F811
    _run_c12c(ctx)
    r12_6(ctx, ctx.model)
    r12_7(ctx, ctx.model)
