"""C12 - JAX likelihood composition wrappers: delegation agreement, freeze table, method-set exhaustiveness,
base-class factorisation defaults."""
import ast

from ..model import src, short, walk_no_nested, call_name
from ..terms import inline_at
from ..util import cfg_of

LH = "nifty.re.likelihood"
IMPL = "nifty.re.likelihood_impl"
METHODS = ["energy", "normalized_residual", "metric", "left_sqrt_metric", "right_sqrt_metric", "transformation"]
# P = parameter space, D = data space
SIG = {
    "energy": (["Ppos"], None), "transformation": (["Ppos"], None), "normalized_residual": (["Ppos"], None),
    "left_sqrt_metric": (["Ppos", "D"], "P"), "right_sqrt_metric": (["Ppos", "Ptan"], "D"), "metric": (["Ppos", "Ptan"], "P"),
}


def _is_forward_fn(e):
    """self.forward  |  Partial(self.forward, **kw)"""
    if src(e) == "self.forward":
        return True
    return isinstance(e, ast.Call) and call_name(e) == "Partial" and e.args and src(e.args[0]) == "self.forward"


def _lin(e, primals, which):
    """e is jax.linearize(F, primals)[which] / jax.vjp(F, primals)[which]"""
    if isinstance(e, ast.Subscript) and isinstance(e.slice, ast.Constant) and isinstance(e.value, ast.Call):
        c = e.value
        kind = src(c.func)
        if kind in ("jax.linearize", "linearize", "jax.vjp", "vjp") and len(c.args) == 2 and _is_forward_fn(c.args[0]) \
                and src(c.args[1]) == primals and e.slice.value == which:
            return kind.split(".")[-1]
    return None


def _is_model_value(e, primals):
    if _lin(e, primals, 0):
        return True
    return isinstance(e, ast.Call) and src(e.func) == "self.forward" and e.args and src(e.args[0]) == primals


def _is_fwd_of(e, primals, tangents):
    return isinstance(e, ast.Call) and _lin(e.func, primals, 1) == "linearize" and len(e.args) == 1 and src(e.args[0]) == tangents


def _bwd_kind(f, primals):
    """f is the pull-back: _functional_conj(vjp(...)[1]) or _functional_conj(linear_transpose(linearize(...)[1], primals)).
    returns 'conj' / 'noconj' / None"""
    conj = False
    if isinstance(f, ast.Call) and call_name(f) == "_functional_conj" and len(f.args) == 1:
        conj = True
        f = f.args[0]
    okb = _lin(f, primals, 1) == "vjp" or (
        isinstance(f, ast.Call) and src(f.func) in ("jax.linear_transpose", "linear_transpose") and len(f.args) == 2
        and _lin(f.args[0], primals, 1) == "linearize")
    if not okb:
        return None
    return "conj" if conj else "noconj"


def _with_model_shape(e, name, primals, tangents):
    """(verdict, explanation) for the fully inlined return expression of LikelihoodWithModel.<name>."""
    s = src(e)
    calls = [c for c in ast.walk(e) if isinstance(c, ast.Call) and (src(c.func).startswith("self.likelihood"))]
    if len(calls) != 1:
        return None, f"expected exactly one call into the wrapped likelihood: {s}"
    c = calls[0]
    callee = src(c.func)
    want = ("self.likelihood", "self.likelihood.energy") if name == "energy" else (f"self.likelihood.{name}",)
    if callee not in want:
        return False, f"{name} delegates to `{callee}` instead of {want[-1]}"
    if not c.args or not _is_model_value(c.args[0], primals):
        return (False if c.args and src(c.args[0]) == primals else None), \
            f"wrapped {name} must be evaluated at forward(primals), got `{src(c.args[0]) if c.args else None}`"
    if name in ("energy", "normalized_residual", "transformation"):
        return (True, None) if e is c else (None, f"result is post-processed: {s}")
    a1 = c.args[1] if len(c.args) > 1 else None
    if a1 is None:
        return False, "tangents are not passed on"
    if name in ("metric", "right_sqrt_metric"):
        if not _is_fwd_of(a1, primals, tangents):
            return (False if src(a1) == tangents else None), \
                f"tangents must be pushed forward with the model's jvp before entering the wrapped {name}, got `{src(a1)}`"
    else:
        if src(a1) != tangents:
            return (False if _is_fwd_of(a1, primals, tangents) else None), \
                f"left_sqrt_metric takes data-space tangents unchanged, got `{src(a1)}`"
    if name == "right_sqrt_metric":
        return (True, None) if e is c else ((False, "right_sqrt_metric must not pull back") if _outer_bwd(e, c, primals) else (None, s))
    # metric / left: bwd(...)[0]
    ob = _outer_bwd(e, c, primals)
    if ob is None:
        return (False if e is c else None), f"result must be pulled back with the (conjugated) vjp of the model: {s}"
    if ob == "noconj":
        return False, "the pull-back is not conjugated (_functional_conj missing): wrong for complex-valued models"
    return True, None


def _outer_bwd(e, c, primals):
    if isinstance(e, ast.Subscript) and isinstance(e.slice, ast.Constant) and e.slice.value == 0 and isinstance(e.value, ast.Call) \
            and len(e.value.args) == 1 and e.value.args[0] is c:
        return _bwd_kind(e.value.func, primals)
    return None


def _ret(fi):
    rs = [r for r in walk_no_nested(fi.node) if isinstance(r, ast.Return)]
    return rs[0].value if len(rs) == 1 else None


def run(ctx):
    m = ctx.model
    base = m.cls(LH, "Likelihood")
    part = m.cls(LH, "LikelihoodPartial")
    wm = m.cls(LH, "LikelihoodWithModel")
    sm = m.cls(LH, "LikelihoodSum")
    for c in (base, part, wm, sm):
        ctx.saw_class(c)

    # ------------------------------------------------------------------ R12.0 base defaults
    ctx.rule("R12.0", "base-class factorisation defaults: metric = L applied after R, R = conjugate transpose of L, "
                      "L = conjugated vjp of the transformation at the same primals", floor=3)
    f = base.methods["metric"]
    ctx.saw_func(f)
    cfg = cfg_of(f)
    rd = cfg.reaching_defs(f.params())
    rnode = [n for n in cfg.nodes if n.kind == "stmt" and isinstance(n.ast, ast.Return)][0]
    e = inline_at(cfg, rd, rnode.id, rnode.ast.value)
    p, t = f.params()[1:3]
    okk = isinstance(e, ast.Call) and isinstance(e.func, ast.Call) and call_name(e.func) == "Partial" \
        and src(e.func.args[0]) == "self.left_sqrt_metric" and src(e.func.args[1]) == p \
        and len(e.args) == 1 and isinstance(e.args[0], ast.Call) and src(e.args[0].func) == "self.right_sqrt_metric" \
        and [src(a) for a in e.args[0].args] == [p, t]
    ctx.check("R12.0", f"{f.key}::metric(p, t) = L_p(R_p(t))", okk, src(e), f)
    f = base.methods["right_sqrt_metric"]
    ctx.saw_func(f)
    cfg = cfg_of(f)
    rd = cfg.reaching_defs(f.params())
    rnode = [n for n in cfg.nodes if n.kind == "stmt" and isinstance(n.ast, ast.Return)][0]
    e = inline_at(cfg, rd, rnode.id, rnode.ast.value)
    s = src(e)
    p, t = f.params()[1:3]
    okk = s.startswith("_functional_conj(jax.linear_transpose(Partial(self.left_sqrt_metric, " + p) and s.endswith(f")({t})[0]")
    ctx.check("R12.0", f"{f.key}::R_p = conj(transpose(L_p))", okk, s, f)
    f = base.methods["left_sqrt_metric"]
    ctx.saw_func(f)
    p, t = f.params()[1:3]
    cfg = cfg_of(f)
    rd = cfg.reaching_defs(f.params())
    rnode = [n for n in cfg.nodes if n.kind == "stmt" and isinstance(n.ast, ast.Return)][0]
    e = src(inline_at(cfg, rd, rnode.id, rnode.ast.value, depth=8, unpack_calls=True))
    want = f"_functional_conj(jax.vjp(Partial(self.transformation, **primals_kw), {p})[1])({t})[0]"
    ctx.check("R12.0", f"{f.key}::L_p = conj(vjp(transformation, p))", e == want, e, f)

    # ------------------------------------------------------------------ R12.3 freeze table
    ctx.rule("R12.3", "LikelihoodPartial freeze table: per method one insert slot per positional argument; position slots are "
                      "filled with the frozen primals, tangent slots with zeros_like(frozen), data-space slots with None; the "
                      "frozen axes are removed from the result exactly for the methods whose result lives in parameter space", floor=6)
    for name in METHODS:
        fi = part.methods.get(name)
        key = f"{part.key}::{name}"
        if fi is None:
            ctx.bad("R12.3", key, "method not wrapped: the inherited default would ignore the frozen primals", part)
            continue
        ctx.saw_func(fi)
        v = _ret(fi)
        if not (isinstance(v, ast.Call) and call_name(v) == "partial_insert_and_remove" and v.args):
            ctx.und("R12.3", key, "not a partial_insert_and_remove(...) wrapper", fi)
            continue
        kw = {k.arg: k.value for k in v.keywords}
        callee = src(v.args[0])
        args, res = SIG[name]
        ia = kw.get("insert_axes")
        ff = kw.get("flat_fill")
        rm = kw.get("remove_axes")
        problems = []
        if callee != f"self.likelihood.{name}":
            problems.append(f"wraps `{callee}` instead of self.likelihood.{name}")
        if not (isinstance(ia, ast.Tuple) and isinstance(ff, ast.Tuple) and len(ia.elts) == len(ff.elts) == len(args)):
            problems.append(f"needs {len(args)} insert/fill slots, has insert_axes={src(ia)} flat_fill={src(ff)}")
        else:
            for i, typ in enumerate(args):
                a, b = src(ia.elts[i]), src(ff.elts[i])
                if typ == "Ppos" and (a, b) != ("self.insert_axes", "self.primals_frozen"):
                    problems.append(f"slot {i} (position) must insert the frozen primals, has ({a}, {b})")
                if typ == "Ptan" and (a, b) != ("self.insert_axes", "zeros_like(self.primals_frozen)"):
                    problems.append(f"slot {i} (tangent) must insert zeros_like(frozen) (a frozen parameter has no tangent), has ({a}, {b})")
                if typ == "D" and (a, b) != ("None", "None"):
                    problems.append(f"slot {i} (data space) must stay untouched, has ({a}, {b})")
        rms = src(rm) if rm is not None else "None"
        if res == "P" and rms != "self.insert_axes":
            problems.append(f"result lives in parameter space: frozen axes must be removed (remove_axes={rms})")
        if res != "P" and rms not in ("None", "()"):
            problems.append(f"result does not live in parameter space but remove_axes={rms}")
        if res == "P" and src(kw.get("unflatten")) != "self.unflatten":
            problems.append("removed result is not re-wrapped with self.unflatten")
        ctx.check("R12.3", key, not problems, "; ".join(problems) or None, fi)

    # ------------------------------------------------------------------ R12.1 delegation agreement
    ctx.rule("R12.1", "LikelihoodWithModel / LikelihoodSum: every method delegates to the same-named method of the wrapped "
                      "likelihood(s); metric = bwd(metric(y, fwd(t))), left = bwd(left(y, t)), right = right(y, fwd(t)); sums "
                      "add energy/metric/left and collect right/transformation/residual key-wise", floor=12)
    for name in METHODS:
        fi = wm.methods.get(name)
        key = f"{wm.key}::{name}"
        if fi is None:
            ctx.bad("R12.1", key, "not overridden: the inherited default ignores the forward model", wm)
            continue
        ctx.saw_func(fi)
        cfg = cfg_of(fi)
        rd = cfg.reaching_defs(fi.params())
        rnode = [n for n in cfg.nodes if n.kind == "stmt" and isinstance(n.ast, ast.Return)]
        if len(rnode) != 1:
            ctx.und("R12.1", key, "multiple returns", fi)
            continue
        e = inline_at(cfg, rd, rnode[0].id, rnode[0].ast.value, depth=8, unpack_calls=True)
        pr, tn = (fi.params() + [None, None, None])[1:3]
        verdict, why = _with_model_shape(e, name, pr, tn)
        ctx.check("R12.1", key, verdict, why, fi, rnode[0].ast)
    for name in METHODS:
        fi = sm.methods.get(name)
        key = f"{sm.key}::{name}"
        if fi is None:
            ctx.bad("R12.1", key, "not overridden", sm)
            continue
        ctx.saw_func(fi)
        calls = [c for c in ast.walk(fi.node) if isinstance(c, ast.Call) and isinstance(c.func, ast.Attribute)
                 and isinstance(c.func.value, ast.Name) and c.func.value.id == "lh" and c.func.attr in METHODS]
        problems = []
        if len(calls) != 1 or calls[0].func.attr != name:
            problems.append(f"summands are asked for {[c.func.attr for c in calls]} instead of {name}")
        body = src(fi.node)
        if "self._items()" not in body:
            problems.append("does not iterate over all summands (self._items())")
        additive = name in ("energy", "metric", "left_sqrt_metric")
        if additive and "reduce(operator.add" not in body.replace("\n", "").replace(" ", "").replace("reduce(operator.add", "reduce(operator.add"):
            if "operator.add" not in body:
                problems.append("results of the summands must be added")
        if not additive and not any(isinstance(n, ast.DictComp) and src(n.key) == "key" for n in ast.walk(fi.node)):
            problems.append("results of the summands must be collected key-wise")
        if calls:
            a = [src(x) for x in calls[0].args]
            if name == "left_sqrt_metric" and a[:2] != ["primals", "tangents[key]"]:
                problems.append(f"each summand gets its own data-space tangent tangents[key], got {a}")
            if name in ("metric", "right_sqrt_metric") and a[:2] != ["primals", "tangents"]:
                problems.append(f"arguments {a}")
            if name in ("energy", "transformation", "normalized_residual") and a[:1] != ["primals"]:
                problems.append(f"arguments {a}")
        ctx.check("R12.1", key, not problems, "; ".join(problems) or None, fi)

    # ------------------------------------------------------------------ R12.2 method-set exhaustiveness
    ctx.rule("R12.2", "every concrete Likelihood in likelihood_impl.py defines energy and one of {transformation}, "
                      "{left_sqrt_metric} so that no base-class default is entered with a missing piece", floor=6)
    impl = m.module(IMPL)
    for c in impl.classes.values():
        if base not in m.mro(c) or c is base:
            continue
        ctx.saw_class(c)
        own = set()
        for k in m.mro(c):
            if k is base:
                break
            own |= set(k.methods)
        ctx.check("R12.2", f"{c.key}::defines energy + (transformation | left_sqrt_metric)",
                  "energy" in own and ("transformation" in own or "left_sqrt_metric" in own),
                  f"defines {sorted(own & set(METHODS))}", c)
        if "metric" in own and "left_sqrt_metric" not in own and "transformation" not in own:
            ctx.bad("R12.2", f"{c.key}::metric without a square root", "metric is defined but neither left_sqrt_metric nor transformation", c)


# --------------------------------------------------------------------------- R12.4
from ..terms import subst  # noqa: E402


def _terms_of(fi):
    """(list of component expressions with locals inlined, tangent param name) or None"""
    ps = fi.params()
    if len(ps) < 3:
        return None
    env = {}
    for st in fi.node.body:
        if isinstance(st, ast.Assign) and len(st.targets) == 1 and isinstance(st.targets[0], ast.Name):
            env[st.targets[0].id] = subst(st.value, env)
        elif isinstance(st, ast.Return):
            v = subst(st.value, env)
            if isinstance(v, ast.Call) and src(v.func) == "type(primals)" and len(v.args) == 1:
                v = v.args[0]
            comps = list(v.elts) if isinstance(v, ast.Tuple) else [v]
            return comps, ps[1], ps[2]
        elif isinstance(st, ast.Expr):
            continue
        else:
            return None
    return None

def _tosym(sp, e, syms, cval):
    if isinstance(e, ast.Constant) and isinstance(e.value, (int, float)):
        return sp.nsimplify(e.value)
    s = src(e)
    if s == "self.iscomplex":
        return sp.Integer(cval)
    if s == "self.dof":
        return syms["dof"]
    if isinstance(e, ast.Subscript) and isinstance(e.value, ast.Name) and isinstance(e.slice, ast.Constant):
        return syms.setdefault(f"{e.value.id}[{e.slice.value}]", sp.Symbol(f"{e.value.id}_{e.slice.value}", positive=True))
    if isinstance(e, ast.Name):
        return syms.setdefault(e.id, sp.Symbol(e.id, positive=True))
    if isinstance(e, ast.BinOp):
        a, b = _tosym(sp, e.left, syms, cval), _tosym(sp, e.right, syms, cval)
        ops = {ast.Add: lambda: a + b, ast.Sub: lambda: a - b, ast.Mult: lambda: a * b, ast.Div: lambda: a / b, ast.Pow: lambda: a ** b}
        if type(e.op) in ops:
            return ops[type(e.op)]()
    if isinstance(e, ast.UnaryOp) and isinstance(e.op, ast.USub):
        return -_tosym(sp, e.operand, syms, cval)
    if isinstance(e, ast.Call):
        f = src(e.func)
        if f in ("jnp.sqrt", "np.sqrt") and len(e.args) == 1:
            return sp.sqrt(_tosym(sp, e.args[0], syms, cval))
        if f in ("jnp.log", "np.log") and len(e.args) == 1:
            return sp.log(_tosym(sp, e.args[0], syms, cval))
        if f in ("jnp.maximum", "np.maximum", "jnp.minimum", "np.minimum") and len(e.args) == 2:
            a, b = (_tosym(sp, z, syms, cval) for z in e.args)
            return (sp.Max if f.endswith("maximum") else sp.Min)(a, b)
        if f in ("jnp.clip", "np.clip") and len(e.args) >= 2:
            a = _tosym(sp, e.args[0], syms, cval)
            lo = e.args[1]
            hi = e.args[2] if len(e.args) > 2 else None
            if not (isinstance(lo, ast.Constant) and lo.value is None):
                a = sp.Max(a, _tosym(sp, lo, syms, cval))
            if hi is not None and not (isinstance(hi, ast.Constant) and hi.value is None):
                a = sp.Min(a, _tosym(sp, hi, syms, cval))
            return a
        if f in ("tree_map", "jax.tree_util.tree_map", "jax.tree.map") and len(e.args) == 2:
            fn, arg = e.args
            if isinstance(fn, ast.Lambda) and len(fn.args.args) == 1:
                return _tosym(sp, subst(fn.body, {fn.args.args[0].arg: arg}), syms, cval)
            if isinstance(fn, (ast.Attribute, ast.Name)):
                return _tosym(sp, ast.Call(func=fn, args=[arg], keywords=[]), syms, cval)
        if f == "self.noise_std_inv" and len(e.args) == 1:
            return syms["S"] * _tosym(sp, e.args[0], syms, cval)
        if f == "self.noise_cov_inv" and len(e.args) == 1:
            return syms["S"] ** 2 * _tosym(sp, e.args[0], syms, cval)
    raise ValueError(s)



def r12_4(ctx, m, base, impl):
    """diagonal likelihoods: metric coefficient == (left-sqrt coefficient)^2, component by component"""
    ctx.rule("R12.4", "diagonal likelihoods: for every implementation whose left_sqrt_metric and metric act component-wise on the "
                      "tangents, the metric coefficient equals the squared left-sqrt coefficient (the noise operators cov_inv / "
                      "std_inv are treated as S^2 / S), for real and complex data", floor=4)
    from .c03 import _load_sympy
    sp = _load_sympy()
    if sp is None:
        ctx.notes.append("sympy not importable: R12.4 undecided")
        return
    from ..terms import subst

    terms_of = _terms_of

    def tosym(e, syms, cval):
        return _tosym(sp, e, syms, cval)

    for c in impl.classes.values():
        if base not in m.mro(c) or c is base:
            continue
        lf, mf = c.methods.get("left_sqrt_metric"), c.methods.get("metric")
        if lf is None or mf is None:
            continue
        key = f"{c.key}::metric coefficient == (left_sqrt_metric coefficient)^2"
        tl, tm = terms_of(lf), terms_of(mf)
        if tl is None or tm is None or len(tl[0]) != len(tm[0]):
            ctx.und("R12.4", key, "not a component-wise closed form", c)
            continue
        verdict, why = True, []
        try:
            for cval in (0, 1):
                syms = {"dof": sp.Symbol("dof", positive=True), "S": sp.Symbol("S", positive=True)}
                for k, (el, em) in enumerate(zip(tl[0], tm[0])):
                    def tang(tparam, ncomp):
                        name = f"{tparam}[{k}]" if ncomp > 1 else tparam
                        return name
                    L = tosym(el, syms, cval)
                    M = tosym(em, syms, cval)
                    tL = syms.get(tang(tl[2], len(tl[0])))
                    tM = syms.get(tang(tm[2], len(tm[0])))
                    if tL is None or tM is None:
                        raise ValueError("tangent component not found")
                    a = sp.simplify(sp.diff(L, tL))
                    b = sp.simplify(sp.diff(M, tM))
                    if sp.simplify(L - a * tL) != 0 or sp.simplify(M - b * tM) != 0:
                        raise ValueError("not linear/diagonal in the tangent")
                    if sp.simplify(b - a ** 2) != 0:
                        verdict = False
                        why.append(f"component {k}, {'complex' if cval else 'real'} data: metric coefficient {b} but left-sqrt coefficient "
                                   f"{a} (square {sp.simplify(a ** 2)})")
        except ValueError as ex:
            ctx.und("R12.4", key, f"term not translated: {ex}", c)
            continue
        ctx.check("R12.4", key, verdict, "; ".join(why) or None, c)


_run_c12 = run


def run(ctx):  # noqa: F811
    _run_c12(ctx)
    m = ctx.model
    r12_4(ctx, m, m.cls(LH, "Likelihood"), m.module(IMPL))


# --------------------------------------------------------------------------- R12.5
class _JaxScalar:
    """per-entry reading of the scalar likelihood formulas of nifty.re.likelihood_impl (real-valued case)"""

    def __init__(self, sp, mod):
        self.sp = sp
        self.mod = mod
        self.Ni = sp.Symbol("Ni", positive=True)

    class NU(Exception):
        pass

    def ev(self, e, env):
        sp = self.sp
        if isinstance(e, ast.Constant):
            if isinstance(e.value, (int, float)) and not isinstance(e.value, bool):
                return sp.nsimplify(e.value)
            if e.value is None:
                return None
            raise self.NU(src(e))
        if isinstance(e, ast.Name):
            if e.id in env:
                return env[e.id]
            raise self.NU(f"name {e.id}")
        if isinstance(e, ast.Attribute):
            t = src(e)
            if t in env:
                return env[t]
            if e.attr == "real":
                return self.ev(e.value, env)
            raise self.NU(t)
        if isinstance(e, ast.UnaryOp) and isinstance(e.op, ast.USub):
            return -self.ev(e.operand, env)
        if isinstance(e, ast.BinOp):
            a, b = self.ev(e.left, env), self.ev(e.right, env)
            ops = {ast.Add: lambda: a + b, ast.Sub: lambda: a - b, ast.Mult: lambda: a * b, ast.Div: lambda: a / b, ast.Pow: lambda: a ** b}
            if type(e.op) in ops:
                return ops[type(e.op)]()
            raise self.NU(src(e))
        if isinstance(e, ast.Call):
            nm = call_name(e)
            f = src(e.func)
            if f == "self.noise_cov_inv" and len(e.args) == 1:
                return self.Ni * self.ev(e.args[0], env)
            if f == "self.noise_std_inv" and len(e.args) == 1:
                return sp.sqrt(self.Ni) * self.ev(e.args[0], env)
            if nm == "vdot" and len(e.args) == 2:
                return self.ev(e.args[0], env) * self.ev(e.args[1], env)
            if nm == "sum" and len(e.args) == 1:
                return self.ev(e.args[0], env)
            if nm == "tree_map" and len(e.args) == 2:
                g = {"log": sp.log, "log1p": lambda z: sp.log(1 + z), "exp": sp.exp, "sqrt": sp.sqrt}.get(src(e.args[0]).split(".")[-1])
                if g is None:
                    raise self.NU(src(e))
                return g(self.ev(e.args[1], env))
            if nm == "conj" and isinstance(e.func, ast.Attribute) and not e.args:
                return self.ev(e.func.value, env)
            if isinstance(e.func, ast.Attribute) and isinstance(e.func.value, ast.Name) and e.func.value.id == "self" and hasattr(self, "cls") \
                    and e.func.attr in self.cls.methods:
                callee = self.cls.methods[e.func.attr]
                ps = callee.params()[1:]
                env2 = {k: v for k, v in env.items() if k.startswith("self.")}
                for p_, a in zip(ps, e.args):
                    env2[p_] = self.ev(a, env)
                return self.body(callee.node, env2)
            callee = self.mod.functions.get(nm) if isinstance(e.func, ast.Name) else None
            if callee is not None:
                ps = callee.params()
                env2 = {k: v for k, v in env.items() if k.startswith("self.")}
                for p_, a in zip(ps, e.args):
                    env2[p_] = self.ev(a, env)
                return self.body(callee.node, env2)
            raise self.NU(src(e))
        raise self.NU(src(e))

    def body(self, fn, env):
        env = dict(env)
        for st in fn.body:
            if isinstance(st, ast.Expr):
                continue
            if isinstance(st, ast.Assign) and len(st.targets) == 1 and isinstance(st.targets[0], ast.Name):
                env[st.targets[0].id] = self.ev(st.value, env)
                continue
            if isinstance(st, ast.Return):
                return self.ev(st.value, env)
            raise self.NU(f"statement `{short(st)}`")
        raise self.NU("no return")


def r12_5(ctx, m):
    from .c03 import _load_sympy
    sp = _load_sympy()
    ctx.rule("R12.5", "one-parameter JAX likelihoods (Gaussian, StudentT, Poissonian; real case, per entry): metric(p, t)/t equals the "
                      "expectation over the data of d^2 energy/dp^2 (Fisher information), equals (left_sqrt_metric(p, t)/t)^2 and equals "
                      "(d transformation/dp)^2; the normalised residual is the left square root applied to data - primals", floor=9)
    if sp is None:
        ctx.und("R12.5", f"{IMPL}::sympy", "sympy not importable", IMPL)
        return
    mod = m.module(IMPL)
    table = {
        "Gaussian": (None, None, "second derivative does not depend on the data"),
        "Poissonian": ("P", None, "E[d] = lambda for Poisson counts"),
        "StudentT": (None, "Ni*(dof+1)/(dof+3)", "Fisher information of the location of a Student-t (dof, scale 1/sqrt(Ni))"),
    }
    for cname, (dsub, fisher_const, why) in table.items():
        C = m.cls(IMPL, cname)
        ctx.saw_class(C)
        rdr = _JaxScalar(sp, mod)
        rdr.cls = C
        P, T, D, dof = sp.Symbol("P", positive=True), sp.Symbol("T", real=True), sp.Symbol("D", real=True), sp.Symbol("dof", positive=True)
        env0 = {"self.data": D, "self.dof": dof}
        key = f"{C.key}::metric = Fisher information = left_sqrt^2 = (d transformation)^2"
        try:
            need = ("energy", "metric", "left_sqrt_metric", "transformation", "normalized_residual")
            if any(n_ not in C.methods for n_ in need):
                ctx.und("R12.5", key, f"methods missing: {[n_ for n_ in need if n_ not in C.methods]}", C)
                continue
            for n_ in need:
                ctx.saw_func(C.methods[n_])

            def call(name, *args):
                fi = C.methods[name]
                env = dict(env0)
                for p_, a in zip(fi.params()[1:], args):
                    env[p_] = a
                return rdr.body(fi.node, env)
            E = call("energy", P)
            M = call("metric", P, T)
            Lq = call("left_sqrt_metric", P, T)
            Tr = call("transformation", P)
            Nr = call("normalized_residual", P)
        except _JaxScalar.NU as exc:
            ctx.und("R12.5", key, f"term not understood: {exc}", C)
            continue
        Epp = sp.diff(E, P, 2)
        if fisher_const is not None:
            fisher = sp.sympify(fisher_const, locals={"Ni": rdr.Ni, "dof": dof})
        else:
            fisher = Epp.subs(D, P) if dsub == "P" else Epp
        mcoef = sp.simplify(M / T)
        ok1 = sp.simplify(mcoef - fisher) == 0
        ok2 = sp.simplify((Lq / T) ** 2 - mcoef) == 0
        ok3 = sp.simplify(sp.diff(Tr, P) ** 2 - mcoef) == 0
        Lres = call("left_sqrt_metric", P, D - P)
        ok4 = sp.simplify(Nr - Lres) == 0
        det = f"metric/t = {mcoef}; Fisher = {sp.simplify(fisher)} [{why}]; (left_sqrt/t)^2 = {sp.simplify((Lq / T) ** 2)}; (dT/dp)^2 = {sp.simplify(sp.diff(Tr, P) ** 2)}"
        ctx.check("R12.5", f"{C.key}::metric coefficient equals the Fisher information of the energy", bool(ok1), det, C)
        ctx.check("R12.5", f"{C.key}::left_sqrt_metric squared equals the metric", bool(ok2), det, C)
        ctx.check("R12.5", f"{C.key}::squared derivative of the transformation equals the metric", bool(ok3), det, C)
        ctx.check("R12.5", f"{C.key}::normalised residual = left_sqrt_metric(primals, data - primals)", bool(ok4), f"normalized_residual = {Nr}; left_sqrt(data - primals) = {Lres}", C)


_run_c12b = run


def run(ctx):  # noqa: F811
    _run_c12b(ctx)
    r12_5(ctx, ctx.model)


def r12_6(ctx, m):
    """NDVariableCovarianceGaussian: the parametrisation switch selects the same kind of operation in every method"""
    from ..util import cfg_of, known_atoms, strip_not
    ctx.rule("R12.6", "NDVariableCovarianceGaussian: in energy, metric, left_sqrt_metric, transformation and normalized_residual the "
                      "mean/residual block is treated with solve(...) under `self.covariance` and with a matrix product otherwise - "
                      "the same selection in every method (sibling agreement), so metric, square roots and energy describe the same "
                      "distribution in both parametrisations", floor=5)
    C = m.cls(IMPL, "NDVariableCovarianceGaussian", required=False)
    if C is None:
        ctx.error("R12.6: NDVariableCovarianceGaussian missing")
        return
    ctx.saw_class(C)
    table = {}
    for name in ("energy", "metric", "left_sqrt_metric", "transformation", "normalized_residual"):
        fi = C.methods.get(name)
        if fi is None:
            ctx.und("R12.6", f"{C.key}::{name}", "method missing", C)
            continue
        ctx.saw_func(fi)
        cfg = cfg_of(fi)
        sel = {}
        for n in cfg.nodes:
            if n.kind != "stmt" or n.ast is None:
                continue
            calls = [c for c in ast.walk(n.ast) if isinstance(c, ast.Call) and call_name(c) in ("solve", "_matmul", "matmul")
                     and not any(k.arg == "matrix_eqn" for k in c.keywords)]
            if not calls:
                continue
            pol = [p for t, p in known_atoms(cfg, n.id) if src(t) == "self.covariance"]
            kind = {("solve" if call_name(c) == "solve" else "matmul") for c in calls}
            for k in kind:
                for p in (pol or [True, False]):
                    sel.setdefault(p, set()).add(k)
        table[name] = sel
        key = f"{fi.key}::covariance -> solve, precision -> matrix product (vector block)"
        if not sel:
            ctx.und("R12.6", key, "no vector-block operation found", fi)
            continue
        ok = sel.get(True) == {"solve"} and sel.get(False) == {"matmul"}
        ctx.check("R12.6", key, ok, f"selection {dict((('covariance' if k else 'precision'), sorted(v)) for k, v in sel.items())}", fi)


def r12_7(ctx, m):
    """solve(..., transposed=True) returns X with X A = B, not its transpose"""
    from ..util import cfg_of, known_atoms
    ctx.rule("R12.7", "tree_math.util.solve: under `transposed` both operands are transposed before the solve AND the result is "
                      "transposed back before it is returned (X A = B  <=>  A^T X^T = B^T); the matrix block of the variable-covariance "
                      "metric C^-1 T C^-1 relies on it for non-symmetric tangents", floor=2)
    fi = m.func("nifty.re.tree_math.util", "solve", required=False)
    if fi is None:
        ctx.error("R12.7: tree_math.util.solve missing")
        return
    ctx.saw_func(fi)
    cfg = cfg_of(fi)
    rd = cfg.reaching_defs(fi.params())
    A, B = fi.params()[:2]
    tr = {}
    for n in cfg.nodes:
        if n.kind == "stmt" and isinstance(n.ast, ast.Assign) and isinstance(n.ast.targets[0], ast.Name) and isinstance(n.ast.value, ast.Call):
            v = n.ast.value
            is_t = (call_name(v) == "tree_map" and len(v.args) == 2 and "transpose" in src(v.args[0]) and src(v.args[1]) == n.ast.targets[0].id) or \
                   (call_name(v) in ("matrix_transpose", "transpose", "swapaxes") and v.args and src(v.args[0]) == n.ast.targets[0].id)
            if is_t and any(src(t) == "transposed" and p for t, p in known_atoms(cfg, n.id)):
                tr.setdefault(n.ast.targets[0].id, []).append(n)
    pre = sorted(k for k in tr if k in (A, B))
    ctx.check("R12.7", f"{fi.key}::operands are transposed under the flag", pre == sorted([A, B]) if pre else None, f"transposed before the solve: {pre}", fi)
    rets = [n for n in cfg.nodes if n.kind == "stmt" and isinstance(n.ast, ast.Return) and n.ast.value is not None]
    key = f"{fi.key}::the result is transposed back under the flag"
    if len(rets) != 1:
        ctx.und("R12.7", key, f"{len(rets)} returns", fi)
        return
    rv = rets[0].ast.value
    if isinstance(rv, ast.Name):
        back = rv.id in tr and any(d in {n.id for n in tr[rv.id]} for d in (rd.get(rets[0].id) or {}).get(rv.id, ()))
        if pre and not back:
            ctx.bad("R12.7", key, f"`{rv.id}` is returned as solved for the transposed system: the caller gets X^T", fi, rets[0].ast)
        else:
            ctx.check("R12.7", key, True if back else None, f"`{rv.id}` transposed at lines {[n.ast.lineno for n in tr.get(rv.id, [])]}", fi, rets[0].ast)
    else:
        t = src(rv)
        if pre and "transpose" not in t and "transposed" not in t:
            ctx.bad("R12.7", key, f"`{t}` is returned as solved for the transposed system: the caller gets X^T", fi, rets[0].ast)
        else:
            ctx.und("R12.7", key, f"return `{t}` not recognised", fi, rets[0].ast)


_run_c12c = run


def run(ctx):  # noqa: F811
    _run_c12c(ctx)
    r12_6(ctx, ctx.model)
    r12_7(ctx, ctx.model)


# ---------------------------------------------------------------------------------------------------------------- R12.8 / R12.9
def r12_8(ctx, m):
    """VariableCovarianceGaussian: expected pull-back of the (documented local) transformation equals the metric, real and complex"""
    R = "R12.8"
    ctx.rule(R, "VariableCovarianceGaussian: with data d ~ N(m, 1/s^2) (complex: both components, E|d-m|^2 = (1+c)/s^2), the data "
                "average of J^T J of `transformation` (symbolic Jacobian w.r.t. (mean, std_inv)) equals the coefficients of `metric` "
                "in both components and has vanishing cross term, for real (c=0) and complex (c=1) data", floor=2)
    from .c03 import _load_sympy
    sp = _load_sympy()
    C = m.cls(IMPL, "VariableCovarianceGaussian", required=False)
    if sp is None or C is None:
        ctx.und(R, "VariableCovarianceGaussian::expected pull-back", "sympy or class missing", C)
        return
    ctx.saw_class(C)
    tf, mf = C.methods.get("transformation"), C.methods.get("metric")
    if tf is None or mf is None:
        ctx.und(R, f"{C.key}::expected pull-back", "transformation/metric missing", C)
        return
    # transformation has (self, primals): reuse the component extractor with a dummy third parameter check
    env = {}
    comps = None
    for st in tf.node.body:
        if isinstance(st, ast.Assign) and len(st.targets) == 1 and isinstance(st.targets[0], ast.Name):
            env[st.targets[0].id] = subst(st.value, env)
        elif isinstance(st, ast.Return):
            v = subst(st.value, env)
            if isinstance(v, ast.Call) and src(v.func) == "type(primals)" and len(v.args) == 1:
                v = v.args[0]
            comps = list(v.elts) if isinstance(v, ast.Tuple) else None
    tm = _terms_of(mf)
    pn = tf.params()[1]
    for cval in (0, 1):
        key = f"{C.key}::E_d[J^T J] of transformation == metric ({'complex' if cval else 'real'} data)"
        if comps is None or tm is None or len(comps) != 2 or len(tm[0]) != 2:
            ctx.und(R, key, "transformation/metric not a two-component closed form", C)
            continue
        try:
            syms = {"dof": sp.Symbol("dof", positive=True), "S": sp.Symbol("S", positive=True)}
            dsym = sp.Symbol("d", real=True)
            syms["self.data"] = dsym

            def tr(e):
                # self.data is a symbol of its own
                class _D(ast.NodeTransformer):
                    def visit_Attribute(self, n):
                        if src(n) == "self.data":
                            return ast.Name(id="DATA__", ctx=ast.Load())
                        return self.generic_visit(n)
                import copy
                return _D().visit(copy.deepcopy(e))
            syms["DATA__"] = dsym
            T = [_tosym(sp, tr(c), syms, cval) for c in comps]
            mS, sS = syms.get(f"{pn}[0]"), syms.get(f"{pn}[1]")
            if mS is None or sS is None:
                raise ValueError("primals components not found")
            r = sp.Symbol("r", real=True)
            J = [[sp.diff(t, v).subs(dsym, mS - r) for v in (mS, sS)] for t in T]
            V = sp.Integer(1 + cval) / sS ** 2

            def expect(e):
                e = sp.expand(e)
                p = sp.Poly(e, r)
                out = 0
                for (k,), co in p.terms():
                    mom = {0: 1, 1: 0, 2: V}.get(k)
                    if mom is None:
                        raise ValueError("moment > 2")
                    out += co * mom
                return sp.simplify(out)
            G = [[expect(sum(J[k][a] * J[k][b] for k in range(2))) for b in range(2)] for a in range(2)]
            coef = []
            for k, em in enumerate(tm[0]):
                M = _tosym(sp, em, syms, cval)
                tk = syms.get(f"{tm[2]}[{k}]")
                coef.append(sp.simplify(sp.diff(M, tk)))
            bad = []
            for a in range(2):
                if sp.simplify(G[a][a] - coef[a]) != 0:
                    bad.append(f"component {a}: expected pull-back {G[a][a]} but metric coefficient {coef[a]}")
            if sp.simplify(G[0][1]) != 0:
                bad.append(f"cross term {G[0][1]} != 0")
            ctx.check(R, key, not bad, "; ".join(bad) or f"diag(E[J^T J]) = {[str(G[0][0]), str(G[1][1])]}", C, tf.node)
        except Exception as ex:  # noqa: BLE001
            ctx.und(R, key, f"term not translated: {ex}", C)


def r12_9(ctx, m):
    """dtype-dependent coefficients are decided leaf by leaf"""
    R = "R12.9"
    ctx.rule(R, "likelihoods on pytree data: a complex-ness flag that scales per-component coefficients (self.iscomplex) is computed "
                "leaf-wise (tree_map over the data with a per-leaf dtype test), never from the joint result type - data may mix real "
                "and complex leaves", floor=1)
    impl = m.module(IMPL)
    for c in impl.classes.values():
        init = c.methods.get("__init__")
        if init is None:
            continue
        for st in walk_no_nested(init.node):
            if not (isinstance(st, ast.Assign) and len(st.targets) == 1 and src(st.targets[0]) == "self.iscomplex"):
                continue
            used = any(isinstance(z, ast.Attribute) and src(z) == "self.iscomplex" for name, fi in c.methods.items() if name != "__init__"
                       for z in ast.walk(fi.node))
            if not used:
                continue
            ctx.saw_func(init)
            v = st.value
            key = f"{c.key}.__init__::self.iscomplex decided per leaf"
            dp = init.params()[1] if len(init.params()) > 1 else "data"
            if isinstance(v, ast.Call) and call_name(v) in ("tree_map", "map") and len(v.args) == 2 and src(v.args[1]) in (dp, "self.data"):
                fn = v.args[0]
                leaf = isinstance(fn, ast.Lambda) and any(
                    (isinstance(z, ast.Attribute) and z.attr == "dtype" and isinstance(z.value, ast.Name) and z.value.id == fn.args.args[0].arg)
                    or (isinstance(z, ast.Call) and call_name(z) in ("iscomplexobj",)) for z in ast.walk(fn.body))
                ctx.check(R, key, True if leaf else None, f"`{short(v, 80)}`", init, st)
            elif any(isinstance(z, ast.Call) and call_name(z) in ("result_type", "bool", "any", "all") for z in ast.walk(v)):
                ctx.bad(R, key, f"`{short(v, 80)}` is one flag for the whole tree; real leaves of mixed data get the complex coefficients", init, st)
            else:
                ctx.und(R, key, f"`{short(v, 80)}` not recognised", init, st)


_run_c12d = run


def run(ctx):  # noqa: F811
    _run_c12d(ctx)
    r12_8(ctx, ctx.model)
    r12_9(ctx, ctx.model)


# ---------------------------------------------------------------------------------------------------------------- R12.10
def r12_10(ctx, m):
    """derivative rule of the symmetric matrix square root (enters the ND variable-covariance transformation)"""
    R = "R12.10"
    ctx.rule(R, "tree_math.util._sqrtm_jvp (Daleckii-Krein): the tangent is rotated into the eigenbasis (U.T @ dM @ U), divided "
                "entry-wise by the first divided difference denominator sqrt(v_i) + sqrt(v_j) - symmetric in both eigen indices - and "
                "rotated back (U @ . @ U.T); the primal output is the same expression as in _sqrtm", floor=3)
    mod = m.module("nifty.re.tree_math.util")
    fi = next((f for f in mod.all_functions if f.name == "_sqrtm_jvp"), None)
    pf = next((f for f in mod.all_functions if f.name == "_sqrtm"), None)
    if fi is None or pf is None:
        ctx.und(R, "nifty.re.tree_math.util::_sqrtm_jvp", "custom derivative rule not found (sqrtm differentiated by jax itself?)", mod)
        return
    ctx.saw_func(fi)

    def is_new(e):
        return (isinstance(e, ast.Constant) and e.value is None) or src(e) in ("jnp.newaxis", "np.newaxis")

    def is_full(e):
        return isinstance(e, ast.Slice) and e.lower is None and e.upper is None and e.step is None

    def axis_of(sub):
        """0 if X[:, None] (varies along rows), 1 if X[None, :]"""
        if isinstance(sub, ast.Subscript) and isinstance(sub.slice, ast.Tuple) and len(sub.slice.elts) == 2:
            a, b = sub.slice.elts
            if is_full(a) and is_new(b):
                return 0
            if is_new(a) and is_full(b):
                return 1
        return None
    divs = [n for n in walk_no_nested(fi.node) if isinstance(n, ast.BinOp) and isinstance(n.op, ast.Div) and isinstance(n.left, ast.Name)]
    key = f"{fi.key}::divisor is sqrt(v_i) + sqrt(v_j)"
    if len(divs) != 1:
        ctx.und(R, key, f"{len(divs)} divisions of a tangent found", fi)
    else:
        D = divs[0].right
        subs = [z for z in ast.walk(D) if axis_of(z) is not None]
        names = {src(z.value) for z in subs}
        axes = sorted(axis_of(z) for z in subs)
        sq = False
        for st in walk_no_nested(fi.node):
            if isinstance(st, ast.Assign) and len(st.targets) == 1 and src(st.targets[0]) in names:
                sq = isinstance(st.value, ast.Call) and call_name(st.value) == "sqrt"
        if isinstance(D, ast.BinOp) and isinstance(D.op, ast.Add) and axis_of(D.left) is not None and axis_of(D.right) is not None \
                and len(names) == 1 and axes == [0, 1]:
            ctx.check(R, key, True if sq else None, f"`{src(D)}`" + ("" if sq else "; operand is not a square root of the eigenvalues"), fi, divs[0])
        elif subs and len(names) == 1 and axes in ([0], [1], [0, 0], [1, 1]):
            ctx.bad(R, key, f"`{src(D)}` depends on one eigen index only: right on the diagonal of the eigenbasis, wrong off it "
                            "(non-commuting tangents)", fi, divs[0])
        else:
            ctx.und(R, key, f"`{src(D)}` not recognised", fi, divs[0])
    _jvp_frame(ctx, R, fi, pf, divs[0].left.id if len(divs) == 1 else fi.params()[1])
    lf = next((f for f in mod.all_functions if f.name == "_logm_jvp"), None)
    lp = next((f for f in mod.all_functions if f.name == "_logm"), None)
    if lf is not None and lp is not None:
        ctx.saw_func(lf)
        _jvp_frame(ctx, R, lf, lp, lf.params()[1])
        # divided differences of log: symmetric use of both eigen indices
        key = f"{lf.key}::divided difference uses both eigen indices"
        ax = set()
        for z in ast.walk(lf.node):
            if isinstance(z, ast.Subscript) and isinstance(z.slice, ast.Tuple) and len(z.slice.elts) == 2:
                a, b = z.slice.elts
                if is_full(a) and is_new(b):
                    ax.add(0)
                elif is_new(a) and is_full(b):
                    ax.add(1)
        ctx.check(R, key, ax == {0, 1}, f"eigenvalue broadcast axes used: {sorted(ax)}", lf)


def _jvp_frame(ctx, R, fi, pf, tn):
    rot_in = [st for st in walk_no_nested(fi.node) if isinstance(st, ast.Assign) and tn and src(st.targets[0]) == tn
              and isinstance(st.value, ast.BinOp) and isinstance(st.value.op, ast.MatMult)]
    key = f"{fi.key}::tangent rotated into the eigenbasis and back"
    rets = [r for r in walk_no_nested(fi.node) if isinstance(r, ast.Return) and isinstance(r.value, ast.Tuple) and len(r.value.elts) == 2]
    if not rot_in or not rets:
        ctx.und(R, key, "rotation statements not found", fi)
    else:
        t_in = src(rot_in[-1].value).replace(" ", "")
        t_out = src(rets[0].value.elts[1]).replace(" ", "")
        import re as _re
        mi = _re.fullmatch(r"(\w+)\.T@%s@(\w+)" % tn, t_in)
        mo = _re.fullmatch(r"(\w+)@\w+@(\w+)\.T", t_out)
        ok = bool(mi and mo and mi.group(1) == mi.group(2) == mo.group(1) == mo.group(2))
        swapped = bool(_re.fullmatch(r"(\w+)@%s@(\w+)\.T" % tn, t_in) or _re.fullmatch(r"(\w+)\.T@\w+@(\w+)", t_out))
        ctx.check(R, key, True if ok else (False if swapped else None), f"in: `{t_in}`, out: `{t_out}`", fi, rot_in[-1])
        key = f"{fi.key}::primal output is the primal function's expression"
        pr = [r for r in walk_no_nested(pf.node) if isinstance(r, ast.Return)]

        def inl(fn, e):
            env = {}
            for st in walk_no_nested(fn.node):
                if isinstance(st, ast.Assign) and len(st.targets) == 1 and isinstance(st.targets[0], ast.Name) and st.targets[0].id != tn:
                    env[st.targets[0].id] = subst(st.value, env)
            return src(subst(e, env))
        a_, b_ = inl(fi, rets[0].value.elts[0]), (inl(pf, pr[0].value) if len(pr) == 1 else None)
        ctx.check(R, key, (a_ == b_) if b_ is not None else None, f"jvp returns `{a_}`, {pf.name} returns `{b_}`", fi, rets[0])



_run_c12e = run


def run(ctx):  # noqa: F811
    _run_c12e(ctx)
    r12_10(ctx, ctx.model)


# ---------------------------------------------------------------------------------------------------------------- R12.11
def r12_11(ctx, m):
    """independent data entries: metric and square roots are block-diagonal over them - no tree-wide reduction outside the energy"""
    R = "R12.11"
    ctx.rule(R, "likelihood implementations: the energy is a sum over independent data entries (rows / leaves), so metric, "
                "left/right square root, transformation and normalised residual act entry-wise (block-wise along an explicit axis): "
                "they contain no tree-wide reduction (tree_math sum / vdot / norm, jnp.sum without axis) - such a reduction couples "
                "rows of batched data and leaves of pytree data", floor=12)
    impl = m.module(IMPL)
    base = m.cls("nifty.re.likelihood", "Likelihood")
    full = {"sum", "vdot", "dot", "norm"}
    for c in impl.classes.values():
        if base not in m.mro(c) or c is base:
            continue
        for name in ("metric", "left_sqrt_metric", "right_sqrt_metric", "transformation", "normalized_residual"):
            fi = c.methods.get(name)
            if fi is None:
                continue
            ctx.saw_func(fi)
            bad = []
            for z in ast.walk(fi.node):
                if not isinstance(z, ast.Call):
                    continue
                if isinstance(z.func, ast.Name) and z.func.id in full and impl.imports.get(z.func.id, "").startswith("nifty.re.tree_math"):
                    bad.append(src(z))
                elif src(z.func) in ("jnp.sum", "np.sum", "jnp.mean", "np.mean") and not any(k.arg == "axis" for k in z.keywords) and len(z.args) < 2:
                    bad.append(src(z))
            ctx.check(R, f"{fi.key}::no tree-wide reduction", not bad, f"{[b[:60] for b in bad]}" if bad else "", fi)


_run_c12f = run


def run(ctx):  # noqa: F811
    _run_c12f(ctx)
    r12_11(ctx, ctx.model)


# ---------------------------------------------------------------------------------------------------------------- R12.12
def r12_12(ctx, m):
    """matrix functions through eigh: jax's eigh derivative divides by eigenvalue differences"""
    R = "R12.12"
    ctx.rule(R, "tree_math.util: every matrix function evaluated through jnp.linalg.eigh and differentiated by the likelihoods "
                "(sqrtm, logm enter NDVariableCovarianceGaussian.transformation, whose Jacobian is the pull-back) carries a custom "
                "derivative rule (jax.custom_jvp + defjvp) - jax's own eigh derivative is NaN at repeated eigenvalues, e.g. at the "
                "identity matrix", floor=1)
    mod = m.module("nifty.re.tree_math.util")
    rules = set()
    for fi in mod.all_functions:
        for d in fi.node.decorator_list:
            if isinstance(d, ast.Attribute) and d.attr in ("defjvp", "defvjp") and isinstance(d.value, ast.Name):
                rules.add(d.value.id)
    for st in ast.walk(mod.tree):
        if isinstance(st, ast.Call) and isinstance(st.func, ast.Attribute) and st.func.attr in ("defjvp", "defvjp") and isinstance(st.func.value, ast.Name):
            rules.add(st.func.value.id)
    n = 0
    for fi in mod.all_functions:
        if fi.parent is not None:
            continue
        if not any(isinstance(z, ast.Call) and src(z.func).endswith("linalg.eigh") for z in walk_no_nested(fi.node)):
            continue
        if any(isinstance(d, ast.Attribute) and d.attr in ("defjvp", "defvjp") for d in fi.node.decorator_list):
            continue  # the derivative rule itself
        n += 1
        ctx.saw_func(fi)
        custom = any(src(d) in ("jax.custom_jvp", "custom_jvp", "jax.custom_vjp", "custom_vjp") for d in fi.node.decorator_list)
        ctx.check(R, f"{fi.key}::eigh-based matrix function has a custom derivative rule", custom and fi.name in rules,
                  "differentiated through jnp.linalg.eigh: derivative is NaN where two eigenvalues coincide", fi)
    if not n:
        ctx.und(R, "nifty.re.tree_math.util::eigh-based matrix functions", "none found", mod)


_run_c12g = run


def run(ctx):  # noqa: F811
    _run_c12g(ctx)
    r12_12(ctx, ctx.model)


# ---------------------------------------------------------------------------------------------------------------- R12.13
def r12_13(ctx, m):
    R = "R12.13"
    ctx.rule(R, "likelihood_impl._get_cov_inv_and_std_inv: an argument the function itself tests with callable(...) (scalars and arrays "
                "are accepted and wrapped) is never CALLED on a path where that test has not been made - contradiction rule: the "
                "non-callable form is handled in one branch and called in another", floor=1)
    fi = m.func(IMPL, "_get_cov_inv_and_std_inv", required=False)
    if fi is None:
        ctx.und(R, f"{IMPL}::_get_cov_inv_and_std_inv", "function missing", IMPL)
        return
    ctx.saw_func(fi)
    from ..util import cfg_of, find_nodes, known_atoms
    cfg = cfg_of(fi)
    tested = {src(c.args[0]) for c in ast.walk(fi.node) if isinstance(c, ast.Call) and src(c.func) == "callable" and c.args and isinstance(c.args[0], ast.Name)
              and c.args[0].id in fi.params()}
    # aliases: name = <param> if ... else ...   /   name = <param>
    alias = {}
    for st in walk_no_nested(fi.node):
        if isinstance(st, ast.Assign) and len(st.targets) == 1 and isinstance(st.targets[0], ast.Name):
            v = st.value
            none_test = isinstance(v, ast.IfExp) and isinstance(v.test, ast.Compare) and isinstance(v.test.ops[0], (ast.Is, ast.IsNot)) \
                and isinstance(v.test.comparators[0], ast.Constant) and v.test.comparators[0].value is None
            srcs = [v] if isinstance(v, ast.Name) else ([v.body, v.orelse] if none_test else [])
            if any(isinstance(z, ast.Name) and z.id in tested for z in srcs):
                alias[st.targets[0].id] = st
    names = tested | set(alias)
    dom = cfg.dominators()
    n = 0
    for node, c in find_nodes(cfg, lambda q: isinstance(q, ast.Call) and isinstance(q.func, ast.Name) and q.func.id in names):
        n += 1
        x = c.func.id
        atoms = known_atoms(cfg, node.id)
        ok = any(pol and src(t) == f"callable({x})" for t, pol in atoms) or any((not pol) and src(t) == f"callable({x})" and False for t, pol in atoms)
        if not ok:
            # idiom: `if not callable(x): x = <wrapper>` dominating the call
            for d in dom.get(node.id, ()):
                a = cfg.nodes[d].ast
                if cfg.nodes[d].kind == "test" and src(a).replace(" ", "") in (f"notcallable({x})",):
                    ifs = [st for st in walk_no_nested(fi.node) if isinstance(st, ast.If) and st.test is a]
                    if ifs and any(isinstance(b, ast.Assign) and src(b.targets[0]) == x for b in ifs[0].body) and not ifs[0].orelse:
                        ok = True
        ctx.check(R, f"{fi.key}::`{short(c, 40)}` is called only when it is callable", ok,
                  "" if ok else f"`{x}` may be the documented non-callable form here (it is tested with callable() elsewhere in the function)", fi, c)
    if not n:
        ctx.und(R, f"{fi.key}::calls of optional callables", "none found", fi)


_run_c12h = run


def run(ctx):  # noqa: F811
    _run_c12h(ctx)
    r12_13(ctx, ctx.model)


# --------------------------------------------------------------------------------------------------------------- R12.14
def r12_14(ctx, m):
    R = "R12.14"
    ctx.rule(R, "tree_math.util._check (the test `eigenvalue > cut` behind solve/sqrtm/log-determinant of NDVariableCovarianceGaussian): "
                "the cut-off is an ABSOLUTE threshold, so it may only guard the division against exact singularity - a numeric constant "
                "not above float64 machine epsilon - or be scaled by the spectrum itself; a bare machine epsilon of the dtype "
                "(`finfo(...).eps`, a RELATIVE quantity, 1.2e-7 in single precision) or a larger constant declares valid small-variance "
                "covariances singular and the metric 0 instead of the Fisher information", floor=1)
    mod = m.module("nifty.re.tree_math.util")
    fi = next((f for f in mod.all_functions if f.name == "_check"), None)
    if fi is None:
        ctx.und(R, "nifty.re.tree_math.util::_check", "function missing", mod.relpath)
        return
    ctx.saw_func(fi)
    a = fi.node.args
    params = [x.arg for x in a.args]
    defaults = dict(zip(params[len(params) - len(a.defaults):], a.defaults))
    cmps = [c for c in ast.walk(fi.node) if isinstance(c, ast.Compare) and len(c.ops) == 1 and isinstance(c.ops[0], (ast.Gt, ast.GtE, ast.Lt, ast.LtE))]
    key = f"{fi.key}::absolute eigenvalue cut-off"
    if len(cmps) != 1 or not params:
        ctx.und(R, key, f"{len(cmps)} comparisons", fi)
        return
    c = cmps[0]
    v = params[0]
    thr = c.comparators[0] if src(c.left) == v else c.left
    # every expression that may flow into the threshold: defaults and local (re)bindings of the names it mentions
    exprs, seen, todo = [], set(), [thr]
    while todo:
        e = todo.pop()
        exprs.append(e)
        for n in ast.walk(e):
            if isinstance(n, ast.Name) and n.id not in seen and n.id != v:
                seen.add(n.id)
                if n.id in defaults:
                    todo.append(defaults[n.id])
                for st in walk_no_nested(fi.node):
                    if isinstance(st, ast.Assign) and any(src(t) == n.id for t in st.targets):
                        todo.append(st.value)
    bad, und = None, None
    for e in exprs:
        for n in ast.walk(e):
            if isinstance(n, ast.Attribute) and n.attr in ("eps", "resolution", "epsneg"):
                # scaled by a spectrum quantity (max/abs/norm of v)?
                scaled = any(isinstance(z, ast.Call) and v in {q.id for q in ast.walk(z) if isinstance(q, ast.Name)}
                             and call_name(z) in ("max", "amax", "abs", "norm", "trace") for e2 in exprs for z in ast.walk(e2))
                if not scaled:
                    bad = f"`{src(e)}`: a machine epsilon used as an absolute threshold on eigenvalues (not scaled by the spectrum)"
            if isinstance(n, ast.Constant) and isinstance(n.value, (int, float)) and not isinstance(n.value, bool):
                if isinstance(e, ast.Constant) and abs(n.value) > 2.3e-16:
                    bad = f"constant cut-off {n.value!r} is above float64 machine epsilon: eigenvalues below it are valid variances"
    consts = [e for e in exprs if isinstance(e, ast.Constant) and isinstance(e.value, (int, float))]
    if bad is None and not consts and not any(isinstance(n, ast.Attribute) for e in exprs for n in ast.walk(e)):
        und = f"threshold `{src(thr)}` not traced to a constant"
    if und:
        ctx.und(R, key, und, fi, c)
    else:
        ctx.check(R, key, bad is None, bad or f"`{src(c)}` with {', '.join(f'{k}={src(d)}' for k, d in defaults.items())}", fi, c)


_run_c12i = run


def run(ctx):  # noqa: F811
    _run_c12i(ctx)
    r12_14(ctx, ctx.model)
