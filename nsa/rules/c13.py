"""C13 - Gaussian sampling from covariance operators: refusal (F-GUARD) and inverse bookkeeping (F-MODE)."""
import ast

from ..model import src, short, walk_no_nested, call_name, is_self_attr
from ..modespec import Spec
from ..util import cfg_of, find_nodes, known_atoms

OPS = "nifty.cl.operators."


def _raises_under(cfg, test_pred):
    """test nodes matching pred whose true edge leads (without further branching) to a raise"""
    out = []
    for n in cfg.nodes:
        if n.kind == "test" and test_pred(src(n.ast)):
            for b, label in cfg.succ[n.id]:
                if label == "T":
                    r = cfg.reachable(b, include_exc=True)
                    if cfg.raise_exit.id in r and cfg.exit.id not in cfg.reachable(b, include_exc=False):
                        out.append(n)
    return out


def run(ctx):
    m = ctx.model
    S = m.cls(OPS + "scaling_operator", "ScalingOperator")
    D = m.cls(OPS + "diagonal_operator", "DiagonalOperator")
    B = m.cls(OPS + "block_diagonal_operator", "BlockDiagonalOperator")
    SU = m.cls(OPS + "sum_operator", "SumOperator")
    SW = m.cls(OPS + "sandwich_operator", "SandwichOperator")
    SE = m.cls(OPS + "sampling_enabler", "SamplingEnabler")
    A = m.cls(OPS + "operator_adapter", "OperatorAdapter")
    for c in (S, D, B, SU, SW, SE, A):
        ctx.saw_class(c)
    ctx.rule("R13.1", "refusal: operators that draw white noise themselves raise unless a sampling dtype is set and the factor / "
                      "diagonal is positive (checked before the square root); sums refuse to sample from the inverse; sandwiches "
                      "only do so when the bun advertises INVERSE_TIMES", floor=8)
    # Scaling / Diagonal: dtype None -> raise dominates the draw
    for cls, drawcall in ((S, "from_random"), (D, "from_random")):
        ds = cls.methods["draw_sample"]
        ctx.saw_func(ds)
        cfg = cfg_of(ds)
        draws = [n for n, c in find_nodes(cfg, lambda q: isinstance(q, ast.Call) and call_name(q) == drawcall)]
        guards_ = _raises_under(cfg, lambda s: s == "self._dtype is None")
        dom = cfg.dominators()
        ctx.check("R13.1", f"{ds.key}::raises without a sampling dtype before drawing",
                  bool(draws) and bool(guards_) and all(guards_[0].id in dom[d.id] for d in draws), None, ds)
    gf = S.methods["_get_fct"]
    ctx.saw_func(gf)
    cfg = cfg_of(gf)
    fi_ = gf.params()[1]
    pos = _raises_under(cfg, lambda s: "imag != 0" in s and "real < 0" in s and f"real == 0.0 and {fi_}" in s.replace("(", "").replace(")", ""))
    rets = [n for n in cfg.nodes if n.kind == "stmt" and isinstance(n.ast, ast.Return)]
    dom = cfg.dominators()
    ctx.check("R13.1", f"{gf.key}::positivity test (complex, negative, zero-for-inverse) precedes the square root",
              bool(pos) and all(pos[0].id in dom[r.id] for r in rets), None, gf)
    sds = S.methods["draw_sample"]
    ctx.check("R13.1", f"{sds.key}::standard deviation comes from _get_fct(from_inverse)",
              f"std=self._get_fct({sds.params()[1]})" in src(sds.node), None, sds)
    ps = D.methods["process_sample"]
    ctx.saw_func(ps)
    cfg = cfg_of(ps)
    pos = _raises_under(cfg, lambda s: "self._complex" in s and "self._diagmin < 0.0" in s and "self._diagmin == 0.0 and from_inverse2" in s)
    sq = [n for n, c in find_nodes(cfg, lambda q: isinstance(q, ast.Call) and call_name(q) == "sqrt")]
    dom = cfg.dominators()
    ctx.check("R13.1", f"{ps.key}::positivity test precedes the square root", bool(pos) and bool(sq) and all(pos[0].id in dom[s_.id] for s_ in sq), None, ps)
    dds = D.methods["draw_sample"]
    from ..terms import inline_at
    dcfg = cfg_of(dds)
    drd = dcfg.reaching_defs(dds.params())
    rr = [n for n in dcfg.nodes if n.kind == "stmt" and isinstance(n.ast, ast.Return)]
    e = inline_at(dcfg, drd, rr[-1].id, rr[-1].ast.value, depth=3) if rr else None
    okk = isinstance(e, ast.Call) and src(e.func) == "self.process_sample" and len(e.args) == 2 and src(e.args[1]) == dds.params()[1] \
        and isinstance(e.args[0], ast.Call) and call_name(e.args[0]) == "from_random"
    ctx.check("R13.1", f"{dds.key}::white noise is shaped by process_sample(<white noise>, from_inverse)", okk, src(e) if e is not None else None, dds)
    bds = B.methods["draw_sample"]
    ctx.saw_func(bds)
    cfg = cfg_of(bds)
    draws = [n for n, c in find_nodes(cfg, lambda q: isinstance(q, ast.Call) and call_name(q) == "from_random")]
    g = _raises_under(cfg, lambda s: "self._dtype is None" in s and ("not in self._dtype" in s or "self._dtype.get(" in s or "self._dtype[" in s))
    dom = cfg.dominators()
    ctx.check("R13.1", f"{bds.key}::identity blocks raise without a dtype before drawing", bool(draws) and bool(g) and all(g[0].id in dom[d.id] for d in draws), None, bds)
    sus = SU.methods["draw_sample"]
    ctx.saw_func(sus)
    cfg = cfg_of(sus)
    fin = sus.params()[1]
    g = _raises_under(cfg, lambda s: s == fin)
    draws = [n for n, c in find_nodes(cfg, lambda q: isinstance(q, ast.Call) and call_name(q) == "draw_sample")]
    dom = cfg.dominators()
    ctx.check("R13.1", f"{sus.key}::refuses to sample from the inverse of a sum", bool(g) and bool(draws) and all(g[0].id in dom[d.id] for d in draws), None, sus)
    sws = SW.methods["draw_sample"]
    ctx.saw_func(sws)
    cfg = cfg_of(sws)
    fin = sws.params()[1]
    inv_rets = [n for n in cfg.nodes if n.kind == "stmt" and isinstance(n.ast, ast.Return)
                and any(src(t) == fin and pol for t, pol in known_atoms(cfg, n.id))]
    okk = bool(inv_rets) and all(any("self._bun.capability & self._bun.INVERSE_TIMES" in src(t) and pol for t, pol in known_atoms(cfg, n.id)) for n in inv_rets)
    ctx.check("R13.1", f"{sws.key}::inverse sample only if the bun advertises INVERSE_TIMES (else raises)", okk and cfg.raise_exit.id in cfg.reachable(cfg.entry.id), None, sws)

    # ------------------------------------------------------------------ R13.2
    ctx.rule("R13.2", "inverse bookkeeping: adapters flip from_inverse exactly for transformations with the inverse bit; the diagonal "
                      "divides by sqrt(diag) iff from_inverse XOR (stored trafo >= 2); scaling uses 1/sqrt(f) iff from_inverse; "
                      "sandwich forward samples are bun^H(cheese sample), inverse samples bun^-1(cheese inverse sample); the "
                      "sampling enabler returns the CG solution", floor=14)
    ads = A.methods["draw_sample"]
    fin = ads.params()[1]
    for t in (1, 2, 3):
        sp = Spec(m, A, ads, {"self._trafo": t}).run()
        e = sp.returns[0][0] if len(sp.returns) == 1 else None
        a0 = src(e.args[0]) if isinstance(e, ast.Call) and e.args else None
        ctx.check("R13.2", f"{ads.key}::trafo {t}", e is not None and src(e.func) == "self._op.draw_sample" and a0 == (f"not {fin}" if t & 2 else fin), src(e) if e is not None else None, ads)
    fin = ps.params()[2]
    sn = ps.params()[1]
    for t in range(4):
        for b in (False, True):
            sp = Spec(m, D, ps, {"self._trafo": t, fin: b}).run()
            div = b ^ (t >= 2)
            from ..terms import canon
            vals = [canon(e) for e, a, st in sp.returns]
            want = canon(f"Field(self._domain, {sn}.val / np.sqrt(self._ldiag))" if div else f"Field(self._domain, {sn}.val * np.sqrt(self._ldiag))")
            ctx.check("R13.2", f"{ps.key}::stored trafo {t}, from_inverse={b}: {'divide' if div else 'multiply'} by sqrt(diag)",
                      vals == [want], str(vals), ps)
    for b in (False, True):
        sp = Spec(m, S, gf, {gf.params()[1]: b}).run()
        vals = [src(e) for e, a, st in sp.returns]
        want = "1.0 / np.sqrt(self._factor)" if b else "np.sqrt(self._factor)"
        ctx.check("R13.2", f"{gf.key}::from_inverse={b}", vals == [want], str(vals), gf)
    fin = sws.params()[1]
    dv = sws.params()[2]
    spf = Spec(m, SW, sws, {fin: False}).run()
    vals = [src(e) for e, a, st in spf.returns]
    ctx.check("R13.2", f"{sws.key}::forward sample = bun^H(cheese sample)", vals == [f"self._bun.adjoint_times(self._cheese.draw_sample(False, {dv}))"], str(vals), sws)
    spi = Spec(m, SW, sws, {fin: True}).run()
    vals = [src(e) for e, a, st in spi.returns]
    ctx.check("R13.2", f"{sws.key}::inverse sample = bun^-1(cheese inverse sample)",
              vals == [f"self._bun.inverse_times(self._cheese.draw_sample(True, {dv}))"], str(vals), sws)
    seds = SE.methods["draw_sample"]
    rr = [r for r in walk_no_nested(seds.node) if isinstance(r, ast.Return)]
    ctx.check("R13.2", f"{seds.key}::returns the second component of special_draw_sample",
              len(rr) == 1 and src(rr[0].value) == f"self.special_draw_sample({seds.params()[1]}, {seds.params()[2]})[1]", src(rr[0].value) if rr else None, seds)
    sp_ = SE.methods["special_draw_sample"]
    ctx.saw_func(sp_)
    scfg = cfg_of(sp_)
    srd = scfg.reaching_defs(sp_.params())
    rets_ = [n for n in scfg.nodes if n.kind == "stmt" and isinstance(n.ast, ast.Return)]
    direct, cg = [], []
    for r in rets_:
        e = inline_at(scfg, srd, r.id, r.ast.value, depth=8, unpack_calls=True)
        if isinstance(e, ast.Tuple) and len(e.elts) == 2:
            a, b = e.elts
            if isinstance(a, ast.Call) and src(a.func) == "self._op" and len(a.args) == 1 and src(a.args[0]) == src(b) \
                    and isinstance(b, ast.Call) and src(b.func) == "self._op.draw_sample":
                direct.append(r)
            elif isinstance(b, ast.Attribute) and b.attr == "position":
                cg.append((r, e))
    ctx.check("R13.2", f"{sp_.key}::returns (right-hand side, solution): direct draw (op(res), res) or CG result (b, energy.position)",
              len(direct) == 1 and len(cg) == 1 and len(rets_) == 2, f"{[src(r.ast.value) for r in rets_]}", sp_)
    qes = [c for c in walk_no_nested(sp_.node) if isinstance(c, ast.Call) and call_name(c) == "QuadraticEnergy" and any(k.arg == "_grad" for k in c.keywords)]
    okq = False
    det = None
    if len(qes) == 1:
        qn = [n for n in scfg.nodes if n.kind == "stmt" and any(x is qes[0] for x in ast.walk(n.ast))]
        if qn:
            q = inline_at(scfg, srd, qn[0].id, qes[0], depth=6)
            det = src(q)
            if len(q.args) == 3:
                s0, a1, b2 = q.args
                g = [k.value for k in q.keywords if k.arg == "_grad"][0]
                okq = src(a1) == "self._op" and isinstance(b2, ast.BinOp) and isinstance(b2.op, ast.Add) \
                    and src(b2.left) == f"self._prior({src(s0)})" and isinstance(g, ast.BinOp) and isinstance(g.op, ast.Sub) \
                    and src(g.left) == f"self._likelihood({src(s0)})" and src(g.right) == src(b2.right) \
                    and src(s0).startswith("self._prior.draw_sample(") and src(b2.right).startswith("self._likelihood.draw_sample(")
    ctx.check("R13.2", f"{sp_.key}::right-hand side is prior(s) + likelihood noise with the gradient hint consistent with it", okq, det, sp_)


def r13_3(ctx, m):
    """SumOperator: the covariance of a sum is the sum of covariances, so the summands' samples must be ADDED."""
    SU = m.cls(OPS + "sum_operator", "SumOperator")
    ds = SU.methods["draw_sample"]
    ctx.rule("R13.3", "SumOperator.draw_sample: the value returned is built from the summands' draw_sample results with adding "
                      "combinators only (`+`, unite, flexible_addsub without negation); an overwriting merge (union/dict update) "
                      "or a dropped summand loses covariance", floor=1)
    cfg = cfg_of(ds)
    rd = cfg.reaching_defs(ds.params())
    rets = [n for n in cfg.nodes if n.kind == "stmt" and isinstance(n.ast, ast.Return) and n.ast.value is not None]
    verdicts = []
    seen = set()
    has_draw = [False]

    def shape(e, nid):
        """True: sum of draws; False: definitely an overwriting merge; None: unknown"""
        if isinstance(e, ast.Constant) and e.value is None:
            return True
        if isinstance(e, ast.Call) and call_name(e) == "draw_sample":
            has_draw[0] = True
            return True
        if isinstance(e, ast.IfExp):
            return both(shape(e.body, nid), shape(e.orelse, nid))
        if isinstance(e, ast.BinOp) and isinstance(e.op, ast.Add):
            return both(shape(e.left, nid), shape(e.right, nid))
        if isinstance(e, ast.Call) and isinstance(e.func, ast.Attribute) and e.func.attr in ("unite", "__add__") and len(e.args) == 1:
            return both(shape(e.func.value, nid), shape(e.args[0], nid))
        if isinstance(e, ast.Call) and call_name(e) == "flexible_addsub" and len(e.args) == 3 and src(e.args[2]) == "False":
            return both(shape(e.args[0], nid), shape(e.args[1], nid))
        if isinstance(e, ast.Call) and call_name(e) in ("union", "update"):
            return False
        if isinstance(e, ast.Name):
            defs = (rd.get(nid) or {}).get(e.id)
            if not defs:
                return None
            out = True
            for d in sorted(defs):
                if (d, e.id) in seen:
                    continue
                seen.add((d, e.id))
                dn = cfg.nodes[d]
                if dn.kind == "stmt" and isinstance(dn.ast, ast.Assign) and len(dn.ast.targets) == 1 and isinstance(dn.ast.targets[0], ast.Name):
                    out = both(out, shape(dn.ast.value, d))
                elif dn.kind == "stmt" and isinstance(dn.ast, ast.AugAssign) and isinstance(dn.ast.op, ast.Add):
                    out = both(out, both(shape(ast.Name(id=e.id, ctx=ast.Load()), d), shape(dn.ast.value, d)))
                else:
                    out = both(out, None)
            return out
        return None

    def both(a, b):
        if a is False or b is False:
            return False
        if a is None or b is None:
            return None
        return True

    for r in rets:
        verdicts.append((r, shape(r.ast.value, r.id)))
    # loop-carried accumulation: a definition of the returned name inside a loop must read the name itself
    overwrite = None
    for r in rets:
        if isinstance(r.ast.value, ast.Name):
            nm = r.ast.value.id
            for lp in [x for x in walk_no_nested(ds.node) if isinstance(x, ast.For)]:
                inner = [st for st in ast.walk(lp) if isinstance(st, (ast.Assign, ast.AugAssign))
                         and any(isinstance(t, ast.Name) and t.id == nm for t in (st.targets if isinstance(st, ast.Assign) else [st.target]))]
                if inner and not any(isinstance(st, ast.AugAssign) or any(isinstance(x, ast.Name) and x.id == nm and isinstance(x.ctx, ast.Load)
                                                                           for x in ast.walk(st.value)) for st in inner):
                    overwrite = inner[0]
    key = f"{ds.key}::samples of the summands are added"
    if overwrite is not None:
        ctx.bad("R13.3", key, f"`{short(overwrite)}` overwrites the accumulated sample in every iteration: only the last summand's "
                              f"covariance survives", ds, overwrite)
        return
    if not rets:
        ctx.und("R13.3", key, "no value returned", ds)
    elif any(v is False for _, v in verdicts):
        r = [r for r, v in verdicts if v is False][0]
        ctx.bad("R13.3", key, f"`{short(r.ast)}` merges the summands' samples with an overwriting combinator", ds, r.ast)
    elif all(v is True for _, v in verdicts) and has_draw[0]:
        ctx.ok("R13.3", key, None, ds)
    else:
        ctx.und("R13.3", key, "combinator shape not recognised", ds)


_run_c13b = run


def run(ctx):  # noqa: F811
    _run_c13b(ctx)
    r13_3(ctx, ctx.model)


_run_c13c = run


def run(ctx):  # noqa: F811
    _run_c13c(ctx)
    from .c18 import sampling_enabler_assembly
    from .c11 import r11_5
    ctx.rule("R13.4", "sums sampled through numerical inversion: SamplingEnabler draws s from the INVERSE prior metric and n from the "
                      "likelihood metric, solves (L+P) x = P s + n starting at s with the matching initial gradient L s - n (or draws "
                      "the right-hand side from L+P directly and starts at 0) and returns the CG position - so x has covariance "
                      "(L+P)^-1 (exact linear normal form over L, P and the draws)", floor=5)
    sampling_enabler_assembly(ctx, ctx.model, "R13.4")
    r11_5(ctx, ctx.model, rid="R13.5")


def r13_6(ctx, m):
    SU = m.cls(OPS + "sum_operator", "SumOperator")
    ds = SU.methods["draw_sample"]
    ctx.saw_func(ds)
    ctx.rule("R13.6", "SumOperator.draw_sample refuses sums with subtracted summands: a raise under a test of self._neg precedes the "
                      "accumulation of the draws (independent draws add their covariances whatever the sign, so A - B would be "
                      "sampled as A + B)", floor=1)
    cfg = cfg_of(ds)
    raises = [n for n in cfg.nodes if n.kind == "stmt" and isinstance(n.ast, ast.Raise)
              and any(pol and "_neg" in src(t) for t, pol in known_atoms(cfg, n.id))]
    draws = [n for n in cfg.nodes if n.kind == "stmt" and n.ast is not None and any(isinstance(c, ast.Call) and call_name(c) == "draw_sample" for c in ast.walk(n.ast))]
    key = f"{ds.key}::subtracted summands are refused before anything is drawn"
    if not draws:
        ctx.und("R13.6", key, "no draw found", ds)
    elif not raises:
        ctx.bad("R13.6", key, "no refusal depending on self._neg: the draws of all summands are united regardless of their signs", ds, draws[0].ast)
    else:
        ctx.check("R13.6", key, all(raises[0].ast.lineno < d.ast.lineno for d in draws), src(raises[0].ast)[:80], ds, raises[0].ast)


_run_c13d = run


def run(ctx):  # noqa: F811
    _run_c13d(ctx)
    r13_6(ctx, ctx.model)


def r13_7(ctx, m):
    MF = m.cls("nifty.cl.multi_field", "MultiField")
    fr = MF.methods.get("from_random")
    ctx.rule("R13.7", "white noise on a multi-domain (what ScalingOperator.draw_sample draws): MultiField.from_random looks the sampling "
                      "dtype of key k up BY THAT KEY (dtype[k] next to domain[k]); pairing the sorted domain keys with the values of "
                      "the caller's dict by position gives real noise to complex keys and vice versa", floor=1)
    if fr is None:
        ctx.und("R13.7", f"{MF.key}::from_random", "missing", MF)
    else:
        ctx.saw_func(fr)
        calls = [c for c in ast.walk(fr.node) if isinstance(c, ast.Call) and src(c.func) == "Field.from_random"]
        key = f"{fr.key}::dtype of key k is dtype[k]"
        if len(calls) != 1 or len(calls[0].args) < 3:
            ctx.und("R13.7", key, f"{len(calls)} per-key draws", fr)
        else:
            c = calls[0]
            d0, dt = c.args[0], c.args[2]
            if isinstance(d0, ast.Subscript) and isinstance(dt, ast.Subscript):
                ctx.check("R13.7", key, src(d0.slice) == src(dt.slice), f"{src(d0)} drawn with {src(dt)}", fr, c)
            elif isinstance(dt, ast.Name) and any(isinstance(z, ast.Call) and src(z.func) == "zip" and any("values()" in src(a) or isinstance(a, ast.Name) for a in z.args)
                                                   for z in ast.walk(fr.node)):
                ctx.bad("R13.7", key, f"`{src(c)[:80]}`: the dtype is paired with the key by position (zip), not looked up by key", fr, c)
            else:
                ctx.und("R13.7", key, f"dtype argument `{src(dt)}` not recognised", fr, c)
    IE = m.cls(OPS + "inversion_enabler", "InversionEnabler")
    ds = IE.methods.get("draw_sample")
    ctx.rule("R13.8", "InversionEnabler.draw_sample hands the request to the wrapped operator on every path: the approximation is a "
                      "preconditioner for the numerical inverse, never a source of samples (its covariance is not the operator's)", floor=1)
    if ds is None:
        ctx.und("R13.8", f"{IE.key}::draw_sample", "missing", IE)
    else:
        ctx.saw_func(ds)
        others = [c for c in ast.walk(ds.node) if isinstance(c, ast.Call) and call_name(c) in ("draw_sample", "special_draw_sample") and src(c.func.value) != "self._op"]
        rets = [r for r in ast.walk(ds.node) if isinstance(r, ast.Return) and r.value is not None]
        okr = bool(rets) and all(isinstance(r.value, ast.Call) and src(r.value.func) == "self._op.draw_sample" and [src(a) for a in r.value.args] == ds.params()[1:3] for r in rets)
        ctx.check("R13.8", f"{ds.key}::samples come from the wrapped operator only", (not others) and okr,
                  f"`{short(others[0], 60)}` draws from another operator" if others else str([src(r.value) for r in rets]), ds, others[0] if others else None)


_run_c13e = run


def run(ctx):  # noqa: F811
    _run_c13e(ctx)
    r13_7(ctx, ctx.model)


# ---------------------------------------------------------------------------------------------------------------- R13.9
def r13_9(ctx, m):
    """identity blocks of a block-diagonal covariance: the dtype table covers every domain key and an unknown dtype is refused"""
    B = m.cls(OPS + "block_diagonal_operator", "BlockDiagonalOperator")
    ctx.rule("R13.9", "BlockDiagonalOperator: the per-key sampling dtype table is built over the keys of the domain (missing blocks "
                      "are the documented unity and the table is checked / looked up for every domain key), and draw_sample refuses "
                      "an identity block whose dtype entry is None (tests the entry's value, not only its presence) before drawing "
                      "white noise for it", floor=2)
    init = B.methods["__init__"]
    ctx.saw_func(init)
    key = f"{init.key}::dtype table keyed by the domain's keys"
    comps = [st for st in walk_no_nested(init.node) if isinstance(st, ast.Assign) and src(st.targets[0]) == "self._dtype" and isinstance(st.value, ast.DictComp)]
    if not comps:
        ctx.und("R13.9", key, "no dict comprehension assigned to self._dtype", init)
    else:
        it = src(comps[0].value.generators[0].iter)
        dn, on = init.params()[1], init.params()[2]
        if it in (f"{dn}.keys()", "self._domain.keys()", dn, "self._domain"):
            ctx.ok("R13.9", key, f"iterates `{it}`", init, comps[0])
        elif it.startswith(on):
            ctx.bad("R13.9", key, f"iterates `{it}`: keys absent from the operator dict (documented: unity) are absent from the table, "
                                  "which is then indexed with every domain key", init, comps[0])
        else:
            ctx.und("R13.9", key, f"iterates `{it}`", init, comps[0])
    ds = B.methods["draw_sample"]
    ctx.saw_func(ds)
    cfg = cfg_of(ds)
    key = f"{ds.key}::identity block with unknown dtype is refused before white noise is drawn"
    draws = [n for n, c in find_nodes(cfg, lambda q: isinstance(q, ast.Call) and call_name(q) == "from_random")]
    raises = [n for n in cfg.nodes if n.kind == "stmt" and isinstance(n.ast, ast.Raise)]
    verdict, detail = None, "no refusal found"
    from ..util import known_atoms
    for r in raises:
        atoms = [src(t) for t, p in known_atoms(cfg, r.id)]
        tests = [n for n in cfg.nodes if n.kind == "test" and any(b == r.id or r.id in cfg.reachable(b, avoid=[n.id]) for b, lab in cfg.successors(n.id) if lab == "T")]
        for t in tests:
            s = src(t.ast)
            if "self._dtype" not in s:
                continue
            value_test = any(isinstance(z, ast.Compare) and isinstance(z.ops[0], ast.Is) and isinstance(z.comparators[0], ast.Constant)
                             and z.comparators[0].value is None and ("get(" in src(z.left) or isinstance(z.left, ast.Subscript))
                             for z in ast.walk(t.ast))
            presence_only = " not in self._dtype" in s and not value_test
            detail = f"refusal under `{s}`"
            if value_test:
                verdict = True
            elif presence_only and verdict is None:
                verdict = False
                detail += ": a present entry with value None passes and the block is drawn with the default dtype"
    ctx.check("R13.9", key, verdict if draws else None, detail, ds)


_run_c13f = run


def run(ctx):  # noqa: F811
    _run_c13f(ctx)
    r13_9(ctx, ctx.model)


_run_c13g = run


def run(ctx):  # noqa: F811
    _run_c13g(ctx)
    from .refusal import refusal_rule
    refusal_rule(ctx, "R13.10", [OPS + x for x in ("scaling_operator", "diagonal_operator", "sum_operator", "sandwich_operator", "block_diagonal_operator",
                                                   "sampling_enabler", "inversion_enabler", "operator_adapter", "linear_operator", "endomorphic_operator")],
                 "the covariance operators ('operators that cannot represent a covariance refuse to sample')", floor=6)


_run_c13h = run


def run(ctx):  # noqa: F811
    _run_c13h(ctx)
    from .defassign import defassign_rule
    defassign_rule(ctx, "R13.11", [("nifty.cl.multi_field", "MultiField.from_random"), ("nifty.cl.field", "Field.from_random"),
                                   (OPS + "scaling_operator", "ScalingOperator.draw_sample"), (OPS + "diagonal_operator", "DiagonalOperator.draw_sample"),
                                   (OPS + "block_diagonal_operator", "BlockDiagonalOperator.draw_sample"), (OPS + "sum_operator", "SumOperator.draw_sample"),
                                   (OPS + "sampling_enabler", "SamplingEnabler.special_draw_sample")],
                   "the white-noise generators behind draw_sample (int and per-key dict forms of dtype / device_id)", floor=5)
