"""C14 - classic conjugate gradient: status discipline, recurrence consistency, quadratic energy value/gradient."""
import ast

from ..model import src, short, walk_no_nested, call_name, is_self_attr
from ..terms import inline_at
from ..util import cfg_of, find_nodes, known_atoms

CG = "nifty.cl.minimization.conjugate_gradient"
QE = "nifty.cl.minimization.quadratic_energy"
IE = "nifty.cl.operators.inversion_enabler"


def controller_names(fi):
    names = {"self._controller", "self.controller"}
    for st in walk_no_nested(fi.node):
        if isinstance(st, ast.Assign) and src(st.value) in ("self._controller", "self.controller"):
            for t in st.targets:
                if isinstance(t, ast.Name):
                    names.add(t.id)
    return names


def status_discipline(ctx, rule, fi, energy_name="energy", ctrl_names=None):
    """Every return of (energy, status) carries (a) the verdict the controller just gave for that very energy,
    (b) ERROR, or (c) CONVERGED under a dominating exact-zero test."""
    ctrl_names = ctrl_names or controller_names(fi)
    cfg = cfg_of(fi)
    rd = cfg.reaching_defs(fi.params())
    rets = [n for n in cfg.nodes if n.kind == "stmt" and isinstance(n.ast, ast.Return)]
    n_ret = 0
    for r in rets:
        v = r.ast.value
        if not (isinstance(v, ast.Tuple) and len(v.elts) == 2):
            ctx.und(rule, f"{fi.key}::{r.text()[:60]}", "return is not (energy, status)", fi, r.ast)
            continue
        n_ret += 1
        e, st = v.elts
        key = f"{fi.key}::return {src(v)} [{'; '.join(('' if p else 'not ') + src(t) for t, p in known_atoms(cfg, r.id)[-2:])}]"
        s = src(st)
        if s.split(".")[-1] == "ERROR":
            ctx.ok(rule, key, "ERROR", fi, r.ast)
            continue
        if s.split(".")[-1] == "CONVERGED":
            at = known_atoms(cfg, r.id)
            zero = [t for t, pol in at if pol and isinstance(t, ast.Compare) and len(t.ops) == 1 and isinstance(t.ops[0], ast.Eq)
                    and isinstance(t.comparators[0], ast.Constant) and t.comparators[0].value in (0, 0.0)]
            good = False
            why = "CONVERGED is returned without a dominating exact-zero test"
            for z in zero:
                nm = z.left
                d = inline_at(cfg, rd, r.id, nm)
                ds = src(d)
                if "s_vdot" in ds or "norm" in ds or "vdot" in ds:
                    good = True
                else:
                    why = f"zero test is on `{ds}`, not on a residual norm"
            ctx.check(rule, key, good, why, fi, r.ast)
            continue
        if isinstance(st, ast.Name):
            defs = rd[r.id].get(st.id, frozenset())
            okk = bool(defs)
            why = None
            for d in defs:
                dn = cfg.nodes[d]
                val = dn.ast.value if dn.kind == "stmt" and isinstance(dn.ast, ast.Assign) else None
                if not (isinstance(val, ast.Call) and call_name(val) in ("start", "check") and src(val.func.value) in ctrl_names):
                    okk, why = False, f"status `{st.id}` may come from `{dn.text()[:60]}`, not from the controller"
                    break
                # the energy judged is the energy returned
                arg = val.args[0] if val.args else None
                if not (isinstance(arg, ast.Name) and isinstance(e, ast.Name) and arg.id == e.id and
                        rd[d].get(arg.id) == rd[r.id].get(e.id)):
                    okk, why = False, "the energy returned is not the one the controller judged"
                    break
            ctx.check(rule, key, okk, why, fi, r.ast)
            continue
        ctx.bad(rule, key, f"status `{s}` is neither a controller verdict, ERROR, nor a guarded CONVERGED", fi, r.ast)
    return n_ret


def every_iteration_checks(ctx, rule, fi, ctrl_names=None):
    ctrl_names = ctrl_names or controller_names(fi)
    cfg = cfg_of(fi)
    loops = [n for n in cfg.nodes if n.kind == "test" and n.loop is not None]
    for L in loops:
        chk = [n.id for n, c in find_nodes(cfg, lambda q: isinstance(q, ast.Call) and call_name(q) == "check"
                                            and src(q.func.value) in ctrl_names)]
        back = L.id in cfg.reachable_after(L.id, avoid=chk, include_exc=False)
        ctx.check(rule, f"{fi.key}::every loop iteration consults controller.check", not back,
                  "an iteration can complete without asking the controller (iteration limit / convergence never noticed)", fi, L.ast,
                  witness=cfg.describe_path(cfg.path(L.id, L.id, avoid=chk, include_exc=False, after=True)))


def _lin(e, env):
    """Linear normal form {symbol: coeff} of +/- combinations; None if not linear in known symbols."""
    if isinstance(e, ast.Name):
        if e.id in env:
            return dict(env[e.id])
        return None
    if isinstance(e, ast.Attribute):
        s = src(e)
        if s in env:
            return dict(env[s])
        return None
    if isinstance(e, ast.Call):
        s = src(e)
        if s in env:
            return dict(env[s])
        return None
    if isinstance(e, ast.BinOp) and isinstance(e.op, (ast.Add, ast.Sub)):
        a, b = _lin(e.left, env), _lin(e.right, env)
        if a is None or b is None:
            return None
        sg = 1 if isinstance(e.op, ast.Add) else -1
        for k, v in b.items():
            a[k] = a.get(k, 0) + sg * v
        return {k: v for k, v in a.items() if v != 0}
    if isinstance(e, ast.UnaryOp) and isinstance(e.op, ast.USub):
        a = _lin(e.operand, env)
        return None if a is None else {k: -v for k, v in a.items()}
    return None


def run(ctx):
    m = ctx.model
    C = m.cls(CG, "ConjugateGradient")
    call = C.methods["__call__"]
    ctx.saw_class(C)
    ctx.saw_func(call)
    ctx.rule("R14.1", "status discipline of ConjugateGradient.__call__: every return carries the controller's verdict on the "
                      "returned energy, ERROR, or CONVERGED under a dominating exact-zero test of the residual norm; every "
                      "iteration consults the controller", floor=8)
    n = status_discipline(ctx, "R14.1", call)
    every_iteration_checks(ctx, "R14.1", call)

    ctx.rule("R14.2", "recurrence consistency: the gradient handed to at_with_grad is r - alpha*A(d) for the very step "
                      "x - alpha*d taken; InversionEnabler solves op^-1 via QuadraticEnergy(x0, flipped op, x) and returns the "
                      "CG position", floor=4)
    cfg = cfg_of(call)
    rd = cfg.reaching_defs(call.params())
    awg = [(n_, c) for n_, c in find_nodes(cfg, lambda q: isinstance(q, ast.Call) and call_name(q) == "at_with_grad")]
    if len(awg) != 1:
        ctx.und("R14.2", f"{call.key}::at_with_grad", f"{len(awg)} call sites", call)
    else:
        n_, c = awg[0]

        def one_def(name):
            ds = rd[n_.id].get(name, frozenset())
            if len(ds) == 1:
                dn = cfg.nodes[next(iter(ds))]
                if dn.kind == "stmt" and isinstance(dn.ast, ast.Assign):
                    return dn.ast.value
            return None
        P = c.args[0]
        R = c.args[1]
        if isinstance(P, ast.Name):
            P = one_def(P.id) or P
        rname = R.id if isinstance(R, ast.Name) else None
        if rname:
            R = one_def(rname) or R

        def split(e, base_ok):
            if isinstance(e, ast.BinOp) and isinstance(e.op, (ast.Add, ast.Sub)) and base_ok(e.left) \
                    and isinstance(e.right, ast.BinOp) and isinstance(e.right.op, ast.Mult) \
                    and isinstance(e.right.left, ast.Name) and isinstance(e.right.right, ast.Name):
                return (1 if isinstance(e.op, ast.Add) else -1), {e.right.left.id, e.right.right.id}
            return None, None
        ename = call.params()[1]
        sp, fp = split(P, lambda b: src(b) == f"{ename}.position")
        sr, fr = split(R, lambda b: isinstance(b, ast.Name) and b.id == rname)
        key = f"{call.key}::at_with_grad(x -/+ alpha*d, r -/+ alpha*A d) signs and factors agree"
        if sp is None or sr is None:
            ctx.und("R14.2", key, f"position `{src(P)}`, gradient `{src(R)}`", call, c)
        else:
            common = fp & fr          # the step length
            dn_ = fp - common         # the direction
            qn_ = fr - common         # A applied to the direction
            okk = len(common) == 1 and len(dn_) == 1 and len(qn_) == 1
            qdef = one_def(next(iter(qn_))) if okk else None
            q_ok = qdef is not None and src(qdef) == f"{ename}.apply_metric({next(iter(dn_))})" if okk else False
            ctx.check("R14.2", key, okk and sp == sr and q_ok,
                      f"position `{src(P)}`, gradient `{src(R)}`, A d = `{src(qdef) if qdef is not None else None}`", call, c)
            if okk:
                adef = one_def(next(iter(common)))
                good = isinstance(adef, ast.BinOp) and isinstance(adef.op, ast.Div)
                if good:
                    num, den = one_def(src(adef.left)) if isinstance(adef.left, ast.Name) else None, \
                        one_def(src(adef.right)) if isinstance(adef.right, ast.Name) else None
                    dtxt = src(den) if den is not None else ""
                    good = den is not None and f"{next(iter(dn_))}.s_vdot({next(iter(qn_))})" in dtxt
                ctx.check("R14.2", f"{call.key}::alpha = <r, P r> / <d, A d>", good, src(adef) if adef is not None else None, call)
    # after the gradient has been recomputed from scratch (energy.at without a gradient hint) the recurrence residual is re-read
    plain_at = [(n_, c_) for n_, c_ in find_nodes(cfg, lambda q: isinstance(q, ast.Call) and call_name(q) == "at" and isinstance(q.func, ast.Attribute)
                                                    and src(q.func.value) == call.params()[1])]
    key = f"{call.key}::periodic recomputation re-synchronises the recurrence residual with energy.gradient"
    if len(plain_at) != 1 or len(awg) != 1:
        ctx.und("R14.2", key, f"{len(plain_at)} energy.at(...) sites", call)
    else:
        an, ac = plain_at[0]
        rname_ = awg[0][1].args[1].id if isinstance(awg[0][1].args[1], ast.Name) else None
        # first use of the residual name after the recomputation: its reaching definitions coming through this branch
        uses = [n for n in cfg.nodes if n.id in cfg.reachable_after(an.id, avoid=[x.id for x in cfg.nodes if x.kind == "test" and x.loop is not None])
                and any(u.id == rname_ for u in cfg.node_uses(n))]
        okk = None
        if rname_ and uses:
            okk = True
            first = min(uses, key=lambda n: n.lineno)
            # definitions reaching `first` along paths through the recomputation node
            sync = [n for n in cfg.nodes if n.kind == "stmt" and isinstance(n.ast, ast.Assign) and src(n.ast.targets[0]) == rname_
                    and src(n.ast.value) == f"{call.params()[1]}.gradient"]
            # every path from the recomputation to the first use must pass a re-synchronisation
            okk = bool(sync) and first.id not in cfg.reachable_after(an.id, avoid=[x.id for x in sync], include_exc=False)
        ctx.check("R14.2", key, okk, "after energy.at(...) recomputed A x - b, convergence is still judged on the recursively updated "
                  "residual: the periodic correction of accumulated round-off has no effect", call, ac)
    Q = m.cls(QE, "QuadraticEnergy")
    ctx.saw_class(Q)
    awgf = Q.methods["at_with_grad"]
    atf = Q.methods["at"]
    r1 = [r for r in walk_no_nested(awgf.node) if isinstance(r, ast.Return)]
    r2 = [r for r in walk_no_nested(atf.node) if isinstance(r, ast.Return)]
    p = awgf.params()
    ctx.check("R14.2", f"{awgf.key}::forwards the supplied gradient", len(r1) == 1 and
              src(r1[0].value) == f"QuadraticEnergy({p[1]}, self._A, self._b, {p[2]})", src(r1[0].value) if r1 else None, awgf)
    ctx.check("R14.2", f"{atf.key}::recomputes the gradient", len(r2) == 1 and
              src(r2[0].value) == f"QuadraticEnergy({atf.params()[1]}, self._A, self._b)", src(r2[0].value) if r2 else None, atf)
    # InversionEnabler
    IEc = m.cls(IE, "InversionEnabler")
    ap = IEc.methods["apply"]
    ctx.saw_func(ap)
    acfg = cfg_of(ap)
    ard = acfg.reaching_defs(ap.params())
    rets = [n_ for n_ in acfg.nodes if n_.kind == "stmt" and isinstance(n_.ast, ast.Return)]
    last = rets[-1]
    e = inline_at(acfg, ard, last.id, last.ast.value, depth=1)
    qe = [c for c in walk_no_nested(ap.node) if isinstance(c, ast.Call) and call_name(c) == "QuadraticEnergy"]
    okq = len(qe) == 1 and len(qe[0].args) == 3 and src(qe[0].args[2]) == ap.params()[1]
    ctx.check("R14.2", f"{ap.key}::solves A r = x (QuadraticEnergy(x0, A, x)) and returns the CG position",
              okq and src(last.ast.value).endswith(".position"), f"{short(qe[0]) if qe else None}; returns {src(last.ast.value)}", ap)

    r14_4(ctx)
    ctx.rule("R14.3", "QuadraticEnergy: in both constructor branches Ax - gradient == b (0 without b), the value is "
                      "0.5*Re<x,Ax> - Re<b,x> with the same Ax", floor=5)
    init = Q.methods["__init__"]
    ctx.saw_func(init)
    pos, A, b, g = init.params()[1:5]
    # the local that holds A x: the argument of s_vdot in the value assignment
    axname = None
    for st in walk_no_nested(init.node):
        if isinstance(st, ast.Assign) and any(is_self_attr(t, "_value") for t in st.targets):
            for c_ in ast.walk(st.value):
                if isinstance(c_, ast.Call) and call_name(c_) == "s_vdot" and c_.args and isinstance(c_.args[0], ast.Name):
                    axname = c_.args[0].id
    for grad_given in (True, False):
        for b_given in (True, False):
            env = {g: {"G": 1}, b: {"B": 1}, "self._b": {"B": 1}, f"self._A(self._position)": {"AX": 1}, f"self._A({pos})": {"AX": 1}}
            vals = {}

            def ev_if(e):
                while isinstance(e, ast.IfExp):
                    tt, flip = e.test, False
                    while isinstance(tt, ast.UnaryOp) and isinstance(tt.op, ast.Not):
                        tt, flip = tt.operand, not flip
                    t = src(tt)
                    yes, no = (e.orelse, e.body) if flip else (e.body, e.orelse)
                    if t == f"{b} is None":
                        e = no if b_given else yes
                    elif t == f"{b} is not None":
                        e = yes if b_given else no
                    else:
                        return None
                return e

            def walk(body):
                for st in body:
                    if isinstance(st, ast.If):
                        tt, flip = st.test, False
                        while isinstance(tt, ast.UnaryOp) and isinstance(tt.op, ast.Not):
                            tt, flip = tt.operand, not flip
                        t = src(tt)
                        yes, no = (st.orelse, st.body) if flip else (st.body, st.orelse)
                        if t == f"{g} is not None":
                            walk(yes if grad_given else no)
                        elif t == f"{g} is None":
                            walk(no if grad_given else yes)
                        elif t == f"{b} is not None":
                            walk(yes if b_given else no)
                        elif t == f"{b} is None":
                            walk(no if b_given else yes)
                    elif isinstance(st, ast.Assign) and len(st.targets) == 1:
                        tgt = src(st.targets[0])
                        if isinstance(st.targets[0], ast.Name) or tgt == "self._grad":
                            e = ev_if(st.value)
                            vals[tgt] = _lin(e, {**env, **{k: v for k, v in vals.items() if v is not None}}) if e is not None else None
            walk(init.node.body)
            key = f"{init.key}::Ax - grad == {'b' if b_given else '0'} [grad {'given' if grad_given else 'computed'}, b {'given' if b_given else 'None'}]"
            ax, gr = vals.get(axname), vals.get("self._grad")
            if ax is None or gr is None:
                ctx.und("R14.3", key, f"Ax={ax}, grad={gr}", init)
                continue
            diff = dict(ax)
            for k, v in gr.items():
                diff[k] = diff.get(k, 0) - v
            diff = {k: v for k, v in diff.items() if v != 0}
            want = {"B": 1} if b_given else {}
            ctx.check("R14.3", key, diff == want, f"Ax = {ax}, grad = {gr}, Ax - grad = {diff}", init)
    # value
    body = [st for st in init.node.body]
    vassign = [st for st in walk_no_nested(init.node) if isinstance(st, ast.Assign) and any(is_self_attr(t, "_value") for t in st.targets)]
    vaug = [st for st in walk_no_nested(init.node) if isinstance(st, ast.AugAssign) and is_self_attr(st.target, "_value")]
    from ..terms import canon
    okv = len(vassign) == 1 and axname is not None and canon(vassign[0].value) in (canon(f"0.5 * self._position.s_vdot({axname}).real"), canon(f"0.5 * {axname}.s_vdot(self._position).real"))
    ctx.check("R14.3", f"{init.key}::value starts as 0.5*Re<x, Ax>", okv, src(vassign[0].value) if vassign else None, init)
    okb = len(vaug) == 1 and isinstance(vaug[0].op, ast.Sub) and src(vaug[0].value) in (f"{b}.s_vdot(self._position).real", f"self._position.s_vdot({b}).real")
    ctx.check("R14.3", f"{init.key}::value subtracts Re<b, x> when b is given", okb, src(vaug[0]) if vaug else None, init)


IC = "nifty.cl.minimization.iteration_controllers"


def r14_4(ctx):
    """start() re-initialises the per-run state of a controller unconditionally in that state"""
    m = ctx.model
    base = m.cls(IC, "IterationController")
    ctx.rule("R14.4", "iteration controllers are reusable: every per-run attribute that check() reads is (re)assigned by start(), and no "
                      "assignment in start() is guarded by per-run state of an earlier run (an InversionEnabler re-uses one controller "
                      "for every solve)", floor=6)
    for c in m.subclasses(base):
        if c.local:
            continue
        st, ck, ini = c.methods.get("start"), c.methods.get("check"), m.resolve_method(c, "__init__")
        if st is None or ck is None:
            continue
        ctx.saw_class(c)
        from ..util import assigned_attrs
        a_init = set(assigned_attrs(ini.node)) if ini is not None else set()
        a_start = assigned_attrs(st.node)
        a_check = assigned_attrs(ck.node)
        run_attrs = set(a_start) | set(a_check)
        scfg = cfg_of(st)
        bad = []
        for attr, stmts in a_start.items():
            for s_ in stmts:
                nodes = scfg.nodes_of(s_)
                if not nodes:
                    continue
                for t, pol in known_atoms(scfg, nodes[0].id):
                    mentioned = {x.attr for x in ast.walk(t) if is_self_attr(x)}
                    if mentioned & run_attrs:
                        bad.append((attr, src(t)))
        ctx.check("R14.4", f"{c.key}::start() initialises per-run state unconditionally in earlier runs' state", not bad,
                  f"{bad}: the value computed for the first solve survives into later solves with a different right-hand side", st)
        # attributes read by check before check assigns them must be set by start (or __init__)
        reads = {x.attr for x in ast.walk(ck.node) if is_self_attr(x) and isinstance(x.ctx, ast.Load)}
        missing = sorted(a for a in reads if a in run_attrs and a not in a_start and a not in a_init and a.startswith("_") and
                         not any(isinstance(n, ast.FunctionDef) and n.name == a for n in c.node.body))
        # conditional assignment in start is fine when check reads under the same configuration guard; only report never-assigned
        ctx.check("R14.4", f"{c.key}::per-run attributes read by check() are set by start()", not missing, f"never initialised: {missing}", ck)


# ---------------------------------------------------------------------------------------------------------------- R14.5 - R14.7
IC = "nifty.cl.minimization.iteration_controllers"


def r14_5(ctx, m, rid="R14.5"):
    """per-run state of a controller is re-initialised by start()"""
    base = m.cls(IC, "IterationController")
    ctx.rule(rid, "iteration controllers: every attribute that check() updates is (re)initialised by start(), so a controller object "
                  "that is used for several minimisations (one per sample, one per inversion) starts each of them from a clean state", floor=4)
    subs = [c for c in m.subclasses(base) if not c.local and "check" in c.methods and "start" in c.methods]
    for c in subs:
        ctx.saw_class(c)
        ck, st = c.methods["check"], c.methods["start"]

        def stored(fn):
            out = set()
            for s_ in walk_no_nested(fn.node):
                tg = s_.targets if isinstance(s_, ast.Assign) else [s_.target] if isinstance(s_, (ast.AugAssign, ast.AnnAssign)) else []
                for t in tg:
                    for e in (t.elts if isinstance(t, (ast.Tuple, ast.List)) else [t]):
                        if is_self_attr(e, None):
                            out.add(e.attr)
            # in-place mutation of list attributes: self._x.append(...)
            for x in walk_no_nested(fn.node):
                if isinstance(x, ast.Call) and isinstance(x.func, ast.Attribute) and x.func.attr in ("append", "clear", "extend", "pop") and is_self_attr(x.func.value, None):
                    out.add(x.func.value.attr)
            return out
        upd = stored(ck)
        init = stored(st)
        # start() may delegate to helpers (e.g. self.reset())
        for x in walk_no_nested(st.node):
            if isinstance(x, ast.Call) and isinstance(x.func, ast.Attribute) and is_self_attr(x.func, None) is False and isinstance(x.func.value, ast.Name) \
                    and x.func.value.id == "self" and x.func.attr in c.methods and x.func.attr != "check":
                init |= stored(c.methods[x.func.attr])
        missing = sorted(upd - init)
        ctx.check(rid, f"{c.key}::start() re-initialises everything check() updates", not missing,
                  f"check() updates {sorted(upd)}; start() does not reset {missing}: the value survives into the next minimisation that uses this "
                  f"controller" if missing else f"state {sorted(upd)}", st)


def r14_6(ctx, m):
    CG = m.cls("nifty.cl.minimization.conjugate_gradient", "ConjugateGradient")
    call = CG.methods["__call__"]
    ctx.rule("R14.6", "the CG driver never writes attributes of the energy object (value, gradient and their cached norms are "
                      "functions of the position and computed by the energy itself)", floor=1)
    en = call.params()[1]
    bad = []
    for s_ in walk_no_nested(call.node):
        tg = s_.targets if isinstance(s_, ast.Assign) else [s_.target] if isinstance(s_, (ast.AugAssign, ast.AnnAssign)) else []
        for t in tg:
            if isinstance(t, ast.Attribute) and isinstance(t.value, ast.Name) and t.value.id == en:
                bad.append(s_)
    for x in walk_no_nested(call.node):
        if isinstance(x, ast.Call) and call_name(x) in ("setattr", "__setattr__") and x.args and src(x.args[0]) == en:
            bad.append(x)
    ctx.check("R14.6", f"{call.key}::no store into attributes of `{en}`", not bad,
              f"`{short(bad[0])}`: with a preconditioner gamma is <r, M r>, not the squared gradient norm the controller tests" if bad else None, call, bad[0] if bad else None)


def r14_7(ctx, m):
    D = m.cls(IC, "DeltaEnergyController")
    ck = D.methods["check"]
    ctx.rule("R14.7", "DeltaEnergyController: the quantity compared with tol_rel_deltaE is |E_old - E| / max(|E_old|, |E|) (no absolute "
                      "floor that would turn the relative criterion into an absolute one for small energies)", floor=1)
    cfg = cfg_of(ck)
    rd = cfg.reaching_defs(ck.params())
    tests = [n for n in cfg.nodes if n.kind == "test" and isinstance(n.ast, ast.Compare) and "self._tol_rel_deltaE" in src(n.ast)]
    key = f"{ck.key}::relative energy change"
    if len(tests) != 1:
        ctx.und("R14.7", key, f"{len(tests)} comparisons with the tolerance", ck)
        return
    t = tests[0].ast
    lhs = t.left if "tol_rel_deltaE" in src(t.comparators[0]) else t.comparators[0]
    e = inline_at(cfg, rd, tests[0].id, lhs, depth=3)
    good = None
    det = src(e)
    guarded0 = False
    if isinstance(e, ast.IfExp) and isinstance(e.orelse, ast.Constant) and e.orelse.value in (0, 0.0) and isinstance(e.test, ast.Compare) \
            and isinstance(e.body, ast.BinOp):
        tt = e.test
        den = src(e.body.right)
        pos = (isinstance(tt.ops[0], (ast.Gt, ast.NotEq)) and src(tt.left) == den and src(tt.comparators[0]) in ("0", "0.0")) or \
              (isinstance(tt.ops[0], (ast.Lt, ast.NotEq)) and src(tt.comparators[0]) == den and src(tt.left) in ("0", "0.0"))
        if pos:
            guarded0 = True
            e = e.body
    if isinstance(e, ast.BinOp) and isinstance(e.op, ast.Div) and isinstance(e.right, ast.Call) and call_name(e.right) in ("max", "maximum"):
        args = [src(a).replace(" ", "") for a in e.right.args]
        num = src(e.left).replace(" ", "")
        en = ck.params()[1]
        ev = f"{en}.value"
        core = {f"abs(self._Eold)", f"abs({ev})"}
        extra = [a for a in args if a not in core]
        ok_num = num in (f"abs(self._Eold-{ev})", f"abs({ev}-self._Eold)")

        def tiny(a):
            try:
                return abs(float(ast.literal_eval(a))) <= 1e-100
            except Exception:
                return "tiny" in a
        good = ok_num and core <= set(args) and all(tiny(a) for a in extra)
        if extra and not all(tiny(a) for a in extra):
            det += f" - the floor {extra} makes the test absolute whenever |E| is below it"
    ctx.check("R14.7", key, good, det, ck, t)
    # energies are Python floats (ducc vdot): 0/0 raises - and every inversion that starts at x0 = 0 starts with E_old = E = 0
    from ..util import known_atoms
    at = known_atoms(cfg, tests[0].id)
    first_excluded = any("_itcount" in src(tt) for tt, _ in at)
    div_nodes = [n for n in cfg.nodes if n.kind == "stmt" and n.ast is not None and any(isinstance(z, ast.BinOp) and isinstance(z.op, ast.Div) and "max(" in src(z.right) for z in ast.walk(n.ast))]
    unguarded = [n for n in div_nodes if not any("_itcount" in src(tt) for tt, _ in known_atoms(cfg, n.id))]
    ctx.check("R14.7", f"{ck.key}::no 0/0 between two vanishing energies (first check, inversion from x0 = 0)",
              bool(guarded0 and not unguarded) if good else None,
              "the quotient is evaluated only for a positive denominator" if guarded0 and not unguarded else
              f"`{det[:80]}` is evaluated with E_old = E = 0 (line {unguarded[0].lineno if unguarded else t.lineno}): ZeroDivisionError for Python floats", ck, t)


_run_c14b = run


def run(ctx):  # noqa: F811
    _run_c14b(ctx)
    r14_5(ctx, ctx.model)
    r14_6(ctx, ctx.model)
    r14_7(ctx, ctx.model)


def r14_8(ctx, m):
    from ..model import cc
    ctx.rule("R14.8", "StochasticAbsDeltaEnergyController: the energy memory is a sliding window of exactly memory_length entries - after "
                      "appending, ONE entry is dropped when the length exceeds memory_length (strict comparison); a non-strict test "
                      "keeps the window one entry short of the documented length and stops earlier than the stated criterion", floor=1)
    C = m.cls("nifty.cl.minimization.iteration_controllers", "StochasticAbsDeltaEnergyController", required=False)
    if C is None:
        ctx.und("R14.8", "iteration_controllers.py::StochasticAbsDeltaEnergyController", "class missing", "nifty/cl/minimization/iteration_controllers.py")
    else:
        ck = C.methods.get("check")
        ctx.saw_func(ck)
        trims = [st for st in walk_no_nested(ck.node) if isinstance(st, ast.If) and "len(self._memory)" in src(st.test) and "memory_length" in src(st.test)]
        key = f"{ck.key}::window length"
        if len(trims) != 1:
            ctx.und("R14.8", key, f"{len(trims)} trimming tests", ck)
        else:
            t = cc(trims[0].test)
            one = any(src(s_).replace(" ", "") in ("self._memory=self._memory[1:]", "self._memory.pop(0)", "delself._memory[0]") for s_ in trims[0].body)
            if t == "self.memory_length < len(self._memory)":
                ctx.check("R14.8", key, True if one else None, f"`if {src(trims[0].test)}` drops {'one entry' if one else '?'}", ck, trims[0])
            elif t == "self.memory_length <= len(self._memory)":
                ctx.bad("R14.8", key, f"`if {src(trims[0].test)}`: the window shrinks to memory_length - 1 entries", ck, trims[0])
            else:
                ctx.und("R14.8", key, f"test `{t}` not recognised", ck, trims[0])
    ctx.rule("R14.9", "InversionEnabler.apply is a function of (x, mode) only: no result is remembered under the identity id(x) of a "
                      "transient input (addresses are recycled: a new right-hand side at the same address would get the old solution)", floor=1)
    IE = m.cls("nifty.cl.operators.inversion_enabler", "InversionEnabler")
    ap = IE.methods["apply"]
    ctx.saw_func(ap)
    xn = ap.params()[1]
    ids = [c for c in walk_no_nested(ap.node) if isinstance(c, ast.Call) and src(c.func) == "id" and c.args and src(c.args[0]) == xn]
    memo = [st for st in walk_no_nested(ap.node) if isinstance(st, ast.Assign) and isinstance(st.targets[0], ast.Attribute) and src(st.targets[0].value) == "self"
            and "position" in src(st.value)]
    ctx.check("R14.9", f"{ap.key}::no identity-keyed memo of solutions", not ids and not memo,
              f"`{src((ids or memo)[0])}`: a solution is remembered and handed out again for a later input" if (ids or memo) else None, ap, (ids or memo or [None])[0])


_run_c14c = run


def run(ctx):  # noqa: F811
    _run_c14c(ctx)
    r14_8(ctx, ctx.model)
