"""C15 - JAX conjugate gradients: eager/compiled sibling agreement and descent direction of the fallback."""
import ast

from ..model import src, short, walk_no_nested, call_name
from ..sibling import guarded_assignments, unfold_where, atom_texts, ntext, atoms_of
from ..terms import norm

CG = "nifty.re.conjugate_gradient"
# `info < -1` is the compiled variant's "still running" state: it mirrors the eager variant's `break` (first verdict wins).
# `info != -1` is NOT equivalent: it lets a later criterion overwrite an earlier verdict.
IGNORABLE = {"info < -1.0", "not _raise_nonposdef", "curv != 0.0"}


def collect(fi, rename=None):
    """[(target, index, normalised value text, frozenset(guard texts), raw GAssign)] with where/cond unfolded."""
    out = []
    for g in guarded_assignments(fi.node):
        for at, val in unfold_where(g.value, g.target):
            guards = atom_texts(g.guards + at, rename)
            out.append((g.target, g.index, ntext(val, rename), guards, g, val))
    return out


def pick(rows, target, value_has=None, guard_has=None, guard_lacks=None, value_lacks=None):
    res = []
    for r in rows:
        t, i, v, gs, g, raw = r
        if t != target:
            continue
        if value_has and not all(x in v for x in value_has):
            continue
        if value_lacks and any(x in v for x in value_lacks):
            continue
        gt = " ; ".join(sorted(gs))
        if guard_has and not all(x in gt for x in guard_has):
            continue
        if guard_lacks and any(x in gt for x in guard_lacks):
            continue
        res.append(r)
    return res


def compare(ctx, rule, label, a_rows, b_rows, fa, fb, guards=False, drop=IGNORABLE):
    key = f"{CG}::_cg <-> _static_cg::{label}"
    if len(a_rows) != 1 or len(b_rows) != 1:
        ctx.und(rule, key, f"selector matched {len(a_rows)} statement(s) in _cg and {len(b_rows)} in _static_cg", fa)
        return
    a, b = a_rows[0], b_rows[0]
    same_val = a[2] == b[2]
    ga = frozenset(x for x in a[3] if x not in drop)
    gb = frozenset(x for x in b[3] if x not in drop)
    same_g = (ga == gb) if guards else True
    detail = f"eager: {a[2]}" + (f" if {sorted(ga)}" if guards else "") + f"  |  compiled: {b[2]}" + (f" if {sorted(gb)}" if guards else "")
    ctx.check(rule, key, same_val and same_g, detail, fb, b[4].stmt)


def run(ctx):
    m = ctx.model
    e = m.func(CG, "_cg")
    so = m.func(CG, "_static_cg")
    s = m.func(CG, "_static_cg.cg_single_step")
    for f in (e, so, s):
        ctx.saw_func(f)
    ctx.rule("R15.1", "eager/compiled agreement: the defining terms of the shared CG state (q, curvature, step length, position "
                      "update, both residual updates, gamma, energy, energy difference, search direction, fallback position), "
                      "the stopping conditions with their verdicts, the initialisation and the defaults are equal after "
                      "normalisation (float()/jnp. prefixes/where vs if/max vs maximum)", floor=24)
    ren_e = {"energy": "previous_energy", "new_energy": "energy"}
    E = collect(e, ren_e)
    E0 = collect(e)  # outer part without renaming
    S = collect(s)
    SO = collect(so)
    R = "R15.1"
    compare(ctx, R, "q = A d", pick(E, "q"), pick(S, "q"), e, s)
    compare(ctx, R, "curvature", pick(E, "curv"), pick(S, "curv"), e, s)
    compare(ctx, R, "step length alpha", pick(E, "alpha", value_has=["curv"]), pick(S, "alpha", value_has=["curv"]), e, s)
    compare(ctx, R, "position update", pick(E, "pos", value_has=["alpha"]), pick(S, "pos", value_has=["alpha"]), e, s)
    compare(ctx, R, "negative-curvature fallback position", pick(E, "pos", guard_has=["curv <"]), pick(S, "pos", guard_has=["curv <"]), e, s, guards=True)
    compare(ctx, R, "residual: periodic recomputation", pick(E, "r", guard_has=["% N_RESET == 0"], value_has=["mat("]),
            pick(S, "r", value_has=["mat("]), e, s, guards=True)
    compare(ctx, R, "residual: recurrence", pick(E, "r", value_has=["q"]), pick(S, "r", value_has=["q"]), e, s)
    compare(ctx, R, "gamma = <r, r>", [r for r in pick(E, "gamma")], pick(S, "gamma"), e, s)
    compare(ctx, R, "quadratic energy", pick(E, "new_energy", value_has=["vdot"]), pick(S, "energy"), e, s)
    compare(ctx, R, "energy difference", pick(E, "energy_diff", value_has=["-"]), pick(S, "energy_diff"), e, s)
    compare(ctx, R, "energy-increase tolerance", pick(E, "neg_energy_eps"), pick(S, "neg_energy_eps"), e, s)
    compare(ctx, R, "new search direction", pick(E, "d", value_has=["gamma"]), pick(S, "d", value_has=["gamma"]), e, s)
    en = pick(E, "norm", value_has=["norm("], guard_lacks=["name"])
    if not en:  # the eager loop computes the norm differently: compare whatever it assigns under the residual criterion
        en = pick(E, "norm", guard_has=["resnorm is not None"], guard_lacks=["name"])
    compare(ctx, R, "residual norm", en, pick(S, "norm", value_has=["norm("]), e, s, guards=True)
    # stopping conditions: info := 0 / i
    compare(ctx, R, "stop: gamma tiny -> converged", pick(E, "info", guard_has=["gamma <="]), pick(S, "info", guard_has=["gamma <="]), e, s, guards=True)
    compare(ctx, R, "stop: residual norm criterion", pick(E, "info", guard_has=["norm <"]), pick(S, "info", guard_has=["norm <"]), e, s, guards=True)
    compare(ctx, R, "stop: energy criterion", pick(E, "info", guard_has=["absdelta"]), pick(S, "info", guard_has=["absdelta"]), e, s, guards=True)
    compare(ctx, R, "stop: energy increased -> iteration number", pick(E, "info", guard_has=["neg_energy_eps"]),
            pick(S, "info", guard_has=["neg_energy_eps"], value_lacks=["-1"]), e, s, guards=True)
    # first verdict wins: eager verdicts are followed by `break`; compiled verdicts are guarded by the running state
    loop = [n for n in walk_no_nested(e.node) if isinstance(n, ast.For)]
    if len(loop) == 1:
        def blocks(body):
            yield body
            for st in body:
                if isinstance(st, ast.If):
                    yield from blocks(st.body)
                    yield from blocks(st.orelse)
        for blk in blocks(loop[0].body):
            for k, st in enumerate(blk):
                if isinstance(st, ast.Assign) and any(isinstance(t, ast.Name) and t.id == "info" for t in st.targets):
                    nxt = blk[k + 1] if k + 1 < len(blk) else None
                    ctx.check(R, f"{e.key}::verdict `{src(st)}` [line-independent: {src(blk[0])[:40]}] ends the loop",
                              isinstance(nxt, (ast.Break, ast.Return, ast.Raise)), "a verdict is assigned but the iteration continues", e, st)
    first = True
    for r in S:
        if r[0] != "info" or r[2] == "v['info']":
            continue
        if any(g.startswith("curv") for g in r[3]) and first:
            continue  # the curvature verdict is the first one in the step
        first = False
        ctx.check(R, f"{s.key}::verdict info={r[2]} if {sorted(x for x in r[3] if not x.startswith('info'))} only while still running",
                  "info < -1.0" in r[3],
                  "a later stopping criterion can overwrite an earlier verdict of the same iteration (the eager solver breaks at the "
                  f"first one): guards {sorted(r[3])}", s, r[4].stmt)
    # non-positive curvature verdict: converged (0) in both when not raising
    ec = pick(E, "info", guard_has=["curv"])
    sc = pick(S, "info", guard_has=["curv"], value_lacks=["-1"])
    key = f"{CG}::_cg <-> _static_cg::verdict on non-positive curvature"
    if not ec or len(sc) != 1:
        ctx.und(R, key, f"{len(ec)} eager / {len(sc)} compiled statements", e)
    else:
        ctx.check(R, key, all(r[2] == sc[0][2] for r in ec) and any("curv == 0.0" in " ".join(r[3]) for r in ec)
                  and any("curv < 0.0" in " ".join(r[3]) for r in ec) and "curv <= 0.0" in " ".join(sc[0][3]),
                  f"eager: {[(r[2], sorted(r[3])) for r in ec]} | compiled: {(sc[0][2], sorted(sc[0][3]))}", s, sc[0][4].stmt)
    # iteration limit
    fo = [n for n in walk_no_nested(e.node) if isinstance(n, ast.For)]
    lim = pick(S, "info", guard_has=["maxiter"])
    key = f"{CG}::_cg <-> _static_cg::iteration limit"
    if len(fo) != 1 or len(lim) != 1:
        ctx.und(R, key, "loop / limit statement not found", e)
    else:
        ok_e = src(fo[0].iter).replace(" ", "") == "range(1,maxiter+1)"
        fin = pick(E0, "info", value_has=["i"], guard_lacks=["time", "energy"])
        ok_fin = any(x[2] == "i" and any(g.startswith("info == -1") for g in x[3]) for x in fin)
        from ..model import cc
        ok_s = lim[0][2] == "i" and cc("i >= maxiter") in " ".join(lim[0][3])
        ctx.check(R, key, ok_e and ok_s and ok_fin, f"eager loops over {src(fo[0].iter)}; compiled sets info={lim[0][2]} if {sorted(lim[0][3])}", s, lim[0][4].stmt)
    # initialisation
    for var in ("pos", "r", "d"):
        for br in ("x0 is None", "x0 is not None"):
            compare(ctx, R, f"initial {var} [{br}]", pick(E0, var, guard_has=[br], guard_lacks=["curv"]) if br == "x0 is None" else
                    [x for x in pick(E0, var, guard_has=["x0 is not None"])],
                    [x for x in pick(SO, var, guard_has=[br]) if (br == "x0 is not None") == ("x0 is not None" in " ".join(x[3]))], e, so)
    for br in ("x0 is None", "x0 is not None"):
        compare(ctx, R, f"initial energy [{br}]",
                [x for x in pick(E0, "energy", guard_has=[br]) if (br == "x0 is not None") == ("x0 is not None" in " ".join(x[3]))],
                [x for x in pick(SO, "energy", guard_has=[br]) if (br == "x0 is not None") == ("x0 is not None" in " ".join(x[3]))], e, so)
    compare(ctx, R, "initial gamma", pick(E0, "previous_gamma", value_has=["vdot"]), pick(SO, "gamma", value_has=["vdot"]), e, so)
    for var in ("norm_ord", "maxiter_fallback", "miniter", "maxiter", "eps", "tiny", "common_dtp"):
        compare(ctx, R, f"default {var}", pick(E0, var, guard_lacks=["name"]), pick(SO, var, guard_lacks=["name"]), e, so)
    compare(ctx, R, "fallback convergence criterion", pick(E0, "resnorm"), pick(SO, "resnorm"), e, so, guards=True)
    # the state handed to the next iteration is the updated one
    ret = [r for r in S if r[0] == "ret"]
    if len(ret) == 1 and isinstance(ret[0][5], ast.Dict):
        d = {k.value: src(v) for k, v in zip(ret[0][5].keys, ret[0][5].values)}
        want = {"info": "info", "pos": "pos", "r": "r", "d": "d", "iteration": "i", "gamma": "gamma", "energy": "energy"}
        ctx.check(R, f"{s.key}::carried state is the updated state", d == want, f"{d}", s, ret[0][4].stmt)

    # main-path state transformer: the state after one regular iteration expressed in the state before it
    from ..modespec import Spec
    loop = [n for n in e.node.body if isinstance(n, ast.For)]
    if len(loop) == 1:
        for reset in (True, False):
            facts = {"curv == 0.0": False, "curv < 0.0": False, "curv <= 0.0": False, "time_threshold is not None": False,
                     "name is not None": False, "resnorm is not None": True, "absdelta is not None": True, "info < -1": True,
                     "i % N_RESET == 0": reset}
            spe = Spec(m, None, e, {}, facts=facts)
            spe.keep = {"curv", "info", "i"}
            spe.run(body=loop[0].body)
            sps = Spec(m, None, s, {}, facts=facts)
            sps.keep = {"curv", "info", "i"}
            sps.run()
            ren_e = {"energy": "previous_energy"}
            ren_s = {"__dicts__": (s.params()[0],), "__keys__": {"gamma": "previous_gamma", "energy": "previous_energy"}}
            label = f"regular iteration ({'with' if reset else 'without'} residual recomputation)"
            if len(spe.final_envs) != 1 or len(sps.returns) != 1 or not isinstance(sps.returns[0][0], ast.Dict):
                ctx.und(R, f"{CG}::_cg <-> _static_cg::state transformer, {label}",
                        f"{len(spe.final_envs)} eager paths / {len(sps.returns)} compiled returns", e)
                continue
            env = spe.final_envs[0][0]
            sd = {k.value: v for k, v in zip(sps.returns[0][0].keys, sps.returns[0][0].values) if isinstance(k, ast.Constant)}
            for ke, ks in (("pos", "pos"), ("r", "r"), ("d", "d"), ("previous_gamma", "gamma"), ("energy", "energy")):
                key = f"{CG}::_cg <-> _static_cg::state transformer, {label}: new {ks}"
                if ke not in env or ks not in sd:
                    ctx.und(R, key, "state entry not found", e)
                    continue
                a, b = ntext(env[ke], ren_e), ntext(sd[ks], ren_s)
                ctx.check(R, key, a == b, f"eager: {a[:400]}  |  compiled: {b[:400]}", s, sps.returns[0][2])

    # ------------------------------------------------------------------ R15.2
    ctx.rule("R15.2", "negative-curvature fallback is a steepest-descent step: with curv < 0 and gamma = <r,r> >= 0 the fallback "
                      "position is pos + c*(-d) with c >= 0 (d is the initial residual = gradient of the quadratic at the start)", floor=2)
    fx = fallback_expressions(m)
    for which in ("eager", "compiled"):
        if which not in fx:
            ctx.und("R15.2", f"{CG}::{which} fallback position", "path not recognised", e)
            continue
        fi, expr = fx[which]
        verdict, why = fallback_step_verdict(expr)
        ctx.check("R15.2", f"{fi.key}::fallback position is a step along the descent direction", verdict, f"{src(expr)}: {why}", fi)


def descent_sign(v):
    """Sign analysis of  BASE (+|-) COEF * DIR  under curv < 0, previous_gamma >= 0.
    Accepts exactly a non-negative multiple of -d (or of +j when starting from zero) added to pos."""
    SIGN = {"previous_gamma": 1, "gamma": 1, "curv": -1}

    def sign(e):
        if isinstance(e, ast.Name):
            return SIGN.get(e.id)
        if isinstance(e, ast.Constant) and isinstance(e.value, (int, float)):
            return 1 if e.value > 0 else (-1 if e.value < 0 else 0)
        if isinstance(e, ast.UnaryOp) and isinstance(e.op, ast.USub):
            s_ = sign(e.operand)
            return None if s_ is None else -s_
        if isinstance(e, ast.BinOp) and isinstance(e.op, (ast.Mult, ast.Div)):
            a, b = sign(e.left), sign(e.right)
            return None if a is None or b is None else a * b
        if isinstance(e, ast.Call) and call_name(e) in ("abs",):
            return 1
        return None

    def split(term):
        """term = scalar * vector  -> (scalar sign, vector name, vector sign)"""
        if isinstance(term, ast.BinOp) and isinstance(term.op, ast.Mult):
            for sc, vec in ((term.left, term.right), (term.right, term.left)):
                vs = 1
                if isinstance(vec, ast.UnaryOp) and isinstance(vec.op, ast.USub):
                    vec, vs = vec.operand, -1
                if isinstance(vec, ast.Name) and vec.id in ("d", "j", "r", "g"):
                    s_ = sign(sc)
                    if s_ is not None:
                        return s_, vec.id, vs
        return None
    if isinstance(v, ast.BinOp) and isinstance(v.op, (ast.Add, ast.Sub)) and isinstance(v.left, ast.Name) and v.left.id == "pos":
        sp = split(v.right)
        if sp is None:
            return None, "term not of the form scalar*vector"
        ssc, vec, vs = sp
        total = ssc * vs * (1 if isinstance(v.op, ast.Add) else -1)
        # moving along -d (= -r = +j at the start) lowers the quadratic
        want = {"d": -1, "r": -1, "g": -1, "j": 1}[vec]
        if total == want:
            return True, f"moves along {'-' if want < 0 else '+'}{vec} (descent)"
        if total == -want:
            return False, f"moves along {'+' if want < 0 else '-'}{vec}: up the gradient of the quadratic energy"
        return None, "sign undetermined"
    sp = split(v)
    if sp is not None:
        ssc, vec, vs = sp
        total = ssc * vs
        want = {"d": -1, "r": -1, "g": -1, "j": 1}[vec]
        if total == -want:
            return False, f"position is a negative multiple of the descent direction (moves up the gradient) and ignores the start position"
        if total == want:
            return None, "descent direction but the start position is dropped (only valid for x0=None)"
    return None, "shape not modelled"


def fallback_step_verdict(expr, gamma_names=("previous_gamma", "gamma"), neg_names=("curv",)):
    """expr = pos (+|-) c1*d (+|-) c2*d ...  under curv < 0, gamma >= 0.  Returns (verdict, explanation): True iff the net
    coefficient on d is negative (a step along -d, the descent direction at the start), False if it is zero or positive."""
    SIGN = {g: 1 for g in gamma_names}
    SIGN.update({n: -1 for n in neg_names})

    def sign(e):
        if isinstance(e, ast.Name):
            return SIGN.get(e.id)
        if isinstance(e, ast.Subscript) and isinstance(e.slice, ast.Constant) and e.slice.value in ("gamma",):
            return 1
        if isinstance(e, ast.Constant) and isinstance(e.value, (int, float)):
            return 0 if e.value == 0 else (1 if e.value > 0 else -1)
        if isinstance(e, ast.UnaryOp) and isinstance(e.op, ast.USub):
            s_ = sign(e.operand)
            return None if s_ is None else -s_
        if isinstance(e, ast.BinOp) and isinstance(e.op, (ast.Mult, ast.Div)):
            a, b = sign(e.left), sign(e.right)
            if a == 0:
                return 0
            return None if a is None or b is None else a * b
        if isinstance(e, ast.Call) and call_name(e) in ("real", "float") and e.args:
            return sign(e.args[0])
        return None
    terms = []  # (sign of coefficient, vector name)

    def walk(e, sg):
        if isinstance(e, ast.BinOp) and isinstance(e.op, (ast.Add, ast.Sub)):
            walk(e.left, sg)
            walk(e.right, sg if isinstance(e.op, ast.Add) else -sg)
            return
        if isinstance(e, ast.Name) and e.id == "pos" or (isinstance(e, ast.Subscript) and src(e).endswith("['pos']")):
            terms.append(("base", "pos"))
            return
        if isinstance(e, ast.BinOp) and isinstance(e.op, ast.Mult):
            for sc, vec in ((e.left, e.right), (e.right, e.left)):
                vs = 1
                if isinstance(vec, ast.UnaryOp) and isinstance(vec.op, ast.USub):
                    vec, vs = vec.operand, -1
                vn = vec.id if isinstance(vec, ast.Name) else (vec.slice.value if isinstance(vec, ast.Subscript) and isinstance(vec.slice, ast.Constant) else None)
                if vn in ("d", "r", "j", "g"):
                    s_ = sign(sc)
                    terms.append((None if s_ is None else sg * vs * s_, vn))
                    return
        terms.append((None, "?"))
    walk(expr, 1)
    has_base = ("base", "pos") in terms
    coeffs = [t for t in terms if t[0] != "base"]
    if any(c is None for c, v in coeffs) or any(v == "?" for c, v in coeffs):
        return None, f"terms not classified: {src(expr)}"
    # express everything along d (r = d at the first iteration, j = -d when starting from zero)
    net = []
    for c, v in coeffs:
        net.append(c if v in ("d", "r", "g") else -c)
    if not has_base:
        if net and all(c >= 0 for c in net) and any(c > 0 for c in net):
            return False, "steps along +d (up the gradient of the quadratic energy) and drops the start position"
        return None, "start position is not part of the result"
    if all(c == 0 for c in net):
        return False, "the fallback adds nothing to the start position: no step is taken although the first direction has negative curvature"
    if all(c <= 0 for c in net):
        return True, "steps along -d (descent)"
    if all(c >= 0 for c in net):
        return False, "steps along +d: up the gradient of the quadratic energy"
    return None, "mixed signs"


def fallback_expressions(m):
    """Fully substituted fallback positions of the eager and the compiled solver (under curv < 0, first iteration, no raise)."""
    from ..modespec import Spec
    e = m.func(CG, "_cg")
    s = m.func(CG, "_static_cg.cg_single_step")
    facts = {"curv == 0.0": False, "curv < 0.0": True, "curv <= 0.0": True, "_raise_nonposdef": False, "not _raise_nonposdef": True,
             "i > 1": False, "i <= 1": True, "name is not None": False, "info < -1": True, "resnorm is not None": True,
             "absdelta is not None": True, "time_threshold is not None": False}
    out = {}
    loop = [n for n in e.node.body if isinstance(n, ast.For)]
    if len(loop) == 1:
        sp = Spec(m, None, e, {}, facts=facts)
        sp.keep = {"curv", "i", "previous_gamma"}
        sp.run(body=loop[0].body)
        brk = [env for env, a, st in sp.breaks if isinstance(st, ast.Break)]
        if len(brk) == 1 and "pos" in brk[0]:
            out["eager"] = (e, brk[0]["pos"])
    sp = Spec(m, None, s, {}, facts=facts)
    sp.keep = {"curv", "i", "previous_gamma"}
    sp.run()
    if len(sp.returns) == 1 and isinstance(sp.returns[0][0], ast.Dict):
        d = {k.value: v for k, v in zip(sp.returns[0][0].keys, sp.returns[0][0].values) if isinstance(k, ast.Constant)}
        if "pos" in d:
            out["compiled"] = (s, d["pos"])
    return out


def r15_3(ctx, m):
    """order of the verdicts and number of iterations at the iteration limit"""
    e = m.func(CG, "_cg")
    so = m.func(CG, "_static_cg")
    s = m.func(CG, "_static_cg.cg_single_step")
    ctx.rule("R15.3", "iteration limit: (a) in the compiled step the limit verdict `(i >= maxiter) & still running -> i` is the LAST "
                      "assignment to info, after all convergence verdicts - the eager loop only falls out of `range(1, maxiter+1)` "
                      "when no break fired, so convergence exactly at the limit is success in both; (b) the eager loop performs "
                      "max(0, maxiter) steps, the compiled while_loop tests its condition (`info < -1`, no maxiter in it) only after a "
                      "step and therefore performs max(1, maxiter): they agree unless maxiter = 0 is accepted", floor=3)
    infos = sorted((st for st in walk_no_nested(s.node) if isinstance(st, ast.Assign) and src(st.targets[0]) == "info" and isinstance(st.value, ast.Call)
                    and call_name(st.value) == "where"), key=lambda st: st.lineno)
    key = f"{s.key}::the iteration-limit verdict is assigned last"
    lim = [st for st in infos if "maxiter" in src(st.value.args[0])]
    if len(lim) != 1 or not infos:
        ctx.und("R15.3", key, f"{len(lim)} limit verdicts among {len(infos)} info assignments", s)
    else:
        later = [st for st in infos if st.lineno > lim[0].lineno]
        ctx.check("R15.3", key, not later, f"`{short(later[0], 80)}` (line {later[0].lineno}) comes after the limit verdict: an iteration that converges exactly at "
                                              "i == maxiter is reported as 'limit reached' by the compiled solver and as success by the eager one" if later else src(lim[0]), s, lim[0])
        guard_ok = "info < -1" in src(lim[0].value.args[0]) or "-1 > info" in src(lim[0].value.args[0])
        ctx.check("R15.3", f"{s.key}::the limit verdict only applies to a still running state", guard_ok, src(lim[0].value.args[0]), s, lim[0])
    loops = [lp for lp in walk_no_nested(e.node) if isinstance(lp, ast.For)]
    key = f"{CG}::_cg <-> _static_cg::same number of steps for every accepted maxiter"
    cc_ = [f_ for f_ in ast.walk(so.node) if isinstance(f_, ast.FunctionDef) and f_.name == "continue_condition"]
    if len(loops) != 1 or len(cc_) != 1:
        ctx.und("R15.3", key, "loop shapes not recognised", e)
        return
    it = src(loops[0].iter).replace(" ", "")
    eager_zero_possible = it in ("range(1,maxiter+1)", "range(1,1+maxiter)")
    static_at_least_once = "maxiter" not in src(cc_[0])
    # is maxiter < 1 refused (or clamped) before the loops?
    def refused(fi):
        for st in walk_no_nested(fi.node):
            if isinstance(st, ast.If) and "maxiter" in src(st.test) and any(isinstance(x, ast.Raise) for x in st.body) and any(t in src(st.test).replace(" ", "") for t in ("maxiter<1", "maxiter<=0", "1>maxiter", "0>=maxiter")):
                return True
            if isinstance(st, ast.Assign) and src(st.targets[0]) == "maxiter" and ("max(1," in src(st.value).replace(" ", "") or "maximum(1," in src(st.value).replace(" ", "")):
                return True
        return False
    if eager_zero_possible and static_at_least_once:
        ok = refused(e) and refused(so)
        if ok:
            ctx.ok("R15.3", key, "maxiter < 1 is refused / clamped in both", e, loops[0])
        else:
            ctx.bad("R15.3", key + "::maxiter=0", "maxiter = 0: the eager loop runs zero times and `info = i if info == -1` turns i = 0 into the success code "
                                                    "(start point returned with success=True although no criterion was tested); the compiled solver performs one step and "
                                                    "returns info = 1", e, loops[0])
    else:
        ctx.und("R15.3", key, f"eager iterates over `{src(loops[0].iter)}`; compiled condition `{src(cc_[0].body[-1])}`", e, loops[0])


_run_c15b = run


def run(ctx):  # noqa: F811
    _run_c15b(ctx)
    r15_3(ctx, ctx.model)
