"""C16 - classic descent minimisers: acceptance guard and status discipline."""
import ast

from ..model import src, short, walk_no_nested, call_name
from ..util import cfg_of, find_nodes, known_atoms
from .c14 import status_discipline, every_iteration_checks

DM = "nifty.cl.minimization.descent_minimizers"


def _no_increase_atom(t, pol, new, old):
    """atom establishes new.value <= old.value"""
    if not (isinstance(t, ast.Compare) and len(t.ops) == 1):
        return False
    l, r, op = src(t.left), src(t.comparators[0]), t.ops[0]
    nv, ov = f"{new}.value", f"{old}.value"
    if (l, r) == (nv, ov):
        return (isinstance(op, ast.Gt) and not pol) or (isinstance(op, (ast.LtE, ast.Lt, ast.Eq)) and pol)
    if (l, r) == (ov, nv):
        return (isinstance(op, ast.Lt) and not pol) or (isinstance(op, (ast.GtE, ast.Gt, ast.Eq)) and pol)
    return False


def acceptance_guard(ctx, rule, fi):
    cfg = cfg_of(fi)
    rd = cfg.reaching_defs(fi.params())
    cur = fi.params()[1]
    # names bound from the line search
    ls = [n for n in cfg.nodes if n.kind == "stmt" and isinstance(n.ast, ast.Assign) and isinstance(n.ast.value, ast.Call)
          and call_name(n.ast.value) == "perform_line_search"]
    if not ls:
        ctx.und(rule, f"{fi.key}::line search call", "perform_line_search not found", fi)
        return
    t0 = ls[0].ast.targets[0]
    new = t0.elts[0].id if isinstance(t0, ast.Tuple) else (t0.id if isinstance(t0, ast.Name) else None)
    accepts = [n for n in cfg.nodes if n.kind == "stmt" and isinstance(n.ast, ast.Assign) and len(n.ast.targets) == 1
               and isinstance(n.ast.targets[0], ast.Name) and n.ast.targets[0].id == cur and src(n.ast.value) == new]
    if not accepts:
        ctx.und(rule, f"{fi.key}::acceptance of the line-search result", "no `energy = new_energy` found", fi)
    for a in accepts:
        at = known_atoms(cfg, a.id)
        good = any(_no_increase_atom(t, pol, new, cur) for t, pol in at)
        ctx.check(rule, f"{fi.key}::`{a.text()}` only after new.value <= old.value", good,
                  f"the line-search result becomes the iterate without a dominating comparison against the current energy "
                  f"(guards: {[('' if p else 'not ') + src(t) for t, p in at]})", fi, a.ast)
    # the comparison's failing edge returns ERROR with the OLD energy
    for n in cfg.nodes:
        if n.kind == "test" and _no_increase_atom(n.ast, False, new, cur) and isinstance(n.ast.ops[0], (ast.Gt, ast.Lt)):
            for b, label in cfg.succ[n.id]:
                if label == "T":
                    reach = cfg.reachable(b, include_exc=False)
                    rets = [cfg.nodes[i] for i in reach if cfg.nodes[i].kind == "stmt" and isinstance(cfg.nodes[i].ast, ast.Return)]
                    first = min(rets, key=lambda x: x.lineno) if rets else None
                    okk = first is not None and isinstance(first.ast.value, ast.Tuple) and src(first.ast.value.elts[0]) == cur \
                        and src(first.ast.value.elts[1]).endswith("ERROR")
                    ctx.check(rule, f"{fi.key}::energy increase returns (old energy, ERROR)", okk,
                              first.text() if first is not None else None, fi, n.ast)
    # every returned energy other than the current one is the unchanged-energy case
    for r in [n for n in cfg.nodes if n.kind == "stmt" and isinstance(n.ast, ast.Return)]:
        v = r.ast.value
        if isinstance(v, ast.Tuple) and isinstance(v.elts[0], ast.Name) and v.elts[0].id == new:
            at = known_atoms(cfg, r.id)
            ctx.check(rule, f"{fi.key}::`{r.text()}` only when the energy did not increase",
                      any(_no_increase_atom(t, pol, new, cur) for t, pol in at), None, fi, r.ast)


def run(ctx):
    m = ctx.model
    D = m.cls(DM, "DescentMinimizer")
    ctx.saw_class(D)
    call = D.methods["__call__"]
    ctx.saw_func(call)
    ctx.rule("R16.1", "DescentMinimizer.__call__: the line-search result becomes the iterate only on the false edge of "
                      "new.value > old.value (whose true edge returns ERROR with the old energy); every return carries a "
                      "controller verdict, ERROR, or CONVERGED under the zero-gradient / unchanged-energy tests; subclass "
                      "__call__ overrides reset and delegate", floor=8)
    acceptance_guard(ctx, "R16.1", call)
    # status discipline with the unchanged-energy idiom accepted
    _status(ctx, call)
    every_iteration_checks(ctx, "R16.1", call)
    for c in m.subclasses(D):
        ctx.saw_class(c)
        own = c.methods.get("__call__")
        if own is None:
            continue
        ctx.saw_func(own)
        rets = [r for r in walk_no_nested(own.node) if isinstance(r, ast.Return)]
        deleg = len(rets) == 1 and isinstance(rets[0].value, ast.Call) and call_name(rets[0].value) == "__call__" \
            and "super" in src(rets[0].value.func) and [src(a) for a in rets[0].value.args] == [own.params()[1]]
        if deleg:
            tgt = m.resolve_method(m.mro(c)[1], "__call__") if len(m.mro(c)) > 1 else None
            ctx.check("R16.1", f"{own.key}::delegates to DescentMinimizer.__call__ with the unchanged energy",
                      tgt is call, f"delegates to {tgt.key if tgt else None}", own)
        else:
            acceptance_guard(ctx, "R16.1", own)
            _status(ctx, own)


def _status(ctx, fi):
    """status_discipline + the `new.value == old.value -> CONVERGED` idiom."""
    cfg = cfg_of(fi)
    before = len(ctx.obs)
    status_discipline(ctx, "R16.1", fi)
    for o in ctx.obs[before:]:
        if o.verdict == "violated" and "CONVERGED" in o.key:
            # accept when guarded by equality of the two energy values
            if ".value == " in o.key and "not " not in o.key.split("[")[-1].split(";")[-1]:
                o.verdict = "discharged"
                o.detail = "unchanged-energy test"


LS = "nifty.cl.minimization.line_search"


def r16_2(ctx):
    """success of the line search implies the strong Wolfe conditions at the returned point"""
    from ..terms import inline_at
    m = ctx.model
    L = m.cls(LS, "LineSearch")
    ctx.saw_class(L)
    ctx.rule("R16.2", "every successful return of the line search (perform_line_search and _zoom) is dominated by the sufficient-decrease "
                      "test phi(a) <= phi(0) + c1*a*phi'(0) and by the STRONG curvature test |phi'(a)| <= -c2*phi'(0), both evaluated at "
                      "the very point whose energy is returned", floor=2)
    pls = L.methods.get("perform_line_search")
    zm = L.methods.get("_zoom")
    if pls is None or zm is None:
        ctx.error("LineSearch.perform_line_search/_zoom missing")
        return
    # roles in perform_line_search
    le0 = phi0 = dphi0 = None
    for st in walk_no_nested(pls.node):
        if isinstance(st, ast.Assign) and isinstance(st.targets[0], ast.Name) and isinstance(st.value, ast.Call) and call_name(st.value) == "LineEnergy" \
                and st.value.args and src(st.value.args[0]) in ("0.0", "0", "0.") and src(st.value.args[1]) == pls.params()[1]:
            le0 = st.targets[0].id
    for st in walk_no_nested(pls.node):
        if isinstance(st, ast.Assign) and isinstance(st.targets[0], ast.Name) and le0:
            if src(st.value) == f"{le0}.value":
                phi0 = st.targets[0].id
            if src(st.value) == f"{le0}.directional_derivative":
                dphi0 = st.targets[0].id
    ctx.check("R16.2", f"{pls.key}::phi(0) and phi'(0) are taken at the start point", None not in (le0, phi0, dphi0), f"{le0}, {phi0}, {dphi0}", pls)
    z = [c for c in ast.walk(pls.node) if isinstance(c, ast.Call) and src(c.func) == "self._zoom"]
    zp = zm.params()
    ctx.check("R16.2", f"{pls.key}::zoom receives phi(0), phi'(0) and the start line energy",
              bool(z) and len(zp) >= 9 and all(len(c.args) == 8 and [src(a) for a in c.args][2:4] == [phi0, dphi0] and src(c.args[-1]) == le0 for c in z), None, pls)
    roles = {"perform_line_search": (pls, phi0, dphi0), "_zoom": (zm, zp[3] if len(zp) > 4 else None, zp[4] if len(zp) > 4 else None)}
    for name, (fi, p0, d0) in roles.items():
        ctx.saw_func(fi)
        if p0 is None or d0 is None:
            ctx.und("R16.2", f"{fi.key}::roles", "phi(0)/phi'(0) not identified", fi)
            continue
        cfg = cfg_of(fi)
        rd = cfg.reaching_defs(fi.params())
        for r in [n for n in cfg.nodes if n.kind == "stmt" and isinstance(n.ast, ast.Return)]:
            v = r.ast.value
            if not (isinstance(v, ast.Tuple) and len(v.elts) == 2 and isinstance(v.elts[1], ast.Constant) and v.elts[1].value is True):
                continue
            key = f"{fi.key}::successful return of <line energy>.energy"
            e0 = v.elts[0]
            le = src(e0.value) if isinstance(e0, ast.Attribute) and e0.attr == "energy" else None
            if le is None:
                ctx.und("R16.2", key, "returned energy is not <line energy>.energy", fi, r.ast)
                continue
            atoms = known_atoms(cfg, r.id)
            strong = weak = armijo = False
            alpha = None
            ldef = inline_at(cfg, rd, r.id, ast.Name(id=le, ctx=ast.Load()), depth=1)
            if isinstance(ldef, ast.Call) and call_name(ldef) == "at" and ldef.args:
                alpha = src(ldef.args[0])
            for t, pol in atoms:
                ti = inline_at(cfg, rd, r.id, t, depth=1, stop=(p0, d0, le, alpha or "", "self"))
                from ..terms import canon
                txt = src(ti)
                from ..model import cc
                if pol and canon(cc(f"abs({le}.directional_derivative) <= -self.c2 * {d0}")) == canon(ti):
                    strong = True
                elif pol and "self.c2" in txt and f"{le}.directional_derivative" in txt:
                    weak = True
                from ..model import cc
                if not pol and alpha and canon(cc(f"{le}.value > {p0} + self.c1 * {alpha} * {d0}")) in canon(ti):
                    armijo = True
            why = []
            if not strong:
                why.append("curvature guard is " + ("a one-sided (weak Wolfe) test" if weak else "missing") +
                           ": a point with a steep positive slope can be reported as success")
            if not armijo:
                why.append("sufficient-decrease test at the returned point not found among the guards")
            ctx.check("R16.2", key, strong and armijo, "; ".join(why) or None, fi, r.ast)


_run_c16 = run


def run(ctx):  # noqa: F811
    _run_c16(ctx)
    r16_2(ctx)


# ---------------------------------------------------------------------------------------------------------------- R16.3
def r16_3(ctx, m):
    """index typing of the cached Gram matrices of VL-BFGS"""
    import ast
    from ..model import src, short, walk_no_nested, call_name
    I = m.cls("nifty.cl.minimization.descent_minimizers", "_InformationStore")
    ctx.rule("R16.3", "VL-BFGS information store: an entry M[a, b] of a cached scalar-product matrix named after two vector lists "
                      "(ss, sy, yy) is written as <first list>[a] . <second list>[b]; only matrices of a list with itself may be "
                      "written symmetrically - s_i . y_j is not y... s_j . y_i", floor=4)
    ctx.saw_class(I)
    n = 0
    for name, fi in I.methods.items():
        for st in ast.walk(fi.node):
            if not (isinstance(st, ast.Assign) and isinstance(st.value, ast.Call) and call_name(st.value) in ("s_vdot", "vdot") and isinstance(st.value.func, ast.Attribute)):
                continue
            recv, arg = st.value.func.value, (st.value.args[0] if st.value.args else None)

            def part(e):
                if isinstance(e, ast.Subscript) and isinstance(e.value, ast.Attribute) and isinstance(e.value.value, ast.Name) and e.value.value.id == "self":
                    return e.value.attr, src(e.slice).replace(" ", "")
                return None
            a, b = part(recv), part(arg) if arg is not None else None
            if a is None or b is None:
                continue
            for t in st.targets:
                if not (isinstance(t, ast.Subscript) and isinstance(t.value, ast.Attribute) and isinstance(t.value.value, ast.Name) and t.value.value.id == "self"
                        and isinstance(t.slice, ast.Tuple) and len(t.slice.elts) == 2):
                    continue
                M = t.value.attr
                i1, i2 = [src(x).replace(" ", "") for x in t.slice.elts]
                n += 1
                key = f"{fi.key}::self.{M}[{i1}, {i2}] = self.{a[0]}[{a[1]}] . self.{b[0]}[{b[1]}]"
                named = M == a[0] + b[0]
                straight = (i1, i2) == (a[1], b[1])
                mirrored = (i1, i2) == (b[1], a[1]) and a[0] == b[0]
                ctx.check("R16.3", key, named and (straight or mirrored),
                          None if named and (straight or mirrored) else
                          (f"matrix `{M}` does not belong to the lists ({a[0]}, {b[0]})" if not named else
                           f"entry [{i1}, {i2}] receives {a[0]}[{a[1]}].{b[0]}[{b[1]}]: for two different lists the matrix is not symmetric"), fi, st)
    if n == 0:
        ctx.und("R16.3", f"{I.key}::cached scalar products", "no cache stores found", I)


_run_c16b = run


def run(ctx):  # noqa: F811
    _run_c16b(ctx)
    r16_3(ctx, ctx.model)


def r16_4(ctx, m):
    """two-loop recursion of L_BFGS: loop directions and the pair used for the initial Hessian scaling"""
    from ..util import cfg_of
    from ..terms import canon, inline_at
    ctx.rule("R16.4", "L_BFGS.get_descent_direction is the two-loop recursion: the first loop visits the stored pairs from the newest "
                      "(k-1) to the oldest, the second from the oldest to the newest, both through index i % maxhist; the initial "
                      "Hessian scaling <s,y>/<y,y> uses the NEWEST pair - the index reaching that statement is defined as "
                      "(k-1) % maxhist, not the loop variable left over from the backward loop (which is the oldest pair)", floor=3)
    C = m.cls(DM, "L_BFGS")
    fi = C.methods.get("get_descent_direction")
    if fi is None:
        ctx.error("R16.4: L_BFGS.get_descent_direction missing")
        return
    ctx.saw_func(fi)
    cfg = cfg_of(fi)
    rd = cfg.reaching_defs(fi.params())
    loops = [st for st in walk_no_nested(fi.node) if isinstance(st, ast.For) and isinstance(st.iter, ast.Call) and src(st.iter.func) == "range"]
    loops.sort(key=lambda st: st.lineno)
    key = f"{fi.key}::loop directions"
    if len(loops) != 2:
        ctx.und("R16.4", key, f"{len(loops)} range loops", fi)
        return
    l1, l2 = loops
    # resolve local aliases (k, nhist, maxhist are plain locals)
    a1 = [canon(x, add=True) for x in l1.iter.args]
    a2 = [canon(x, add=True) for x in l2.iter.args]

    def cn(t):
        return canon(ast.parse(t, mode="eval").body, add=True)
    # names: take them from the second loop's stop (newest+1 = k) and the first loop's start (k-1)
    kname = src(l2.iter.args[1]) if len(l2.iter.args) >= 2 else None
    ok1 = len(a1) == 3 and kname is not None and a1[0] == cn(f"{kname}-1") and a1[2] in (cn("-1"),)
    ok2 = len(a2) == 2 and kname is not None
    # same number of visited pairs: start2 == stop1 + 1
    same = ok1 and ok2 and canon(ast.parse(f"({src(l1.iter.args[1])}) + 1", mode="eval").body, add=True) in (a2[0], cn(f"1 + ({src(l1.iter.args[1])})"))
    if same is False and ok1 and ok2:
        # compare through exact linear forms
        from ..poly import poly, p_add, p_const, p_str
        try:
            d = p_add(poly(ast.parse(f"({src(l1.iter.args[1])}) + 1 - ({src(l2.iter.args[0])})", mode="eval").body), p_const(0))
            same = p_str(d) == "0"
        except Exception:
            same = None
    ctx.check("R16.4", key, (ok1 and ok2 and same) if same is not None else None,
              f"first loop range({', '.join(src(x) for x in l1.iter.args)}), second loop range({', '.join(src(x) for x in l2.iter.args)})", fi, l1)
    # index through the ring buffer
    for lp, nm in ((l1, "first"), (l2, "second")):
        iv = lp.target.id if isinstance(lp.target, ast.Name) else None
        idx = [st for st in lp.body if isinstance(st, ast.Assign) and isinstance(st.value, ast.BinOp) and isinstance(st.value.op, ast.Mod)]
        ctx.check("R16.4", f"{fi.key}::{nm} loop addresses the ring buffer at i % history length",
                  len(idx) == 1 and src(idx[0].value.left) == iv, src(idx[0]) if idx else None, fi, lp)
    # the scaling statement
    facts = [n for n in cfg.nodes if n.kind == "stmt" and isinstance(n.ast, ast.Assign) and isinstance(n.ast.value, ast.BinOp)
             and isinstance(n.ast.value.op, ast.Div) and l1.end_lineno < n.ast.lineno < l2.lineno and "s_vdot" in src(n.ast.value)]
    key = f"{fi.key}::initial Hessian scaling uses the newest pair"
    if len(facts) != 1:
        ctx.und("R16.4", key, f"{len(facts)} candidate scaling statements between the loops", fi)
        return
    n = facts[0]
    subs = {src(x.slice) for x in ast.walk(n.ast.value) if isinstance(x, ast.Subscript)}
    if len(subs) != 1:
        ctx.und("R16.4", key, f"indices {sorted(subs)}", fi, n.ast)
        return
    ix = next(iter(subs))
    defs = (rd.get(n.id) or {}).get(ix, ())
    dtexts = []
    for d in defs:
        dn = cfg.nodes[d]
        dtexts.append(src(dn.ast) if dn.ast is not None else "<param>")
    mod_name = None
    good = bool(defs) and all(cfg.nodes[d].kind == "stmt" and isinstance(cfg.nodes[d].ast, ast.Assign) and
                              canon(cfg.nodes[d].ast.value, add=True) in {canon(ast.parse(f"({kname}-1) % {mh}", mode="eval").body, add=True)
                                                                         for mh in {src(st.value.right) for lp in loops for st in lp.body
                                                                                    if isinstance(st, ast.Assign) and isinstance(st.value, ast.BinOp) and isinstance(st.value.op, ast.Mod)}}
                              for d in defs)
    from_loop = any(cfg.nodes[d].ast is not None and any(cfg.nodes[d].ast is st for st in l1.body) for d in defs)
    if good:
        ctx.ok("R16.4", key, f"`{ix}` defined by {dtexts}", fi, n.ast)
    elif from_loop:
        ctx.bad("R16.4", key, f"`{ix}` reaches the scaling from the backward loop ({dtexts}): after that loop it addresses the OLDEST stored pair", fi, n.ast)
    else:
        ctx.und("R16.4", key, f"`{ix}` defined by {dtexts}", fi, n.ast)


_run_c16c = run


def run(ctx):  # noqa: F811
    _run_c16c(ctx)
    r16_4(ctx, ctx.model)


# ---------------------------------------------------------------------------------------------------------------- R16.5
def r16_5(ctx, m):
    R = "R16.5"
    ctx.rule(R, "quasi-Newton minimisers keep their history on the object: every minimisation starts from an empty history - each "
                "subclass of DescentMinimizer whose reset() re-initialises history attributes has a __call__ that performs that "
                "re-initialisation (self.reset() or the same assignments) BEFORE delegating to the base loop; a reset that only runs "
                "in the constructor lets a second run on the same object start with the first run's curvature pairs, so its first "
                "direction is not the negative gradient and the two L-BFGS variants disagree", floor=2)
    from ..util import cfg_of, find_nodes
    mod = m.module("nifty.cl.minimization.descent_minimizers")
    base = mod.classes.get("DescentMinimizer")
    n = 0
    for c in mod.classes.values():
        if c is base or base not in m.mro(c):
            continue
        rs = c.methods.get("reset")
        gd = c.methods.get("get_descent_direction")
        if rs is None or gd is None:
            continue
        hist = {src(t)[5:] for st in walk_no_nested(rs.node) if isinstance(st, ast.Assign) for t in st.targets if src(t).startswith("self.")}
        read = {z.attr for z in ast.walk(gd.node) if isinstance(z, ast.Attribute) and src(z.value) == "self"}
        hist &= read
        if not hist:
            continue
        n += 1
        ctx.saw_class(c)
        key = f"{c.key}::history {sorted(hist)} is emptied at the start of every run"
        call = c.methods.get("__call__")
        if call is None:
            ctx.bad(R, key, "no __call__ override: reset() is not part of a run (the base loop calls it only after a failed line search)", c)
            continue
        cfg = cfg_of(call)
        sup = [n_ for n_, z in find_nodes(cfg, lambda q: isinstance(q, ast.Call) and isinstance(q.func, ast.Attribute) and q.func.attr == "__call__"
                                          and "super" in src(q.func.value))]
        if not sup:
            ctx.und(R, key, "__call__ does not delegate to the base loop", call)
            continue
        dom = cfg.dominators()
        resets = set()
        for n_ in cfg.nodes:
            if n_.ast is None or n_.kind != "stmt":
                continue
            if any(isinstance(z, ast.Call) and src(z.func) == "self.reset" for z in ast.walk(n_.ast)):
                if all(n_.id in dom[s_.id] for s_ in sup):
                    resets |= hist
            if isinstance(n_.ast, ast.Assign):
                for t in n_.ast.targets:
                    if src(t).startswith("self.") and src(t)[5:] in hist and all(n_.id in dom[s_.id] for s_ in sup):
                        resets.add(src(t)[5:])
        ctx.check(R, key, resets >= hist, f"re-initialised before the base loop: {sorted(resets)}; missing {sorted(hist - resets)}", call)
    if not n:
        ctx.und(R, f"{mod.name}::stateful minimisers", "none found", mod.relpath)


_run_c16d = run


def run(ctx):  # noqa: F811
    _run_c16d(ctx)
    r16_5(ctx, ctx.model)
