"""C17 - JAX Newton-CG: acceptance guard, eager/compiled agreement, fallback direction."""
import ast

from ..model import src, short, walk_no_nested, call_name
from ..sibling import guarded_assignments, unfold_where, atom_texts, ntext, atoms_of, jumps_with_guards
from ..terms import norm, subst
from ..util import cfg_of, known_atoms
from .c15 import collect, pick, descent_sign

O = "nifty.re.optimize"
CG = "nifty.re.conjugate_gradient"
DROP = {"status != -1.0", "status < -1.0"}


def cmp_rows(ctx, rule, label, a_rows, b_rows, fa, fb, guards=False, drop=DROP, a_map=None, b_map=None):
    key = f"{O}::_newton_cg <-> _static_newton_cg::{label}"
    if len(a_rows) != 1 or len(b_rows) != 1:
        ctx.und(rule, key, f"selector matched {len(a_rows)} statement(s) in the eager and {len(b_rows)} in the compiled variant", fa)
        return
    a, b = a_rows[0], b_rows[0]
    va = ntext(a[5], a_map) if a_map else a[2]
    vb = ntext(b[5], b_map) if b_map else b[2]
    ga = frozenset(x for x in (atom_texts(a[4].guards, a_map) if a_map else a[3]) if x not in drop)
    gb = frozenset(x for x in b[3] if x not in drop)
    good = va == vb and (ga == gb if guards else True)
    ctx.check(rule, key, good, f"eager: {va}" + (f" if {sorted(ga)}" if guards else "") + f"  |  compiled: {vb}" +
              (f" if {sorted(gb)}" if guards else ""), fb, b[4].stmt)


def run(ctx):
    m = ctx.model
    e = m.func(O, "_newton_cg")
    so = m.func(O, "_static_newton_cg")
    s = m.func(O, "_static_newton_cg.single_newton_cg_step")
    lo = m.func(O, "_line_search_successive_halving")
    l = m.func(O, "_line_search_successive_halving.line_search_single_step")
    for f in (e, so, s, lo, l):
        ctx.saw_func(f)

    # ------------------------------------------------------------------ R17.1
    ctx.rule("R17.1", "no-uphill acceptance: the eager iterate is replaced only after `new_energy <= energy` (else the outer loop is "
                      "left without update); the compiled line search reports success only under `new_energy <= start_energy` "
                      "with start_energy bound to the current energy, and the driver copies the new point only when the search succeeded", floor=6)
    cfg = cfg_of(e)
    rd = cfg.reaching_defs(e.params())
    ups = [n for n in cfg.nodes if n.kind == "stmt" and isinstance(n.ast, ast.Assign) and len(n.ast.targets) == 1
           and isinstance(n.ast.targets[0], ast.Name) and isinstance(n.ast.value, ast.Name)
           and (n.ast.targets[0].id, n.ast.value.id) in (("energy", "new_energy"), ("pos", "new_pos"), ("g", "new_g"))]
    if len(ups) != 3:
        ctx.und("R17.1", f"{e.key}::iterate update statements", f"found {len(ups)}", e)
    for u in ups:
        at = known_atoms(cfg, u.id)
        tn = [n for n in cfg.nodes if n.kind == "test" and src(n.ast) == "new_energy <= energy"]
        good = any(src(t) == "new_energy <= energy" and pol for t, pol in at)
        same = False
        if good and tn:
            t = tn[0]
            same = rd[t.id].get("new_energy") == rd[u.id].get("new_energy") and rd[t.id].get("new_pos") == rd[u.id].get("new_pos") \
                and (u.ast.targets[0].id != "energy" and True or rd[t.id].get("energy") == rd[u.id].get("energy"))
        ctx.check("R17.1", f"{e.key}::`{u.text()}` only after new_energy <= energy", good and same,
                  f"guards {[('' if p else 'not ') + src(t) for t, p in at]}", e, u.ast)
    # the compared point is the evaluated trial point
    L = collect(l)
    st0 = pick(L, "status", guard_has=["<="])
    key = f"{l.key}::success only under new_energy <= start_energy"
    zeros = [r for r in L if r[0] == "status" and r[2] == "0.0"]
    ctx.check("R17.1", key, (len(zeros) == 1 and zeros[0][3] == frozenset({"new_energy <= start_energy"})) if [r for r in L if r[0] == "status"] else None,
              f"status becomes 0 under {[sorted(z[3]) for z in zeros]}", l)
    ne = pick(L, "new_energy")
    ctx.check("R17.1", f"{l.key}::the energy compared is fun_and_grad(new_pos)[0] of the returned new_pos",
              (len(ne) == 1 and ne[0][2] == "fun_and_grad(new_pos)[0.0]") if ne else None, ne[0][2] if ne else None, l)
    ret = [r for r in L if r[0] == "ret"]
    if ret and isinstance(ret[0][5], ast.Dict):
        d = {k.value: src(v) for k, v in zip(ret[0][5].keys, ret[0][5].values)}
        ctx.check("R17.1", f"{l.key}::returns the evaluated trial point", d.get("new_pos") == "new_pos" and d.get("new_energy") == "new_energy"
                  and d.get("new_g") == "new_g" and d.get("status") == "status", str({k: d.get(k) for k in ("new_pos", "new_energy", "new_g", "status")}), l)
    # call site binds start_energy to the current energy and pos to the current pos
    S = collect(s)
    call = [r for r in S if r[0] == "ret_ls"]
    if len(call) == 1 and isinstance(call[0][5], ast.Call):
        a = [src(x) for x in call[0][5].args]
        p = lo.params()
        ctx.check("R17.1", f"{s.key}::line search starts from the current (pos, energy, g) and the CG direction",
                  a[:4] == ["pos", "energy", "g", "nat_g"] and p[:4] == ["pos", "start_energy", "g", "nat_g"], f"args {a[:4]} -> params {p[:4]}", s)
    fail = pick(S, "status", guard_has=["ret_ls"])
    ctx.check("R17.1", f"{s.key}::failed line search ends the minimisation with status -1",
              (len(fail) == 1 and fail[0][2] == "-1.0" and fail[0][3] == frozenset({"ret_ls['status'] != 0.0"})) if call else None, str([(f[2], sorted(f[3])) for f in fail]), s)
    for var, keyname in (("energy", "new_energy"), ("pos", "new_pos"), ("g", "new_g")):
        rows = [r for r in S if r[0] == var and "ret_ls" in r[2]]
        ctx.check("R17.1", f"{s.key}::`{var}` takes the line-search result only when it succeeded",
                  (len(rows) == 1 and rows[0][2] == f"ret_ls['{keyname}']" and rows[0][3] == frozenset({"status < -1.0"})) if (rows or call) and [r for r in S if r[0] == var] else None,
                  str([(r[2], sorted(r[3])) for r in rows]), s)
    # order: the success flag is computed before it gates the copies
    order = [g.target for g in guarded_assignments(s.node)]
    ctx.check("R17.1", f"{s.key}::status is updated from the line search before the copies",
              "ret_ls" in order and order.index("ret_ls") < max(i for i, t in enumerate(order) if t == "status" and i < order.index("energy", order.index("ret_ls")))
              if "ret_ls" in order else None, None, s)

    # ------------------------------------------------------------------ R17.2
    ctx.rule("R17.2", "eager/compiled agreement of Newton-CG: CG tolerances, CG call, trial point, halving, reset after 6 failed "
                      "halvings (direction <g,g>/<g,Hg> g, scaling back to 1), abort after 9, convergence conditions, descent norm", floor=14)
    E = collect(e)
    R = "R17.2"
    emap = {"old_fval": "old_energy"}
    cmp_rows(ctx, R, "CG energy tolerance", pick(E, "cg_absdelta", value_has=["energy_reduction_factor"]),
             pick(S, "cg_absdelta", value_has=["energy_reduction_factor"]), e, s, a_map=emap)
    cmp_rows(ctx, R, "CG energy tolerance without history", pick(E, "cg_absdelta", value_has=["absdelta /"]), pick(S, "cg_absdelta", value_has=["absdelta /"]), e, s)
    cmp_rows(ctx, R, "gradient magnitude", pick(E, "mag_g"), pick(S, "mag_g"), e, s)
    cmp_rows(ctx, R, "CG residual tolerance", pick(E, "cg_resnorm"), pick(S, "cg_resnorm"), e, s)
    cmp_rows(ctx, R, "CG call", pick(E, "cg_res"), pick(S, "cg_res"), e, s)
    cmp_rows(ctx, R, "natural gradient", pick(E, "nat_g"), pick(S, "nat_g"), e, s)
    # default kwargs (the eager variant additionally forwards time_threshold)
    de, ds_ = pick(E, "default_kwargs"), pick(S, "default_kwargs")
    key = f"{O}::_newton_cg <-> _static_newton_cg::CG keyword defaults"
    if len(de) == 1 and len(ds_) == 1 and isinstance(de[0][5], ast.Dict) and isinstance(ds_[0][5], ast.Dict):
        da = {k.value: ntext(v) for k, v in zip(de[0][5].keys, de[0][5].values) if k.value != "time_threshold"}
        db = {k.value: ntext(v) for k, v in zip(ds_[0][5].keys, ds_[0][5].values)}
        ctx.check(R, key, da == db, f"eager {da} | compiled {db}", s, ds_[0][4].stmt)
    else:
        ctx.und(R, key, "dict literal not found", e)
    cmp_rows(ctx, R, "trial point", pick(E, "new_pos", value_has=["grad_scaling"]), pick(L, "new_pos"), e, l)
    cmp_rows(ctx, R, "trial evaluation", pick(E, "new_energy", value_has=["fun_and_grad"]), pick(L, "new_energy"), e, l)
    # halving
    he = [r for r in E if r[0] == "grad_scaling" and r[4].aug == "Div"]
    hl = pick(L, "grad_scaling", value_has=["/"])
    key = f"{O}::_newton_cg <-> line search::step halving"
    if len(he) == 1 and len(hl) == 1:
        ctx.check(R, key, he[0][2] == "2.0" and hl[0][2] == "grad_scaling / 2.0", f"eager: grad_scaling /= {he[0][2]} | compiled: {hl[0][2]}", l, hl[0][4].stmt)
    else:
        ctx.und(R, key, f"{len(he)}/{len(hl)} statements", e)
    # reset
    re_ = pick(E, "dd", value_has=["gam"])
    rl = pick(L, "dd", value_has=["vdot"])
    key = f"{O}::_newton_cg <-> line search::reset direction"
    if len(re_) == 1 and len(rl) == 1:
        gam = pick(E, "gam")
        curv = pick(E, "curv")
        if len(gam) == 1 and len(curv) == 1:
            inl = subst(re_[0][5], {"gam": gam[0][5], "curv": curv[0][5]})
            ctx.check(R, key, ntext(inl) == rl[0][2], f"eager: {ntext(inl)} | compiled: {rl[0][2]}", l, rl[0][4].stmt)
        else:
            ctx.und(R, key, "gam/curv definitions not found", e)
        # reset index
        ge = sorted(re_[0][3])
        dr = pick(L, "do_reset")
        gl = sorted(atom_texts(atoms_of(dr[0][5], True) or [], None)) if len(dr) == 1 else None
        ctx.check(R, f"{O}::_newton_cg <-> line search::reset after the 6th failed trial",
                  ge == ["naive_ls_it == 5.0"] and gl is not None and [x for x in gl if x not in DROP] == ["i == 5.0"], f"eager {ge} | compiled {gl}", l)
        rs_e = pick(E, "grad_scaling", guard_has=["naive_ls_it == 5"])
        rs_l = pick(L, "grad_scaling", guard_has=["do_reset"])
        ctx.check(R, f"{O}::_newton_cg <-> line search::reset restores unit scaling",
                  len(rs_e) == 1 and len(rs_l) == 1 and rs_e[0][2] == rs_l[0][2] == "1.0", None, l)
    else:
        ctx.und(R, key, f"{len(re_)}/{len(rl)} statements", e)
    # abort after 9 trials
    fors = [n for n in walk_no_nested(e.node) if isinstance(n, ast.For) and isinstance(n.target, ast.Name) and n.target.id == "naive_ls_it"]
    da = pick(L, "do_abort")
    key = f"{O}::_newton_cg <-> line search::abort after 9 failed trials"
    if len(fors) == 1 and len(da) == 1:
        ga = sorted(x for x in atom_texts(atoms_of(da[0][5], True) or [], None) if x not in DROP)
        ctx.check(R, key, src(fors[0].iter) == "range(9)" and ga == ["i == 8.0"], f"eager {src(fors[0].iter)} | compiled {ga}", l)
    else:
        ctx.und(R, key, "loop / abort statement not found", e)
    cmp_rows(ctx, R, "descent norm", pick(E, "descent_norm"), pick(S, "descent_norm"), e, s, b_map={"__dicts__": ("ret_ls",)})
    # convergence
    cmp_rows(ctx, R, "convergence: energy change", pick(E, "status", guard_has=["absdelta"]), pick(S, "status", guard_has=["absdelta"]), e, s, guards=True)
    cmp_rows(ctx, R, "convergence: descent norm", pick(E, "status", guard_has=["xtol"]), pick(S, "status", guard_has=["xtol"]), e, s, guards=True)
    mc_e, mc_s = pick(E, "min_cond"), pick(S, "min_cond")
    key = f"{O}::_newton_cg <-> _static_newton_cg::minimum condition for the energy criterion"
    if len(mc_e) == 1 and len(mc_s) == 1:
        # eager counts the index of the successful trial (0-based), the compiled search returns the number of trials
        ae = sorted(atom_texts(atoms_of(mc_e[0][5], True) or [], None))
        as_ = sorted(atom_texts(atoms_of(mc_s[0][5], True) or [], None))
        it = [r for r in L if r[0] == "ret"]
        it_expr = None
        if it and isinstance(it[0][5], ast.Dict):
            it_expr = {k.value: src(v) for k, v in zip(it[0][5].keys, it[0][5].values)}.get("iteration")
        # trials allowed: eager index < N  <=> at most N trials; compiled count < M <=> at most M-1 trials (count = index+1)
        def bound(atoms, name):
            for a in atoms:
                if a.startswith(name + " < "):
                    return float(a.split("<")[1])
            return None
        be = bound(ae, "naive_ls_it")
        bs = bound(as_, "ret_ls['iteration']")
        offset = 1 if it_expr == "i + 1" else (0 if it_expr == "i" else None)
        okk = None
        if None not in (be, bs, offset):
            okk = (be == bs - offset) and [a for a in ae if "naive_ls_it" not in a] == [a for a in as_ if "ret_ls" not in a]
        ctx.check(R, key, okk, f"eager {ae} (0-based trial index) | compiled {as_} with returned iteration = {it_expr}: eager allows "
                               f"{be} trial(s), compiled {None if None in (bs, offset) else bs - offset}", s, mc_s[0][4].stmt)
    else:
        ctx.und(R, key, "min_cond not found", e)
    # iteration limit
    fo = [n for n in walk_no_nested(e.node) if isinstance(n, ast.For) and isinstance(n.target, ast.Name) and n.target.id == "i"]
    lim = pick(S, "status", guard_has=["maxiter"])
    key = f"{O}::_newton_cg <-> _static_newton_cg::iteration limit"
    if len(fo) == 1 and len(lim) == 1:
        ctx.check(R, key, src(fo[0].iter).replace(" ", "") == "range(1,maxiter+1)" and lim[0][2] == "i" and ("i == maxiter" in lim[0][3] or "maxiter == i" in lim[0][3]),
                  f"eager {src(fo[0].iter)} | compiled {sorted(lim[0][3])}", s)
    else:
        ctx.und(R, key, "not found", e)
    for var in ("norm_ord", "miniter", "xtol", "gradnorm"):
        EO = collect(e)
        SO = collect(so)
        a = [r for r in pick(EO, var) if "jnp.iinfo" not in r[2]]
        b = pick(SO, var)
        if var in ("norm_ord", "miniter"):
            a, b = a[:1], b[:1]
            # `x = d if x is None else x` vs `if x is None: x = d`
        if var == "gradnorm":
            a = [r for r in a if "partial" in r[2]]
            b = [r for r in b if "partial" in r[2]]
        cmp_rows(ctx, R, f"default {var}", a, b, e, so)

    # ------------------------------------------------------------------ R17.3
    ctx.rule("R17.3", "negative curvature: the Newton step subtracts the CG solution with positive scaling and the CG fallback "
                      "is a positive multiple of the gradient, so the iteration steps along the negative gradient", floor=3)
    for fi, rows in ((e, E), (l, L)):
        tp = pick(rows, "new_pos", value_has=["dd"])
        key = f"{fi.key}::trial point subtracts the direction"
        if len(tp) != 1:
            ctx.und("R17.3", key, f"{len(tp)} statements", fi)
            continue
        v = tp[0][5]
        okk = isinstance(v, ast.BinOp) and isinstance(v.op, ast.Sub) and src(v.left) == "pos" and src(v.right) in ("grad_scaling * dd", "dd * grad_scaling")
        ctx.check("R17.3", key, okk, src(v), fi)
    from .c15 import fallback_expressions, fallback_step_verdict
    fx = fallback_expressions(m)
    for which in ("eager", "compiled"):
        if which not in fx:
            ctx.und("R17.3", f"{CG}::{which} CG fallback", "path not recognised", e)
            continue
        fi, expr = fx[which]
        verdict, why = fallback_step_verdict(expr)
        ctx.check("R17.3", f"{fi.key}::CG fallback is +c*gradient with c > 0 (so the Newton step moves along the negative gradient)",
                  verdict, f"{src(expr)}: {why}", fi)


# ---------------------------------------------------------------------------------------------------------------- R17.4 / R17.5
def r17_4(ctx, m):
    """net effect of the where-chain on the step scaling in the compiled line search"""
    from ..model import src, walk_no_nested, call_name
    mod = m.module("nifty.re.optimize")
    ls = mod.functions.get("_line_search_successive_halving")
    ctx.rule("R17.4", "compiled line search, net update of the step scaling in one trial: halved after a failed trial, set back to "
                      "exactly 1 when the steepest-descent reset fires (so the reset direction is tried with full, 1/2, 1/4 length like "
                      "the eager variant), unchanged after a successful trial", floor=3)
    if ls is None:
        ctx.error("_line_search_successive_halving missing")
        return
    steps = [f for f in ast.walk(ls.node) if isinstance(f, ast.FunctionDef) and f is not ls.node and
             any(isinstance(s_, ast.Assign) and isinstance(s_.value, ast.Call) and call_name(s_.value) == "where" for s_ in f.body)]
    if len(steps) != 1:
        ctx.und("R17.4", f"{ls.key}::single-step function", f"{len(steps)} candidates", ls)
        return
    st = steps[0]
    # the scaling variable: the one multiplied with the direction in the trial point
    gs = None
    for s_ in st.body:
        if isinstance(s_, ast.Assign) and isinstance(s_.value, ast.BinOp) and isinstance(s_.value.op, ast.Sub) and isinstance(s_.value.right, ast.BinOp) \
                and isinstance(s_.value.right.op, ast.Mult):
            # the factor that is later updated with where(...) is the scaling, the other one the direction
            names = [x.id for x in (s_.value.right.left, s_.value.right.right) if isinstance(x, ast.Name)]
            upd = {t_.targets[0].id for t_ in st.body if isinstance(t_, ast.Assign) and isinstance(t_.targets[0], ast.Name) and isinstance(t_.value, ast.Call)
                   and call_name(t_.value) == "where"}
            cand = [n_ for n_ in names if n_ in upd]
            if len(cand) == 1:
                gs = cand[0]
                break
    # the reset flag: `X = (i == 5) & (status < -1)`
    resetn, failn = None, None
    for s_ in st.body:
        if isinstance(s_, ast.Assign) and isinstance(s_.targets[0], ast.Name) and isinstance(s_.value, ast.BinOp) and isinstance(s_.value.op, ast.BitAnd) \
                and "== 5" in src(s_.value):
            resetn = s_.targets[0].id
            failn = src(s_.value.right).strip("()").replace(" ", "")
    if gs is None or resetn is None:
        ctx.und("R17.4", f"{ls.key}::scaling / reset flag", f"scaling {gs}, reset flag {resetn}", ls)
        return

    from fractions import Fraction

    def lin(e, cur):
        """(coef of S, const) of a scalar expression in the scaling variable"""
        if isinstance(e, ast.Name) and e.id == gs:
            return cur
        if isinstance(e, ast.Constant) and isinstance(e.value, (int, float)) and not isinstance(e.value, bool):
            return (Fraction(0), Fraction(e.value))
        if isinstance(e, ast.BinOp) and isinstance(e.op, (ast.Div, ast.Mult)):
            l, r = lin(e.left, cur), lin(e.right, cur)
            if l is None or r is None:
                return None
            if isinstance(e.op, ast.Div) and r[0] == 0 and r[1] != 0:
                return (l[0] / r[1], l[1] / r[1])
            if isinstance(e.op, ast.Mult) and r[0] == 0:
                return (l[0] * r[1], l[1] * r[1])
            if isinstance(e.op, ast.Mult) and l[0] == 0:
                return (r[0] * l[1], r[1] * l[1])
        return None

    def final(assume):
        """(coef, const) of the scaling after the step body under the assumed truth values of conditions (by source text)"""
        cur = (Fraction(1), Fraction(0))
        for s_ in st.body:
            if isinstance(s_, ast.Assign) and isinstance(s_.targets[0], ast.Name) and s_.targets[0].id == gs and isinstance(s_.value, ast.Call) \
                    and call_name(s_.value) == "where" and len(s_.value.args) == 3:
                c, a_, b_ = s_.value.args
                val = assume.get(src(c).replace(" ", ""))
                if val is None:
                    return None
                cur = lin(a_ if val else b_, cur)
                if cur is None:
                    return None
            elif isinstance(s_, ast.Assign) and any(isinstance(t, ast.Name) and t.id == gs for t in s_.targets) and not (
                    isinstance(s_.value, ast.Subscript) or isinstance(s_.value, ast.Tuple)):
                return None
        return cur
    cases = (("failed trial, no reset", {failn: True, resetn: False}, (Fraction(1, 2), Fraction(0))),
             ("failed trial at the reset point", {failn: True, resetn: True}, (Fraction(0), Fraction(1))),
             ("successful trial", {failn: False, resetn: False}, (Fraction(1), Fraction(0))))
    for label, assume, want in cases:
        v = final(assume)
        show = lambda t: f"{t[0]}*S + {t[1]}"  # noqa: E731
        ctx.check("R17.4", f"{ls.key}::{label}", (v == want) if v is not None else None,
                  (f"scaling becomes {show(v)}" + ("" if v == want else f"; expected {show(want)}")) if v is not None else "where-chain not understood", ls)


def r17_5(ctx, m):
    from ..model import src, walk_no_nested, call_name
    mod = m.module("nifty.re.conjugate_gradient")
    sp_ = mod.functions.get("_cg_steihaug_subproblem")
    ctx.rule("R17.5", "trust-region sub-problem at negative curvature: both intersections of the search line with the trust-region "
                      "boundary are formed and the one with the LOWER model value is taken (the model is evaluated at both)", floor=1)
    if sp_ is None:
        ctx.error("_cg_steihaug_subproblem missing")
        return
    ctx.saw_func(sp_)
    # the model: partial(second_order_approx, ...)
    models = [src(s_.targets[0]) for s_ in walk_no_nested(sp_.node) if isinstance(s_, ast.Assign) and isinstance(s_.value, ast.Call)
              and call_name(s_.value) == "partial" and s_.value.args and src(s_.value.args[0]) == "second_order_approx"]
    cand = []
    for f in ast.walk(sp_.node):
        if isinstance(f, ast.FunctionDef) and f is not sp_.node:
            inter = [s_ for s_ in f.body if isinstance(s_, ast.Assign) and isinstance(s_.value, ast.Call) and call_name(s_.value) == "get_boundaries_intersections"]
            pts = [s_ for s_ in f.body if isinstance(s_, ast.Assign) and isinstance(s_.value, ast.BinOp) and isinstance(s_.value.op, ast.Add)
                   and isinstance(s_.value.right, ast.BinOp) and isinstance(s_.value.right.op, ast.Mult)]
            if inter and len(pts) >= 2:
                cand.append((f, inter[0], pts))
    key = f"{sp_.key}::boundary point with the lower model value"
    if len(cand) != 1 or len(models) != 1:
        ctx.und("R17.5", key, f"{len(cand)} functions forming both boundary points, {len(models)} model bindings", sp_)
        return
    f, inter, pts = cand[0]
    M = models[0]
    pa, pb = [src(p.targets[0]) for p in pts[:2]]
    sel = [s_ for s_ in f.body if isinstance(s_, ast.Assign) and isinstance(s_.value, ast.Call) and call_name(s_.value) == "where" and len(s_.value.args) == 3
           and {src(s_.value.args[1]), src(s_.value.args[2])} == {pa, pb}]
    if len(sel) != 1:
        ctx.und("R17.5", key, "selection where(<cond>, pa, pb) not found", sp_)
        return
    c, x, y = sel[0].value.args
    good = False
    if isinstance(c, ast.Compare) and len(c.ops) == 1:
        l, r = src(c.left).replace(" ", ""), src(c.comparators[0]).replace(" ", "")
        X, Y = src(x), src(y)
        if isinstance(c.ops[0], (ast.Lt, ast.LtE)):
            good = (l, r) == (f"{M}({X})", f"{M}({Y})")
        elif isinstance(c.ops[0], (ast.Gt, ast.GtE)):
            good = (l, r) == (f"{M}({Y})", f"{M}({X})")
    ctx.check("R17.5", key, good, f"`{src(sel[0].value)}`" + ("" if good else f": the choice between {pa} and {pb} does not compare the model "
                                                              f"`{M}` at both points; the farther intersection can lie uphill"), sp_, sel[0])


_run_c17b = run


def run(ctx):  # noqa: F811
    _run_c17b(ctx)
    r17_4(ctx, ctx.model)
    r17_5(ctx, ctx.model)


def r17_6(ctx, m):
    ctx.rule("R17.6", "trust-region Newton-CG: acceptance replaces the WHOLE state atomically - the where(rho > eta, accepted, kept) "
                      "selection carries energy, position, gradient and gradient norm together, both tuples in the same order "
                      "(an energy taken from a rejected proposal makes the next proposal be measured against a point that is not "
                      "the current one)", floor=1)
    fi = m.func(O, "_trust_ncg._trust_region_body_f", required=False)
    if fi is None:
        ctx.und("R17.6", f"{O}::_trust_ncg._trust_region_body_f", "function missing", O)
    else:
        ctx.saw_func(fi)
        sels = [st for st in walk_no_nested(fi.node) if isinstance(st, ast.Assign) and isinstance(st.value, ast.Call) and call_name(st.value) == "where"
                and len(st.value.args) == 3 and isinstance(st.value.args[1], ast.Tuple) and isinstance(st.value.args[2], ast.Tuple) and "rho" in src(st.value.args[0])]
        key = f"{fi.key}::accepted / kept state tuples"
        if len(sels) != 1:
            ctx.und("R17.6", key, f"{len(sels)} state selections on rho", fi)
        else:
            acc, kept = [src(e) for e in sels[0].value.args[1].elts], [src(e) for e in sels[0].value.args[2].elts]
            import re as _re
            roles = lambda names: [_re.sub(r"_k(p1)?", "", n_) for n_ in names]
            # the energies: the two operands of the actual reduction  f_k - f_kp1
            en_names = set()
            for st_ in walk_no_nested(fi.node):
                if isinstance(st_, ast.Assign) and isinstance(st_.value, ast.BinOp) and isinstance(st_.value.op, ast.Sub) and "actual" in src(st_.targets[0]) \
                        and isinstance(st_.value.left, ast.Name) and isinstance(st_.value.right, ast.Name):
                    en_names |= {st_.value.left.id, st_.value.right.id}
            if not en_names:
                ctx.und("R17.6", key, "definition of the actual reduction not found", fi, sels[0])
                en_names = None
            has_f = en_names is None or (any(a in en_names for a in acc) and any(k in en_names for k in kept))
            same = len(acc) == len(kept)
            if not has_f:
                ctx.bad("R17.6", key, f"accepted {acc} / kept {kept}: the energy is not part of the selection, so the energy of a rejected proposal is carried on", fi, sels[0])
            else:
                ctx.check("R17.6", key, True if same else None, f"accepted {acc} / kept {kept}", fi, sels[0])
    ctx.rule("R17.7", "compiled Newton-CG step: the iteration-limit status only applies to a still running state "
                      "(`(i == maxiter) & (status < -1)`) and is assigned after the convergence / line-search verdicts, so a run that "
                      "converges (or aborts) exactly in iteration maxiter reports that verdict, as the eager loop does", floor=2)
    s = m.func(O, "_static_newton_cg.single_newton_cg_step", required=False)
    if s is None:
        ctx.und("R17.7", f"{O}::_static_newton_cg.single_newton_cg_step", "function missing", O)
        return
    ctx.saw_func(s)
    sts = sorted((st for st in walk_no_nested(s.node) if isinstance(st, ast.Assign) and src(st.targets[0]) == "status" and isinstance(st.value, ast.Call)
                  and call_name(st.value) == "where"), key=lambda st: st.lineno)
    lim = [st for st in sts if "maxiter" in src(st.value.args[0])]
    key = f"{s.key}::iteration-limit status"
    if len(lim) != 1:
        ctx.und("R17.7", key, f"{len(lim)} limit assignments", s)
        return
    cond = src(lim[0].value.args[0]).replace(" ", "")
    ctx.check("R17.7", key + " is guarded by the running state", "status<-1" in cond or "-1>status" in cond,
              f"`{src(lim[0])}`: a verdict (0 converged / -1 aborted) assigned earlier in the same step is overwritten", s, lim[0])
    later = [st for st in sts if st.lineno > lim[0].lineno]
    ctx.check("R17.7", key + " is assigned last", not later, f"`{short(later[0], 60)}` follows it" if later else None, s, lim[0])


_run_c17c = run


def run(ctx):  # noqa: F811
    _run_c17c(ctx)
    r17_6(ctx, ctx.model)


def r17_8(ctx, m):
    ctx.rule("R17.8", "trust-region sub-problem: the norm that decides 'the next iterate leaves the trust region' is the norm of the "
                      "boundary the step is cut at - get_boundaries_intersections solves |z + t d|_2 = radius (vdot(z, z), vdot(d, d)), "
                      "so the default of tr_norm_ord must be 2; with a weaker norm the previous iterate can already lie outside the "
                      "sphere, the selected root is negative and the step ascends the model", floor=2)
    gb = m.func(CG, "get_boundaries_intersections", required=False)
    sp_ = m.func(CG, "_cg_steihaug_subproblem", required=False)
    if gb is None or sp_ is None:
        ctx.und("R17.8", f"{CG}::trust-region sub-problem", "functions missing", CG)
        return
    ctx.saw_func(gb)
    ctx.saw_func(sp_)
    t = src(gb.node).replace(" ", "")
    two = "vdot(z,z)-trust_radius**2" in t and "vdot(d,d)" in t
    ctx.check("R17.8", f"{gb.key}::intersects with the 2-norm sphere", True if two else None, None, gb)
    dfl = [st for st in walk_no_nested(sp_.node) if isinstance(st, ast.Assign) and src(st.targets[0]) == "tr_norm_ord" and isinstance(st.value, ast.IfExp)]
    key = f"{sp_.key}::default norm of the trust region"
    if len(dfl) != 1 or not two:
        ctx.und("R17.8", key, "default assignment not found", sp_)
    else:
        d = src(dfl[0].value.body)
        ctx.check("R17.8", key, d in ("2", "2.0"), f"default `{d}`: 'outside' is decided with a norm that is not the one of the sphere the step is cut at", sp_, dfl[0])


_run_c17d = run


def run(ctx):  # noqa: F811
    _run_c17d(ctx)
    r17_8(ctx, ctx.model)


_run_c17e = run


def run(ctx):  # noqa: F811
    _run_c17e(ctx)
    from .refusal import refusal_rule
    refusal_rule(ctx, "R17.9", ["nifty.re.optimize"], "the JAX minimisers", floor=2)
