"""C18 - variational samples: structural clauses only (mirrored samples are exact negatives of the same residual; point-estimated
parameters get zero residuals).  The distribution of the samples is statistical and not decided."""
import ast

from ..model import src, short, walk_no_nested, call_name, is_self_attr
from ..util import cfg_of, find_nodes, known_atoms

SL = "nifty.cl.minimization.sample_list"
KL = "nifty.cl.minimization.kl_energies"
EVI = "nifty.re.evi"
ROK = "nifty.re.optimize_kl"


def run(ctx):
    m = ctx.model
    ctx.rule("R18.1", "mirrored samples are exact negatives of the same residual: the classic sample list adds or subtracts the SAME "
                      "stored residual (flag taken from the same position), linear sampling stores the one drawn residual for both "
                      "members of a pair; the JAX samplers build mirrored samples as the negation of the drawn ones", floor=7)
    R = m.cls(SL, "ResidualSampleList")
    ctx.saw_class(R)
    li = R.methods["local_item"]
    rr = [r for r in walk_no_nested(li.node) if isinstance(r, ast.Return)]
    i = li.params()[1]
    ctx.check("R18.1", f"{li.key}::sample = mean +/- residual[i] with the sign flag of the same position",
              len(rr) == 1 and src(rr[0].value) == f"self._m.flexible_addsub(self._r[{i}], self._n[{i}])", src(rr[0].value) if rr else None, li)
    for modn, clsn in (("nifty.cl.field", "Field"), ("nifty.cl.multi_field", "MultiField")):
        c = m.cls(modn, clsn)
        fa = c.methods["flexible_addsub"]
        ctx.saw_func(fa)
        o, ng = fa.params()[1:3]
        rets = [src(r.value) for r in walk_no_nested(fa.node) if isinstance(r, ast.Return)]
        ctx.check("R18.1", f"{fa.key}::neg selects exact subtraction of the same operand", f"self - {o} if {ng} else self + {o}" in rets, str(rets), fa)
        if clsn == "MultiField":
            okk = False
            for lp in [n for n in walk_no_nested(fa.node) if isinstance(n, ast.For) and src(lp_it := n.iter) == f"{o}.items()" and isinstance(n.target, ast.Tuple)]:
                k_, v_ = [src(e) for e in lp.target.elts]
                vals_ = [s_.value for s_ in ast.walk(lp) if isinstance(s_, ast.Assign) and isinstance(s_.targets[0], ast.Subscript) and src(s_.targets[0].slice) == k_]
                forms = set()
                for e in vals_:
                    if isinstance(e, ast.IfExp) and isinstance(e.test, ast.Call) and [src(a) for a in e.test.args] == [k_]:
                        tgt = None
                        b_, o_ = src(e.body), src(e.orelse)
                        if b_ == f"-{v_}" and o_ == v_:
                            forms.add("new")
                        elif b_.endswith(f" - {v_}") and o_.endswith(f" + {v_}") and b_[:-len(f" - {v_}")] == o_[:-len(f" + {v_}")]:
                            forms.add("existing")
                okk = forms == {"new", "existing"}
            ctx.check("R18.1", f"{fa.key}::key-wise path negates/subtracts with the same flag", okk, None, fa)
    ds = m.func(KL, "draw_samples")
    ctx.saw_func(ds)
    cfg = cfg_of(ds)
    rets = [r for r in walk_no_nested(ds.node) if isinstance(r, ast.Return)]
    okr = len(rets) == 1 and isinstance(rets[0].value, ast.Call) and call_name(rets[0].value) == "ResidualSampleList" and len(rets[0].value.args) == 4 \
        and src(rets[0].value.args[0]) == ds.params()[0] and all(isinstance(a, ast.Name) for a in rets[0].value.args[1:3])
    ctx.check("R18.1", f"{ds.key}::returns ResidualSampleList(position, residuals, flags, comm)", okr, src(rets[0].value) if rets else None, ds)
    if okr:
        rlist, nlist = rets[0].value.args[1].id, rets[0].value.args[2].id
        geo = None
        for st in walk_no_nested(ds.node):
            if isinstance(st, ast.Assign) and src(st.value) == "minimizer is not None" and isinstance(st.targets[0], ast.Name):
                geo = st.targets[0].id
        apps = [(n, c) for n, c in find_nodes(cfg, lambda q: isinstance(q, ast.Call) and call_name(q) == "append")]
        lin_s = [(n, c) for n, c in apps if geo and any(src(t) == geo and not pol for t, pol in known_atoms(cfg, n.id))]
        d = {src(c.func.value): src(c.args[0]) for n, c in lin_s}
        drawn = flag = None
        for st in walk_no_nested(ds.node):
            if isinstance(st, ast.Assign) and isinstance(st.value, ast.Call) and call_name(st.value) == "special_draw_sample" \
                    and isinstance(st.targets[0], ast.Tuple) and len(st.targets[0].elts) == 2:
                drawn = src(st.targets[0].elts[1])
            if isinstance(st, ast.Assign) and isinstance(st.value, ast.BoolOp) and src(st.value.values[0]) == "mirror_samples":
                flag = src(st.targets[0])
        ctx.check("R18.1", f"{ds.key}::linear sampling stores (drawn residual, mirror flag) - both members of a pair share the residual",
                  (len(lin_s) == 2 and d.get(rlist) == drawn and d.get(nlist) == flag and drawn is not None) if geo else None,
                  f"{d}; drawn residual `{drawn}`, flag `{flag}`", ds)
    # JAX
    for modn, qn in ((ROK, "OptimizeVI.draw_linear_samples"), (EVI, "wiener_filter_posterior")):
        fi = m.func(modn, qn, required=False)
        if fi is None:
            continue
        ctx.saw_func(fi)
        cz = [c for c in ast.walk(fi.node) if isinstance(c, ast.Call) and call_name(c) in ("concatenate_zip", "concatenate_zip_pmap") and len(c.args) == 2]
        ctx.check("R18.1", f"{fi.key}::mirrored samples = negation of the drawn samples, interleaved",
                  bool(cz) and all(src(c.args[1]) == f"-{src(c.args[0])}" for c in cz), str([src(c) for c in cz]), fi)
    dls = m.func(ROK, "OptimizeVI.draw_linear_samples")
    sm = [n for n in ast.walk(dls.node) if isinstance(n, ast.FunctionDef) and n.name == "_special_mirror_samples"]
    if sm:
        r = [x for x in ast.walk(sm[0]) if isinstance(x, ast.Return)]
        p = sm[0].args.args[0].arg
        ctx.check("R18.1", f"{dls.key}::sharded path negates exactly the odd (mirrored) rows",
                  len(r) == 1 and src(r[0].value) == f"{p}.at[1::2].set(-{p}[1::2])", src(r[0].value) if r else None, dls)

    ctx.rule("R18.2", "point-estimated parameters get zero residuals: the residual of the liquid parameters is completed by inserting "
                      "zeros at the frozen positions", floor=2)
    ppe = m.func(EVI, "_process_point_estimate")
    ctx.saw_func(ppe)
    body = src(ppe.node)
    fill = [st for st in walk_no_nested(ppe.node) if isinstance(st, ast.Assign) and isinstance(st.targets[0], ast.Name)
            and any(isinstance(c, ast.Call) and call_name(c) == "zeros" for c in ast.walk(st.value))]
    used = False
    if len(fill) == 1:
        fn = fill[0].targets[0].id
        used = any(isinstance(k, ast.keyword) and k.arg == "flat_fill" and fn in src(k.value) for k in ast.walk(ppe.node))
    ctx.check("R18.2", f"{ppe.key}::frozen positions are filled with zeros", len(fill) == 1 and used, None, ppe)
    dlr = m.func(EVI, "draw_linear_residual")
    ctx.saw_func(dlr)
    cfg = cfg_of(dlr)
    rets = [n for n in cfg.nodes if n.kind == "stmt" and isinstance(n.ast, ast.Return)]
    calls = [(n, c) for n, c in find_nodes(cfg, lambda q: isinstance(q, ast.Call) and call_name(q) == "_process_point_estimate")]
    okk = False
    if len(calls) == 1 and len(rets) == 1:
        n_, c_ = calls[0]
        ins = any(k.arg == "insert" and isinstance(k.value, ast.Constant) and k.value.value is True for k in c_.keywords)
        dom = cfg.dominators()
        okk = ins and n_.id in dom[rets[0].id] and isinstance(n_.ast, ast.Assign) and isinstance(rets[0].ast.value, ast.Tuple) \
            and src(rets[0].ast.value.elts[0]) == src(n_.ast.targets[0])
    ctx.check("R18.2", f"{dlr.key}::every returned residual passes through the zero insertion", okk, None, dlr)
