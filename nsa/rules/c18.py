"""C18 - variational samples: structural clauses only (mirrored samples are exact negatives of the same residual; point-estimated
parameters get zero residuals).  The distribution of the samples is statistical and not decided."""
import ast

from ..model import src, short, walk_no_nested, call_name, is_self_attr
from ..util import cfg_of, find_nodes, known_atoms

SL = "nifty.cl.minimization.sample_list"
KL = "nifty.cl.minimization.kl_energies"
EVI = "nifty.re.evi"
ROK = "nifty.re.optimize_kl"



def _white_generators(m):
    """names that draw white noise of a given tree shape: random_like and thin wrappers f(key, primals) around it in nifty.re.evi"""
    out = {"random_like"}
    mod = m.module(EVI)
    for fi in mod.all_functions:
        if fi.parent is not None or len(fi.params()) != 2:
            continue
        calls = [c for c in ast.walk(fi.node) if isinstance(c, ast.Call) and call_name(c) == "random_like"]
        if len(calls) == 1 and [src(a) for a in calls[0].args] + [src(k.value) for k in calls[0].keywords] == fi.params():
            out.add(fi.name)
    return out


def run(ctx):
    m = ctx.model
    ctx.rule("R18.1", "mirrored samples are exact negatives of the same residual: the classic sample list adds or subtracts the SAME "
                      "stored residual (flag taken from the same position), linear sampling stores the one drawn residual for both "
                      "members of a pair; the JAX samplers build mirrored samples as the negation of the drawn ones", floor=7)
    R = m.cls(SL, "ResidualSampleList")
    ctx.saw_class(R)
    li = R.methods["local_item"]
    rr = [r for r in walk_no_nested(li.node) if isinstance(r, ast.Return)]
    i = li.params()[1]
    ctx.check("R18.1", f"{li.key}::sample = mean +/- residual[i] with the sign flag of the same position",
              len(rr) == 1 and src(rr[0].value) == f"self._m.flexible_addsub(self._r[{i}], self._n[{i}])", src(rr[0].value) if rr else None, li)
    for modn, clsn in (("nifty.cl.field", "Field"), ("nifty.cl.multi_field", "MultiField")):
        c = m.cls(modn, clsn)
        fa = c.methods["flexible_addsub"]
        ctx.saw_func(fa)
        o, ng = fa.params()[1:3]
        rets = [src(r.value) for r in walk_no_nested(fa.node) if isinstance(r, ast.Return)]
        ctx.check("R18.1", f"{fa.key}::neg selects exact subtraction of the same operand", f"self - {o} if {ng} else self + {o}" in rets, str(rets), fa)
        if clsn == "MultiField":
            okk = False
            for lp in [n for n in walk_no_nested(fa.node) if isinstance(n, ast.For) and src(lp_it := n.iter) == f"{o}.items()" and isinstance(n.target, ast.Tuple)]:
                k_, v_ = [src(e) for e in lp.target.elts]
                vals_ = [s_.value for s_ in ast.walk(lp) if isinstance(s_, ast.Assign) and isinstance(s_.targets[0], ast.Subscript) and src(s_.targets[0].slice) == k_]
                forms = set()
                for e in vals_:
                    if isinstance(e, ast.IfExp) and isinstance(e.test, ast.Call) and [src(a) for a in e.test.args] == [k_]:
                        tgt = None
                        b_, o_ = src(e.body), src(e.orelse)
                        if b_ == f"-{v_}" and o_ == v_:
                            forms.add("new")
                        elif b_.endswith(f" - {v_}") and o_.endswith(f" + {v_}") and b_[:-len(f" - {v_}")] == o_[:-len(f" + {v_}")]:
                            forms.add("existing")
                okk = forms == {"new", "existing"}
            ctx.check("R18.1", f"{fa.key}::key-wise path negates/subtracts with the same flag", okk, None, fa)
    ds = m.func(KL, "draw_samples")
    ctx.saw_func(ds)
    cfg = cfg_of(ds)
    rets = [r for r in walk_no_nested(ds.node) if isinstance(r, ast.Return)]
    okr = len(rets) == 1 and isinstance(rets[0].value, ast.Call) and call_name(rets[0].value) == "ResidualSampleList" and len(rets[0].value.args) == 4 \
        and src(rets[0].value.args[0]) == ds.params()[0] and all(isinstance(a, ast.Name) for a in rets[0].value.args[1:3])
    ctx.check("R18.1", f"{ds.key}::returns ResidualSampleList(position, residuals, flags, comm)", okr, src(rets[0].value) if rets else None, ds)
    if okr:
        rlist, nlist = rets[0].value.args[1].id, rets[0].value.args[2].id
        geo = None
        for st in walk_no_nested(ds.node):
            if isinstance(st, ast.Assign) and src(st.value) == "minimizer is not None" and isinstance(st.targets[0], ast.Name):
                geo = st.targets[0].id
        apps = [(n, c) for n, c in find_nodes(cfg, lambda q: isinstance(q, ast.Call) and call_name(q) == "append")]
        lin_s = [(n, c) for n, c in apps if geo and any(src(t) == geo and not pol for t, pol in known_atoms(cfg, n.id))]
        d = {src(c.func.value): src(c.args[0]) for n, c in lin_s}
        drawn = flag = None
        for st in walk_no_nested(ds.node):
            if isinstance(st, ast.Assign) and isinstance(st.value, ast.Call) and call_name(st.value) == "special_draw_sample" \
                    and isinstance(st.targets[0], ast.Tuple) and len(st.targets[0].elts) == 2:
                drawn = src(st.targets[0].elts[1])
            if isinstance(st, ast.Assign) and isinstance(st.value, ast.BoolOp) and src(st.value.values[0]) == "mirror_samples":
                flag = src(st.targets[0])
        ctx.check("R18.1", f"{ds.key}::linear sampling stores (drawn residual, mirror flag) - both members of a pair share the residual",
                  (len(lin_s) == 2 and d.get(rlist) == drawn and d.get(nlist) == flag and drawn is not None) if geo else None,
                  f"{d}; drawn residual `{drawn}`, flag `{flag}`", ds)
    # JAX
    for modn, qn in ((ROK, "OptimizeVI.draw_linear_samples"), (EVI, "wiener_filter_posterior")):
        fi = m.func(modn, qn, required=False)
        if fi is None:
            continue
        ctx.saw_func(fi)
        cz = [c for c in ast.walk(fi.node) if isinstance(c, ast.Call) and call_name(c) in ("concatenate_zip", "concatenate_zip_pmap") and len(c.args) == 2]
        ctx.check("R18.1", f"{fi.key}::mirrored samples = negation of the drawn samples, interleaved",
                  bool(cz) and all(src(c.args[1]) == f"-{src(c.args[0])}" for c in cz), str([src(c) for c in cz]), fi)
    dls = m.func(ROK, "OptimizeVI.draw_linear_samples")
    sm = [n for n in ast.walk(dls.node) if isinstance(n, ast.FunctionDef) and n.name == "_special_mirror_samples"]
    if sm:
        r = [x for x in ast.walk(sm[0]) if isinstance(x, ast.Return)]
        p = sm[0].args.args[0].arg
        ctx.check("R18.1", f"{dls.key}::sharded path negates exactly the odd (mirrored) rows",
                  len(r) == 1 and src(r[0].value) == f"{p}.at[1::2].set(-{p}[1::2])", src(r[0].value) if r else None, dls)

    ctx.rule("R18.2", "point-estimated parameters get zero residuals: the residual of the liquid parameters is completed by inserting "
                      "zeros at the frozen positions", floor=2)
    ppe = m.func(EVI, "_process_point_estimate")
    ctx.saw_func(ppe)
    body = src(ppe.node)
    fill = [st for st in walk_no_nested(ppe.node) if isinstance(st, ast.Assign) and isinstance(st.targets[0], ast.Name)
            and any(isinstance(c, ast.Call) and call_name(c) == "zeros" for c in ast.walk(st.value))]
    used = False
    if len(fill) == 1:
        fn = fill[0].targets[0].id
        used = any(isinstance(k, ast.keyword) and k.arg == "flat_fill" and fn in src(k.value) for k in ast.walk(ppe.node))
    ctx.check("R18.2", f"{ppe.key}::frozen positions are filled with zeros", len(fill) == 1 and used, None, ppe)
    dlr = m.func(EVI, "draw_linear_residual")
    ctx.saw_func(dlr)
    cfg = cfg_of(dlr)
    rets = [n for n in cfg.nodes if n.kind == "stmt" and isinstance(n.ast, ast.Return)]
    calls = [(n, c) for n, c in find_nodes(cfg, lambda q: isinstance(q, ast.Call) and call_name(q) == "_process_point_estimate")]
    okk = False
    if len(calls) == 1 and len(rets) == 1:
        n_, c_ = calls[0]
        ins = any(k.arg == "insert" and isinstance(k.value, ast.Constant) and k.value.value is True for k in c_.keywords)
        dom = cfg.dominators()
        okk = ins and n_.id in dom[rets[0].id] and isinstance(n_.ast, ast.Assign) and isinstance(rets[0].ast.value, ast.Tuple) \
            and src(rets[0].ast.value.elts[0]) == src(n_.ast.targets[0])
    ctx.check("R18.2", f"{dlr.key}::every returned residual passes through the zero insertion", okk, None, dlr)


def _lin(e, atoms, ops):
    """linear normal form over atoms: {term: Fraction}; term = atom name or (op, atom). None if not understood"""
    from fractions import Fraction

    def add(a, b, sg=1):
        out = dict(a)
        for k, v in b.items():
            out[k] = out.get(k, 0) + sg * v
            if out[k] == 0:
                del out[k]
        return out
    if isinstance(e, ast.Name) and e.id in atoms:
        return {atoms[e.id]: Fraction(1)}
    if isinstance(e, ast.UnaryOp) and isinstance(e.op, ast.USub):
        a = _lin(e.operand, atoms, ops)
        return None if a is None else {k: -v for k, v in a.items()}
    if isinstance(e, ast.BinOp) and isinstance(e.op, (ast.Add, ast.Sub)):
        a, b = _lin(e.left, atoms, ops), _lin(e.right, atoms, ops)
        return None if a is None or b is None else add(a, b, 1 if isinstance(e.op, ast.Add) else -1)
    if isinstance(e, ast.BinOp) and isinstance(e.op, ast.Mult):
        for c, x in ((e.left, e.right), (e.right, e.left)):
            if isinstance(c, ast.Constant) and isinstance(c.value, (int, float)) and not isinstance(c.value, bool):
                a = _lin(x, atoms, ops)
                return None if a is None else {k: v * Fraction(c.value) for k, v in a.items() if v * Fraction(c.value) != 0}
    if isinstance(e, ast.Call) and src(e.func) in ops and len(e.args) == 1 and not e.keywords:
        a = _lin(e.args[0], atoms, ops)
        if a is None:
            return None
        out = {}
        for k, v in a.items():
            if not isinstance(k, str):
                return None
            for o_, w in ops[src(e.func)].items():
                out[(o_, k)] = out.get((o_, k), 0) + v * w
        return {k: v for k, v in out.items() if v != 0}
    return None


def _lin_env(e, env, ops):
    """like _lin, but names stand for linear forms already computed"""
    from fractions import Fraction

    def comb(a, b, sg=1):
        out = dict(a)
        for k, v in b.items():
            out[k] = out.get(k, 0) + sg * v
        return {k: v for k, v in out.items() if v != 0}
    if isinstance(e, ast.Name):
        return dict(env[e.id]) if e.id in env else None
    if isinstance(e, ast.UnaryOp) and isinstance(e.op, ast.USub):
        a = _lin_env(e.operand, env, ops)
        return None if a is None else {k: -v for k, v in a.items()}
    if isinstance(e, ast.BinOp) and isinstance(e.op, (ast.Add, ast.Sub)):
        a, b = _lin_env(e.left, env, ops), _lin_env(e.right, env, ops)
        return None if a is None or b is None else comb(a, b, 1 if isinstance(e.op, ast.Add) else -1)
    if isinstance(e, ast.BinOp) and isinstance(e.op, ast.Mult):
        for c, x in ((e.left, e.right), (e.right, e.left)):
            if isinstance(c, ast.Constant) and isinstance(c.value, (int, float)) and not isinstance(c.value, bool):
                a = _lin_env(x, env, ops)
                return None if a is None else {k: v * Fraction(c.value) for k, v in a.items() if v * Fraction(c.value) != 0}
    if isinstance(e, ast.Call) and src(e.func) in ops and len(e.args) == 1 and not e.keywords:
        a = _lin_env(e.args[0], env, ops)
        if a is None:
            return None
        out = {}
        for k, v in a.items():
            if not isinstance(k, str):
                return None
            for o_, w in ops[src(e.func)].items():
                out[(o_, k)] = out.get((o_, k), 0) + v * w
        return {k: v for k, v in out.items() if v != 0}
    return None


def r18_3(ctx, m):
    """assembly of the linear residual: a metric-distributed right-hand side, solved with that metric at the same point"""
    from fractions import Fraction
    ctx.rule("R18.3", "linear residuals are M^-1 applied to a draw with covariance M = L + P, built from independent draws: "
                      "nifty.re draw_linear_residual adds left_sqrt_metric(pos, white noise of the data-space shape) and a standard "
                      "normal draw of the liquid position's shape, drawn with the two halves of ONE key split, and solves with "
                      "likelihood.metric + identity at the same position (CG failure raises); classic SamplingEnabler draws s from "
                      "P^-1 and n from L, solves (L+P) x = P s + n starting at s with the matching initial gradient L s - n "
                      "(or draws from L+P directly and starts at 0), and returns the CG position", floor=10)
    # ---- JAX
    dlr = m.func(EVI, "draw_linear_residual")
    ctx.saw_func(dlr)
    stmts = sorted((s_ for s_ in walk_no_nested(dlr.node) if isinstance(s_, ast.stmt)), key=lambda s_: s_.lineno)
    par = dlr.params()
    lh, pos, keyn = par[0], par[1], par[2]
    asg = {}
    for st in stmts:
        if isinstance(st, ast.Assign) and len(st.targets) == 1:
            asg.setdefault(src(st.targets[0]), []).append(st)
    split = [st for st in stmts if isinstance(st, ast.Assign) and isinstance(st.value, ast.Call) and call_name(st.value) == "split"
             and isinstance(st.targets[0], ast.Tuple)]
    key = f"{dlr.key}::one split of `{keyn}` into two sub-keys"
    if len(split) != 1 or len(split[0].targets[0].elts) != 2:
        ctx.und("R18.3", key, f"{len(split)} key splits", dlr)
        return
    k1, k2 = [src(e) for e in split[0].targets[0].elts]
    ctx.check("R18.3", key, src(split[0].value.args[0]) == keyn and k1 != k2, src(split[0]), dlr, split[0])
    nll = [st for st in stmts if isinstance(st, ast.Assign) and isinstance(st.value, ast.Call) and call_name(st.value) == "sample_likelihood"]
    prr = [st for st in stmts if isinstance(st, ast.Assign) and isinstance(st.value, ast.Call) and call_name(st.value) in _white_generators(m)]
    key = f"{dlr.key}::likelihood draw at the sampling position with one sub-key, prior draw of the liquid shape with the other"
    if len(nll) != 1 or len(prr) != 1:
        ctx.und("R18.3", key, f"{len(nll)} sample_likelihood / {len(prr)} white-noise calls", dlr)
        return

    def kwv(c, name, posn=None):
        for k in c.keywords:
            if k.arg == name:
                return src(k.value)
        if posn is not None and len(c.args) > posn:
            return src(c.args[posn])
        return None
    nk, pk = kwv(nll[0].value, "key", 3), kwv(prr[0].value, "key", 0)
    liquid = kwv(prr[0].value, "primals", 1)
    liq_defs = asg.get(liquid, [])
    liq_ok = liquid == pos or (len(liq_defs) == 2 and any(src(d.value) == pos for d in liq_defs)
                               and any(isinstance(d.targets[0], ast.Tuple) or "freeze" in src(d.value) for d in liq_defs)) \
        or any("freeze" in src(d.value) and f"primals={pos}" in src(d.value).replace(" ", "") for st_ in stmts if isinstance(st_, ast.Assign)
               for d in [st_] if liquid in [src(e) for e in (st_.targets[0].elts if isinstance(st_.targets[0], ast.Tuple) else [st_.targets[0]])])
    a = [src(x) for x in nll[0].value.args[:3]]
    ctx.check("R18.3", key, a == [lh, "point_estimates", pos] and {nk, pk} == {k1, k2} and bool(liq_ok),
              f"{src(nll[0])}; {src(prr[0])}", dlr, nll[0])
    # the metric-distributed sum
    nn, pn = src(nll[0].targets[0]), src(prr[0].targets[0])
    atoms = {nn: "n", pn: "p"}
    for st in stmts:  # plain aliases
        if isinstance(st, ast.Assign) and isinstance(st.value, ast.Name) and st.value.id in atoms and isinstance(st.targets[0], ast.Name):
            atoms[st.targets[0].id] = atoms[st.value.id]
    solves0 = [st for st in stmts if isinstance(st, ast.Assign) and isinstance(st.targets[0], ast.Tuple) and isinstance(st.value, ast.Call)
               and st.value.args and any(k.arg == "x0" for k in st.value.keywords)]
    key = f"{dlr.key}::right-hand side = likelihood draw +/- prior draw (each once)"
    if len(solves0) != 1:
        ctx.und("R18.3", key, f"{len(solves0)} solves with a start value", dlr)
        return
    rhs = src(solves0[0].value.args[0])
    rdefs = [st for st in stmts if isinstance(st, ast.Assign) and src(st.targets[0]) == rhs and st.lineno < solves0[0].lineno]
    if len(rdefs) != 1:
        ctx.und("R18.3", key, f"{len(rdefs)} definitions of `{rhs}` before the solve", dlr)
        return
    f = _lin(rdefs[0].value, atoms, {})
    if f is None:
        ctx.und("R18.3", key, f"`{src(rdefs[0].value)}` not understood", dlr, rdefs[0])
        return
    ctx.check("R18.3", key, set(f) == {"n", "p"} and all(abs(v) == 1 for v in f.values()), f"{src(rdefs[0])} reads as {f}", dlr, rdefs[0])
    # the solve
    hm = [st for st in stmts if isinstance(st, ast.Assign) and isinstance(st.value, ast.Call) and src(st.value.func) == "partial"
          and any("_ham_metric" in src(a_) for a_ in st.value.args)]
    key = f"{dlr.key}::the CG operator is _ham_metric(likelihood, point_estimates, {pos}, .)"
    if len(hm) != 1:
        ctx.und("R18.3", key, "ham_metric binding not found", dlr)
    else:
        hn = src(hm[0].targets[0])
        bound = [src(a_) for a_ in hm[0].value.args[1:]]
        cgp = [c for c in walk_no_nested(dlr.node) if isinstance(c, ast.Call) and src(c.func) in ("Partial", "partial") and c.args and src(c.args[0]) == hn]
        ctx.check("R18.3", key, bound == [lh, "point_estimates"] and len(cgp) == 1 and [src(a_) for a_ in cgp[0].args[1:]] == [pos],
                  f"{src(hm[0].value)}; {[src(c) for c in cgp]}", dlr, hm[0])
    hmf = m.func(EVI, "_ham_metric")
    ctx.saw_func(hmf)
    hp = hmf.params()
    rets = [r for r in walk_no_nested(hmf.node) if isinstance(r, ast.Return)]
    fr = [st for st in walk_no_nested(hmf.node) if isinstance(st, ast.Assign) and "freeze" in src(st.value) and isinstance(st.targets[0], ast.Tuple)]
    key = f"{hmf.key}::likelihood metric at the frozen-split position + identity"
    if len(rets) != 1 or len(fr) != 1:
        ctx.und("R18.3", key, "shape not recognised", hmf)
    else:
        lhn, pl = [src(e) for e in fr[0].targets[0].elts]
        from ..terms import canon
        want = canon(ast.parse(f"{lhn}.metric({pl}, {hp[3]}, **primals_kw) + {hp[3]}", mode="eval").body, add=True)
        okf = f"primals={hp[2]}" in src(fr[0].value).replace(" ", "") and f"point_estimates={hp[1]}" in src(fr[0].value).replace(" ", "")
        ctx.check("R18.3", key, canon(rets[0].value, add=True) == want and okf, f"{src(fr[0])}; {src(rets[0])}", hmf, rets[0])
    slf = m.func(EVI, "sample_likelihood")
    ctx.saw_func(slf)
    sp_ = slf.params()
    rets = [r for r in walk_no_nested(slf.node) if isinstance(r, ast.Return)]
    fr = [st for st in walk_no_nested(slf.node) if isinstance(st, ast.Assign) and "freeze" in src(st.value) and isinstance(st.targets[0], ast.Tuple)]
    wn = [st for st in walk_no_nested(slf.node) if isinstance(st, ast.Assign) and isinstance(st.value, ast.Call) and call_name(st.value) in _white_generators(m)]
    key = f"{slf.key}::left_sqrt_metric(liquid position, white noise of left_sqrt_metric_tangents_shape)"
    if len(rets) != 1 or len(fr) != 1 or len(wn) != 1:
        ctx.und("R18.3", key, "shape not recognised", slf)
    else:
        lhn, pl = [src(e) for e in fr[0].targets[0].elts]
        w = src(wn[0].targets[0])
        a = [src(x) for x in wn[0].value.args] + [src(k.value) for k in wn[0].value.keywords]
        ctx.check("R18.3", key, src(rets[0].value) == f"{lhn}.left_sqrt_metric({pl}, {w})" and a == [sp_[3], f"{lhn}.left_sqrt_metric_tangents_shape"],
                  f"{src(wn[0])}; {src(rets[0])}", slf, rets[0])
    # result of the solve replaces the sample; failure raises
    cfg = cfg_of(dlr)
    solves = [st for st in stmts if isinstance(st, ast.Assign) and isinstance(st.targets[0], ast.Tuple) and isinstance(st.value, ast.Call)
              and st.value.args and src(st.value.args[0]) == rhs]
    key = f"{dlr.key}::from_inverse: the solve's result replaces the sample and a negative CG status raises"
    if len(solves) != 1:
        ctx.und("R18.3", key, f"{len(solves)} solves of `{rhs}`", dlr)
    else:
        tg = [src(e) for e in solves[0].targets[0].elts]
        raises = [c for c in walk_no_nested(dlr.node) if isinstance(c, ast.Call) and call_name(c) == "conditional_raise"]
        okr = len(raises) == 1 and f"{tg[1]} < 0" in src(raises[0].args[0])
        ctx.check("R18.3", key, tg[0] == rhs and okr, f"{src(solves[0])}; {[src(c)[:80] for c in raises]}", dlr, solves[0])
    sampling_enabler_assembly(ctx, m, "R18.3")


def sampling_enabler_assembly(ctx, m, rid):
    """classic SamplingEnabler.special_draw_sample: (L+P) x = P s + n with s ~ P^-1, n ~ L"""
    from fractions import Fraction

    def kwv(c, name, posn=None):
        for k in c.keywords:
            if k.arg == name:
                return src(k.value)
        if posn is not None and len(c.args) > posn:
            return src(c.args[posn])
        return None
    # ---- classic
    SE = m.cls("nifty.cl.operators.sampling_enabler", "SamplingEnabler")
    ctx.saw_class(SE)
    ini, sd = SE.methods["__init__"], SE.methods["special_draw_sample"]
    ctx.saw_func(sd)
    opdef = [st for st in walk_no_nested(ini.node) if isinstance(st, ast.Assign) and src(st.targets[0]) == "self._op"]
    lp = ini.params()[1:3]
    key = f"{ini.key}::the sampled operator is likelihood + prior"
    okop = len(opdef) == 1 and _lin(opdef[0].value, {lp[0]: "L", lp[1]: "P"}, {}) == {"L": Fraction(1), "P": Fraction(1)}
    attr_ok = all(any(isinstance(st, ast.Assign) and src(st.targets[0]) == f"self._{n_}" and src(st.value) == n_ for st in walk_no_nested(ini.node))
                  for n_ in lp)
    ctx.check(rid, key, okop and attr_ok, src(opdef[0]) if opdef else None, ini)
    ops = {"self._op": {"L": Fraction(1), "P": Fraction(1)}, "self._likelihood": {"L": Fraction(1)}, "self._prior": {"P": Fraction(1)}}
    handlers = [h for t in ast.walk(sd.node) if isinstance(t, ast.Try) for h in t.handlers]
    trys = [t for t in ast.walk(sd.node) if isinstance(t, ast.Try)]
    key = f"{sd.key}::direct path returns (op(sample), sample)"
    if len(trys) != 1 or len(handlers) != 1:
        ctx.und(rid, key, "try/except shape not recognised", sd)
        return
    tb = trys[0].body
    d0 = [st for st in tb if isinstance(st, ast.Assign) and isinstance(st.value, ast.Call) and src(st.value.func) == "self._op.draw_sample"]
    r0 = [st for st in tb if isinstance(st, ast.Return)]
    okd = len(d0) == 1 and len(r0) == 1 and isinstance(r0[0].value, ast.Tuple) and \
        [src(e) for e in r0[0].value.elts] == [f"self._op({src(d0[0].targets[0])})", src(d0[0].targets[0])] and \
        src(d0[0].value.args[0]) == sd.params()[1]
    ctx.check(rid, key, okd, "; ".join(src(s_) for s_ in tb), sd, trys[0])
    hb = handlers[0].body
    from ..util import strip_not

    def paths(stmts, zero):
        """straight-line statement list of the handler for start_from_zero = zero"""
        out = []
        for st in stmts:
            if isinstance(st, ast.If) and "start_from_zero" in src(st.test):
                _, pol = strip_not(st.test)
                take = st.body if (zero == pol) else st.orelse
                out += paths(take, zero)
            elif isinstance(st, ast.If):
                if "from_inverse" in src(st.test):
                    continue  # the refusal of forward sampling
                out.append(st)
            else:
                out.append(st)
        return out
    if not any(isinstance(st, ast.If) and "start_from_zero" in src(st.test) for st in hb):
        ctx.und(rid, f"{sd.key}::iterative path", "start_from_zero branch not found", sd)
        return
    for zero, label in ((True, "start_from_zero: right-hand side with covariance L+P, CG starts at 0 with the matching gradient"),
                        (False, "default: s ~ P^-1, n ~ L, b = P s + n, start at s with gradient L s - n")):
        key_ = f"{sd.key}::{label}"
        env, kinds, qcall, qst = {}, {}, None, None
        try:
            for st in paths(hb, zero):
                if not (isinstance(st, ast.Assign) and len(st.targets) == 1 and isinstance(st.targets[0], ast.Name)):
                    continue
                nm, v = st.targets[0].id, st.value
                if isinstance(v, ast.Call) and call_name(v) == "draw_sample" and isinstance(v.func, ast.Attribute):
                    fi_ = kwv(v, "from_inverse", 0)
                    atom = f"d{len(kinds)}"
                    kinds[atom] = (src(v.func.value), fi_ == "True")
                    env[nm] = {atom: Fraction(1)}
                elif isinstance(v, ast.Call) and call_name(v) == "QuadraticEnergy":
                    qcall, qst = v, st
                    break
                else:
                    names = {k: k for k in env}
                    lf = _lin_env(v, env, ops)
                    if lf is not None:
                        env[nm] = lf
                    else:
                        env.pop(nm, None)
            if qcall is None:
                ctx.und(rid, key_, "QuadraticEnergy construction not found", sd)
                continue
            x0 = _lin_env(qcall.args[0], env, ops)
            b = _lin_env(qcall.args[2], env, ops) if len(qcall.args) > 2 else None
            g = [k.value for k in qcall.keywords if k.arg == "_grad"]
            gl = _lin_env(g[0], env, ops) if g else None
            if src(qcall.args[1]) != "self._op" or x0 is None or b is None or (g and gl is None):
                ctx.und(rid, key_, f"x0 = {x0}; b = {b}; _grad = {gl}", sd, qst)
                continue
            # covariance of b: sum over independent draws; (L+P)-distributed iff b = one draw from L+P, or P s + n with s ~ P^-1 and n ~ L
            def cov_ok(b):
                items = sorted(b.items(), key=str)
                if len(items) == 1 and isinstance(items[0][0], str) and kinds.get(items[0][0]) == ("self._op", False) and abs(items[0][1]) == 1:
                    return True
                if len(items) == 2:
                    plain = [(k, v) for k, v in items if isinstance(k, str)]
                    appl = [(k, v) for k, v in items if not isinstance(k, str)]
                    if len(plain) == 1 and len(appl) == 1 and abs(plain[0][1]) == 1 and abs(appl[0][1]) == 1:
                        return kinds.get(plain[0][0]) == ("self._likelihood", False) and appl[0][0][0] == "P" and kinds.get(appl[0][0][1]) == ("self._prior", True)
                return False
            mx = {}
            for k, v in x0.items():
                if not isinstance(k, str):
                    mx = None
                    break
                for o_ in ("L", "P"):
                    mx[(o_, k)] = mx.get((o_, k), 0) + v
            if mx is None:
                ctx.und(rid, key_, f"start value {x0} is not a combination of draws", sd, qst)
                continue
            for k, v in b.items():
                mx[k] = mx.get(k, 0) - v
            mx = {k: v for k, v in mx.items() if v != 0}
            det = f"draws {kinds}; b = {b}; x0 = {x0}; _grad = {gl}; (L+P) x0 - b = {mx}"
            start_ok = (x0 == {}) if zero else True
            ctx.check(rid, key_, cov_ok(b) and (not g or gl == mx) and start_ok, det, sd, qst)
        except RecursionError:
            ctx.und(rid, key_, "not understood", sd)
    rets = [r for r in handlers[0].body if isinstance(r, ast.Return)]
    qes = [st for st in ast.walk(handlers[0]) if isinstance(st, ast.Assign) and isinstance(st.value, ast.Call) and call_name(st.value) == "QuadraticEnergy"]
    en_names = {src(st.targets[0]) for st in qes}
    b_names = {src(st.value.args[2]) for st in qes if len(st.value.args) > 2}
    inv = [st for st in ast.walk(handlers[0]) if isinstance(st, ast.Assign) and isinstance(st.value, ast.Call) and isinstance(st.targets[0], ast.Tuple)
           and st.value.args and src(st.value.args[0]) in en_names]
    key = f"{sd.key}::returns (right-hand side, position of the CG result)"
    ok = len(rets) == 1 and isinstance(rets[0].value, ast.Tuple) and len(rets[0].value.elts) == 2 and inv and len(en_names) == 1 and len(b_names) == 1 and \
        all(src(st.targets[0].elts[0]) == src(inv[0].targets[0].elts[0]) for st in inv) and \
        src(rets[0].value.elts[1]) == f"{src(inv[0].targets[0].elts[0])}.position" and src(rets[0].value.elts[0]) in b_names
    ctx.check(rid, key, bool(ok), src(rets[0]) if rets else None, sd)


_run_c18 = run


def run(ctx):  # noqa: F811
    _run_c18(ctx)
    r18_3(ctx, ctx.model)


def r18_4(ctx, m):
    """option threading: the point-estimate split is the same in every helper of one sampling call"""
    ctx.rule("R18.4", "nifty.re.evi: inside a function that takes `point_estimates`, every call or partial binding of a module function "
                      "that also takes `point_estimates` (draw_linear_residual, sample_likelihood, _ham_metric, the nonlinear residual "
                      "helpers, _process_point_estimate) and every likelihood.freeze(...) receives that same value - a helper that "
                      "silently works on the full parameter tree draws different noise / solves a different system", floor=12)
    mod = m.module(EVI)
    takers = {fi.name: fi for fi in mod.all_functions if "point_estimates" in fi.params()}
    for fi in mod.all_functions:
        if "point_estimates" not in fi.params():
            continue
        ctx.saw_func(fi)
        for c in walk_no_nested(fi.node):
            if not isinstance(c, ast.Call):
                continue
            target, args, kws = None, None, None
            nm = call_name(c)
            if nm in ("partial", "Partial") and c.args:
                inner = c.args[0]
                # partial(jit(F, ...), a, b) / partial(F, a, b)
                if isinstance(inner, ast.Call) and inner.args and isinstance(inner.args[0], ast.Name):
                    inner = inner.args[0]
                if isinstance(inner, ast.Name) and inner.id in takers:
                    target, args, kws = takers[inner.id], c.args[1:], c.keywords
                    partial_call = True
            elif isinstance(c.func, ast.Name) and c.func.id in takers and c.func.id != fi.name:
                target, args, kws = takers[c.func.id], c.args, c.keywords
                partial_call = False
            elif nm == "freeze" and isinstance(c.func, ast.Attribute):
                kw = {k.arg: src(k.value) for k in c.keywords}
                key = f"{fi.key}::`{short(c, 60)}` freezes with the function's point_estimates"
                ctx.check("R18.4", key, kw.get("point_estimates") == "point_estimates" or (c.args and src(c.args[0]) == "point_estimates"), str(kw), fi, c)
                continue
            if target is None:
                continue
            tp = target.params()
            pos_idx = tp.index("point_estimates")
            kwonly = {a.arg for a in target.node.args.kwonlyargs}
            given = None
            for k in kws:
                if k.arg == "point_estimates":
                    given = src(k.value)
            if given is None and "point_estimates" not in kwonly and len(args) > pos_idx:
                given = src(args[pos_idx])
            key = f"{fi.key}::`{short(c, 60)}` passes point_estimates on to {target.name}"
            if given is None and partial_call and "point_estimates" not in kwonly and len(args) <= pos_idx:
                # bound later by the caller of the partial: positional slots before it must then be filled there too
                ctx.und("R18.4", key, "slot left open by the partial binding", fi, c)
            elif given is None:
                ctx.bad("R18.4", key, f"{target.name} falls back to its default `point_estimates` (the full parameter tree)", fi, c)
            else:
                ctx.check("R18.4", key, given == "point_estimates", f"receives `{given}`", fi, c)


def r18_5(ctx, m):
    """classic geometric sampling: the likelihood's sampling dtype reaches the white-noise draw"""
    ctx.rule("R18.5", "classic draw_samples (geometric branch): the sampling dtype returned by get_transformation() is the dtype of "
                      "the unit covariance sandwiched with the transformation's Jacobian (ScalingOperator(target, 1., dtype) as the "
                      "cheese of SandwichOperator.make(jac, .)) - a fixed real dtype draws real-only noise for complex data", floor=1)
    fi = m.func(KL, "draw_samples")
    ctx.saw_func(fi)
    unp = [st for st in walk_no_nested(fi.node) if isinstance(st, ast.Assign) and isinstance(st.targets[0], ast.Tuple) and len(st.targets[0].elts) == 2
           and isinstance(st.value, ast.Name)]
    trs = [st for st in walk_no_nested(fi.node) if isinstance(st, ast.Assign) and isinstance(st.value, ast.Call) and call_name(st.value) == "get_transformation"]
    key = f"{fi.key}::dtype of the likelihood noise"
    if len(trs) != 1:
        ctx.und("R18.5", key, "get_transformation call not found", fi)
        return
    trn = src(trs[0].targets[0])
    unp = [st for st in unp if st.value.id == trn]
    if len(unp) != 1:
        ctx.und("R18.5", key, "unpacking of the transformation not found", fi)
        return
    dtn = src(unp[0].targets[0].elts[0])
    sand = [c for c in walk_no_nested(fi.node) if isinstance(c, ast.Call) and src(c.func) == "SandwichOperator.make" and len(c.args) == 2]
    if len(sand) != 1 or not isinstance(sand[0].args[1], ast.Name):
        ctx.und("R18.5", key, "sandwich construction not found", fi)
        return
    cheese = [st for st in walk_no_nested(fi.node) if isinstance(st, ast.Assign) and src(st.targets[0]) == sand[0].args[1].id]
    if len(cheese) != 1 or not (isinstance(cheese[0].value, ast.Call) and call_name(cheese[0].value) == "ScalingOperator"):
        ctx.und("R18.5", key, "cheese is not a ScalingOperator binding", fi)
        return
    c = cheese[0].value
    dt = c.args[2] if len(c.args) > 2 else next((k.value for k in c.keywords if k.arg == "sampling_dtype"), None)
    if dt is None:
        ctx.bad("R18.5", key, f"`{src(c)}` has no sampling dtype", fi, c)
    else:
        ctx.check("R18.5", key, src(dt) == dtn, f"`{src(c)}`: dtype `{src(dt)}`, the transformation's is `{dtn}`", fi, c)


_run_c18b = run


def run(ctx):  # noqa: F811
    _run_c18b(ctx)
    r18_4(ctx, ctx.model)
    r18_5(ctx, ctx.model)


_run_c18c = run


def run(ctx):  # noqa: F811
    _run_c18c(ctx)
    from .refusal import refusal_rule
    refusal_rule(ctx, "R18.6", ["nifty.re.evi"], "the JAX sample generators (draw_linear_residual, nonlinearly_update_residual, draw_residual)",
                 only={"draw_linear_residual", "nonlinearly_update_residual", "draw_residual", "_process_point_estimate", "sample_likelihood"}, floor=1)


# ---------------------------------------------------------------------------------------------------------------- R18.7
def r18_7(ctx, m):
    R = "R18.7"
    ctx.rule(R, "classic SampledKLEnergy: the Hamiltonian handed to draw_samples is the one specialised with the point-estimated keys "
                "(`_, H = _reduce_by_keys(position, hamiltonian, <expression in point_estimates>)`), so point-estimated parameters have "
                "no residual and the other parameters get the conditional covariance; a specialisation keyed by another list "
                "(constants, their intersection) samples the point-estimated keys", floor=1)
    fi = m.func("nifty.cl.minimization.kl_energies", "SampledKLEnergy")
    ctx.saw_func(fi)
    from ..util import cfg_of, find_nodes
    cfg = cfg_of(fi)
    rd = cfg.reaching_defs(params=fi.params())
    key = f"{fi.key}::samples are drawn from the Hamiltonian reduced by point_estimates"
    sites = find_nodes(cfg, lambda q: isinstance(q, ast.Call) and call_name(q) == "draw_samples" and len(q.args) >= 2)
    if len(sites) != 1:
        ctx.und(R, key, f"{len(sites)} draw_samples calls", fi)
        return
    node, call = sites[0]
    h = call.args[1]
    if not isinstance(h, ast.Name):
        ctx.und(R, key, f"second argument `{src(h)}`", fi, call)
        return
    defs = [cfg.nodes[d].ast for d in (rd.get(node.id) or {}).get(h.id, ()) if cfg.nodes[d].ast is not None]
    if h.id in fi.params() and not defs:
        ctx.bad(R, key, f"draw_samples is handed the unreduced parameter `{h.id}`", fi, call)
        return
    verdict, det = None, f"definitions of `{h.id}`: {[short(d, 60) for d in defs]}"
    for d in defs:
        if isinstance(d, ast.Assign) and isinstance(d.value, ast.Call) and call_name(d.value) == "_reduce_by_keys" and len(d.value.args) >= 3:
            third = d.value.args[2]
            pe = any(isinstance(z, ast.Name) and z.id == "point_estimates" for z in ast.walk(third))
            verdict = True if pe and verdict is not False else False
            det = f"`{short(d, 80)}`" + ("" if pe else f": reduced by `{src(third)}`, not by the point estimates")
    ctx.check(R, key, verdict, det, fi, call)


_run_c18d = run


def run(ctx):  # noqa: F811
    _run_c18d(ctx)
    r18_7(ctx, ctx.model)


# ---------------------------------------------------------------------------------------------------------------- R18.8
def r18_8(ctx, m):
    R = "R18.8"
    ctx.rule(R, "classic draw_samples (geometric branch): the prior part of the metric (second operand of the SamplingEnabler) is a unit "
                "ScalingOperator whose sampling dtype comes from the Hamiltonian's prior energy (data flow from H.prior_energy), not a "
                "literal type - with a hard-coded real dtype the geoVI samples of a linear model with complex latent fields differ "
                "from its MGVI samples", floor=1)
    fi = m.func(KL, "draw_samples")
    ctx.saw_func(fi)
    key = f"{fi.key}::dtype of the prior noise in the geometric branch"
    se = [c for c in walk_no_nested(fi.node) if isinstance(c, ast.Call) and call_name(c) == "SamplingEnabler" and len(c.args) >= 2]
    if len(se) != 1:
        ctx.und(R, key, f"{len(se)} SamplingEnabler constructions", fi)
        return
    pr = se[0].args[1]
    env = {st.targets[0].id: st.value for st in walk_no_nested(fi.node) if isinstance(st, ast.Assign) and len(st.targets) == 1 and isinstance(st.targets[0], ast.Name)}
    if isinstance(pr, ast.Name) and pr.id in env:
        pr = env[pr.id]
    if not (isinstance(pr, ast.Call) and call_name(pr) == "ScalingOperator"):
        ctx.und(R, key, f"prior operand `{short(pr, 60)}` is not a ScalingOperator", fi, se[0])
        return
    dt = pr.args[2] if len(pr.args) > 2 else next((k.value for k in pr.keywords if k.arg == "sampling_dtype"), None)
    if dt is None:
        ctx.bad(R, key, f"`{src(pr)}` has no sampling dtype", fi, pr)
        return
    literal = {"float", "complex", "np.float64", "np.complex128", "np.float32", "np.complex64"}
    if src(dt) in literal:
        ctx.bad(R, key, f"`{src(pr)}`: literal dtype `{src(dt)}`, whatever prior_sampling_dtype the Hamiltonian was built with", fi, pr)
        return
    # follow the name through all its assignments in the function
    seen, todo, from_prior = set(), [dt], False
    while todo:
        e = todo.pop()
        if "prior" in src(e) and any(isinstance(z, ast.Attribute) and "prior" in z.attr for z in ast.walk(e)):
            from_prior = True
        for z in ast.walk(e):
            if isinstance(z, ast.Name) and z.id not in seen:
                seen.add(z.id)
                for st in walk_no_nested(fi.node):
                    if isinstance(st, ast.Assign) and any(isinstance(t, ast.Name) and t.id == z.id for t in st.targets):
                        todo.append(st.value)
    ctx.check(R, key, True if from_prior else None, f"`{src(pr)}`; dtype derives from the prior energy: {from_prior}", fi, pr)


_run_c18e = run


def run(ctx):  # noqa: F811
    _run_c18e(ctx)
    r18_8(ctx, ctx.model)


_run_c18f = run


def run(ctx):  # noqa: F811
    _run_c18f(ctx)
    from .alias import alias
    from . import c12, c20
    # frozen (point-estimated) parameters enter the frozen likelihood's metric with zero tangents (shared with C12);
    # the linearised data of the Wiener-filter sampler (shared with C20)
    alias(ctx, c12._run_c12, {"R12.3": "R18.9"}, "shared with C12")
    alias(ctx, c20._run_c20c, {"R20.1": "R18.10"}, "shared with C20")



# ---------------------------------------------------------------------------------------------------------------- R18.11
def r18_11(ctx, m):
    R = "R18.11"
    ctx.rule(R, "white noise behind the metric samples (nifty.re.evi): a standard normal in the sense of the energies (0.5 |x|^2: unit "
                "variance per REAL degree of freedom) - jax.random.normal draws complex numbers with variance 1/2 per component, so "
                "every white-noise draw that can be complex (data-space tangents of the likelihood, complex latent parameters) is "
                "scaled by sqrt(2) on its complex leaves; real leaves are left alone", floor=2)
    mod = m.module(EVI)
    gens = _white_generators(m) - {"random_like"}
    for fname in ("sample_likelihood", "draw_linear_residual"):
        fi = m.func(EVI, fname)
        ctx.saw_func(fi)
        raw = [c for c in walk_no_nested(fi.node) if isinstance(c, ast.Call) and call_name(c) == "random_like"]
        ctx.check(R, f"{fi.key}::white noise is drawn through the complex-aware generator", not raw,
                  f"`{short(raw[0], 60)}`: complex leaves have variance 1/2 per component - the likelihood part of the metric sample of a "
                  "model with complex data has half the covariance of the metric" if raw else f"generators: {sorted(gens)}", fi, raw[0] if raw else None)
    for g in sorted(gens):
        fi = m.func(EVI, g)
        ctx.saw_func(fi)
        t = src(fi.node)
        cplx = any(isinstance(z, ast.Call) and call_name(z) in ("iscomplexobj", "iscomplex", "issubdtype") for z in ast.walk(fi.node))
        sq2 = "sqrt(2" in t.replace(" ", "") or "2**0.5" in t.replace(" ", "") or "2.0**0.5" in t.replace(" ", "")
        ctx.check(R, f"{fi.key}::scales exactly the complex leaves by sqrt(2)", True if (cplx and sq2) else None, None, fi)
        # the decision is taken PER LEAF: the sqrt(2) stands in a function mapped over the tree, under a complexity test of that
        # function's own parameter (a test of the whole tree's result type rescales the real leaves of a mixed tree as well)
        def _has_sqrt2(n_):
            s_ = src(n_).replace(" ", "")
            return "sqrt(2" in s_ or "2**0.5" in s_ or "2.0**0.5" in s_
        mapped = []
        for c in walk_no_nested(fi.node):
            if isinstance(c, ast.Call) and call_name(c) in ("tree_map", "map") and c.args:
                f0 = c.args[0]
                if isinstance(f0, ast.Lambda):
                    mapped.append((f0, [a.arg for a in f0.args.args], [f0.body]))
                elif isinstance(f0, ast.Name):
                    for d_ in ast.walk(fi.node):
                        if isinstance(d_, ast.FunctionDef) and d_.name == f0.id:
                            mapped.append((d_, [a.arg for a in d_.args.args], d_.body))
        key2 = f"{fi.key}::the sqrt(2) is decided leaf by leaf"
        scaled = [(fn, ps, body) for fn, ps, body in mapped if any(_has_sqrt2(b) for b in body)]
        if not scaled:
            ctx.und(R, key2, "no mapped function carries the sqrt(2)", fi)
            continue
        for fn, ps, body in scaled:
            tests = [z for b in body for z in ast.walk(b) if isinstance(z, (ast.IfExp, ast.If))
                     and any(isinstance(q, ast.Call) and call_name(q) in ("iscomplexobj", "iscomplex", "issubdtype")
                             and {n_.id for a_ in q.args for n_ in ast.walk(a_) if isinstance(n_, ast.Name)} & set(ps) for q in ast.walk(z.test))]
            good = [z for z in tests if (_has_sqrt2(z.body) if isinstance(z, ast.IfExp) else any(_has_sqrt2(s_) for s_ in z.body))
                    and not (_has_sqrt2(z.orelse) if isinstance(z, ast.IfExp) else any(_has_sqrt2(s_) for s_ in z.orelse))]
            ctx.check(R, key2, bool(good),
                      f"`{short(fn, 90)}`" if good else f"`{short(fn, 90)}` multiplies by sqrt(2) without testing its own leaf `{', '.join(ps)}` for complexity: "
                      "the real leaves of a tree that also has complex leaves get twice the variance", fi, fn)


_run_c18g = run


def run(ctx):  # noqa: F811
    _run_c18g(ctx)
    r18_11(ctx, ctx.model)
