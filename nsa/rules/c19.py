"""C19 - sampled KL energy: structural clauses only (value/gradient/metric are sample averages of the Hamiltonian evaluated at the
samples with constants removed; moving the expansion point keeps the residuals)."""
import ast

from ..model import src, short, walk_no_nested, call_name, is_self_attr

SL = "nifty.cl.minimization.sample_list"
KL = "nifty.cl.minimization.kl_energies"
EVI = "nifty.re.evi"


def run(ctx):
    m = ctx.model
    K = m.cls(KL, "SampledKLEnergyClass")
    ctx.saw_class(K)
    ctx.rule("R19.1", "value and gradient come from one pass of _average_2tuple over the Hamiltonian (constants inserted) evaluated "
                      "at each sample, the metric from average() of the Hamiltonian's metric with want_metric=True; the optimised "
                      "position excludes the constant keys", floor=5)
    ini = K.methods["__init__"]
    ctx.saw_func(ini)
    funcs = [n for n in ini.node.body if isinstance(n, ast.FunctionDef)]
    okf = False
    det = None
    if len(funcs) == 1:
        f = funcs[0]
        inp = f.args.args[0].arg
        body = [src(s_) for s_ in f.body]
        det = body
        red = [s_ for s_ in f.body if isinstance(s_, ast.Assign) and isinstance(s_.value, ast.Call) and call_name(s_.value) == "_reduce_by_keys"]
        ev = [s_ for s_ in f.body if isinstance(s_, ast.Assign) and any(isinstance(c, ast.Call) and src(c.func) == "Linearization.make_var" for c in ast.walk(s_.value))]
        ret = [s_ for s_ in f.body if isinstance(s_, ast.Return)]
        if len(red) == 1 and len(ev) == 1 and len(ret) == 1 and isinstance(ret[0].value, ast.Tuple) and len(ret[0].value.elts) == 2:
            a = [src(x) for x in red[0].value.args]
            tname = src(ev[0].targets[0])
            okf = a == [inp, "hamiltonian", "constants"] and src(ret[0].value.elts[1]) == f"{tname}.gradient" and f"{tname}.val" in src(ret[0].value.elts[0])
    ctx.check("R19.1", f"{ini.key}::per-sample function returns (Hamiltonian value, Hamiltonian gradient) with constants inserted", okf, str(det), ini)
    asg = [s_ for s_ in walk_no_nested(ini.node) if isinstance(s_, ast.Assign) and isinstance(s_.targets[0], ast.Tuple)
           and [src(e) for e in s_.targets[0].elts] == ["self._val", "self._grad"]]
    ctx.check("R19.1", f"{ini.key}::value, gradient = sample_list._average_2tuple(per-sample function)",
              len(asg) == 1 and isinstance(asg[0].value, ast.Call) and src(asg[0].value.func) == "sample_list._average_2tuple"
              and len(funcs) == 1 and [src(a) for a in asg[0].value.args] == [funcs[0].name], src(asg[0].value) if asg else None, ini)
    sup = [c for c in walk_no_nested(ini.node) if isinstance(c, ast.Call) and isinstance(c.func, ast.Attribute) and c.func.attr == "__init__" and "super" in src(c.func.value)]
    ctx.check("R19.1", f"{ini.key}::optimised position = expansion point without the constant keys",
              len(sup) == 1 and [src(a) for a in sup[0].args] == ["_reduce_field(sample_list._m, constants)"], str([src(c) for c in sup]), ini)
    rf = m.func(KL, "_reduce_field")
    rr = [src(r.value) for r in walk_no_nested(rf.node) if isinstance(r, ast.Return)]
    f0, k0 = rf.params()[:2]
    ctx.check("R19.1", f"{rf.key}::removes exactly the given keys", f"{f0}.extract_by_keys(set({f0}.keys()) - set({k0}))" in rr and f0 in rr, str(rr), rf)
    am = K.methods["apply_metric"]
    ctx.saw_func(am)
    x = am.params()[1]
    okm = False
    inner = [n for n in am.node.body if isinstance(n, ast.FunctionDef)]
    if len(inner) == 1:
        f = inner[0]
        inp = f.args.args[0].arg
        red = [c for c in ast.walk(f) if isinstance(c, ast.Call) and call_name(c) == "_reduce_by_keys"]
        mv = [c for c in ast.walk(f) if isinstance(c, ast.Call) and src(c.func) == "Linearization.make_var"]
        met = [r for r in ast.walk(f) if isinstance(r, ast.Return) and isinstance(r.value, ast.Call) and call_name(r.value) == "metric" and [src(a) for a in r.value.args] == [x]]
        ret = [r for r in am.node.body if isinstance(r, ast.Return)]
        okm = len(red) == 1 and [src(a) for a in red[0].args] == [inp, "self._hamiltonian", "self._constants"] and len(mv) == 1 \
            and any(k.arg == "want_metric" and src(k.value) == "True" for k in mv[0].keywords) and len(met) == 1 \
            and len(ret) == 1 and src(ret[0].value) == f"self._sample_list.average({f.name})"
    ctx.check("R19.1", f"{am.key}::metric = sample average of the Hamiltonian's metric applied to x", okm, None, am)
    SLB = m.cls(SL, "SampleListBase")
    a2 = SLB.methods["_average_2tuple"]
    ctx.saw_func(a2)
    ndef = [s_ for s_ in walk_no_nested(a2.node) if isinstance(s_, ast.Assign) and src(s_.value) == "self.n_samples" and isinstance(s_.targets[0], ast.Name)]
    rets2 = [r for r in walk_no_nested(a2.node) if isinstance(r, ast.Return)]
    okd = False
    if len(ndef) == 1 and len(rets2) == 1:
        nn = ndef[0].targets[0].id
        gens = [g for g in ast.walk(rets2[0].value) if isinstance(g, ast.GeneratorExp)]
        okd = len(gens) == 1 and isinstance(gens[0].elt, ast.BinOp) and isinstance(gens[0].elt.op, ast.Div) and src(gens[0].elt.right) == nn \
            and isinstance(gens[0].elt.left, ast.Call) and call_name(gens[0].elt.left) == "allreduce_sum"
    ctx.check("R19.1", f"{a2.key}::both components are divided by the global sample count", okd, None, a2)

    ctx.rule("R19.2", "moving the expansion point keeps the residuals: SampledKLEnergyClass.at -> sample_list.at(position) -> "
                      "ResidualSampleList(mean', same residuals, same flags); JAX Samples.at(pos) keeps the stored residuals", floor=3)
    at = K.methods["at"]
    rr = [r for r in walk_no_nested(at.node) if isinstance(r, ast.Return)]
    p = at.params()[1]
    ctx.check("R19.2", f"{at.key}::new energy is built on sample_list.at(position) with the same Hamiltonian and constants",
              len(rr) == 1 and src(rr[0].value).replace("\n", "").replace(" ", "") ==
              f"SampledKLEnergyClass(self._sample_list.at({p}),self._hamiltonian,self._constants,self._invariants,self._nanisinf)", src(rr[0].value) if rr else None, at)
    R = m.cls(SL, "ResidualSampleList")
    rat = R.methods["at"]
    ctx.saw_func(rat)
    rr = [r for r in walk_no_nested(rat.node) if isinstance(r, ast.Return)]
    ctx.check("R19.2", f"{rat.key}::residuals and sign flags are passed on unchanged",
              len(rr) == 1 and isinstance(rr[0].value, ast.Call) and [src(a) for a in rr[0].value.args[1:3]] == ["self._r", "self._n"], src(rr[0].value) if rr else None, rat)
    S = m.cls(EVI, "Samples")
    sat = S.methods["at"]
    ctx.saw_func(sat)
    from ..util import cfg_of, known_atoms
    cfg = cfg_of(sat)
    keep = [n for n in cfg.nodes if n.kind == "stmt" and isinstance(n.ast, ast.Assign) and src(n.ast.value) == "self._samples"]
    okk = False
    if len(keep) == 1:
        at_ = known_atoms(cfg, keep[0].id)
        okk = any("old_pos is None" in src(t) and pol for t, pol in at_)
        rets = [r for r in walk_no_nested(sat.node) if isinstance(r, ast.Return)]
        okk = okk and len(rets) == 1 and any(k.arg == "samples" and src(k.value) == src(keep[0].ast.targets[0]) for k in rets[0].value.keywords) \
            and any(k.arg == "pos" and src(k.value) == sat.params()[1] for k in rets[0].value.keywords)
    ctx.check("R19.2", f"{sat.key}::without old_pos the stored residuals are kept and only the position changes", okk, None, sat)


OKL = "nifty.re.optimize_kl"


def r19_3(ctx, m):
    """JAX side: the KL value/gradient/metric are means over the sample axis of the standard Hamiltonian at pos + residual"""
    from ..terms import canon
    ctx.rule("R19.3", "nifty.re: _StandardHamiltonian is likelihood + 1/2 <x,x> with metric likelihood.metric + tangents; _kl_vg maps "
                      "jax.value_and_grad(ham) and _kl_met maps ham.metric (tangents unmapped) over primals_samples.at(primals).samples "
                      "= pos + residual along axis 0, and both return reduce(...) whose default is the mean over axis 0 of every leaf; "
                      "without samples they evaluate at the expansion point", floor=8)
    mod = m.module(OKL)
    H = m.cls(OKL, "_StandardHamiltonian")
    ctx.saw_class(H)
    en, me = H.methods.get("energy"), H.methods.get("metric")
    for fi in (en, me):
        if fi is None:
            ctx.error("R19.3: _StandardHamiltonian.energy/metric missing")
            return
        ctx.saw_func(fi)
    pr = en.params()[1]
    rets = [r for r in walk_no_nested(en.node) if isinstance(r, ast.Return)]
    want = {canon(ast.parse(f"self.likelihood({pr}, **primals_kw) + 0.5 * vdot({pr}, {pr})", mode="eval").body, add=True),
            canon(ast.parse(f"self.likelihood({pr}, **primals_kw) + vdot({pr}, {pr}) / 2", mode="eval").body, add=True)}
    ctx.check("R19.3", f"{en.key}::likelihood energy + 1/2 <x, x>", len(rets) == 1 and canon(rets[0].value, add=True) in want,
              src(rets[0].value) if rets else None, en)
    pr, tg = me.params()[1:3]
    rets = [r for r in walk_no_nested(me.node) if isinstance(r, ast.Return)]
    want = canon(ast.parse(f"self.likelihood.metric({pr}, {tg}, **primals_kw) + {tg}", mode="eval").body, add=True)
    ctx.check("R19.3", f"{me.key}::likelihood metric + identity", len(rets) == 1 and canon(rets[0].value, add=True) == want,
              src(rets[0].value) if rets else None, me)
    # default reduce
    red = [st for st in mod.tree.body if isinstance(st, ast.Assign) and src(st.targets[0]) == "_reduce"]
    import re as _re
    mt = _re.fullmatch(r"partial\(tree_map,partial\(jnp\.(\w+),axis=(-?\d+)\)\)", src(red[0].value).replace(" ", "")) if len(red) == 1 else None
    okr = bool(mt) and mt.group(1) == "mean" and mt.group(2) == "0"
    ctx.check("R19.3", f"{mod.relpath}::_reduce is the mean over axis 0 of every leaf", True if okr else (False if (mt or not red) else None),
              src(red[0].value) if red else "no module-level _reduce", mod.relpath, red[0] if red else None)
    for fname in ("_kl_vg", "_kl_met"):
        fi = m.func(OKL, fname)
        ctx.saw_func(fi)
        params = fi.params()
        lh, pos = params[0], params[1]
        smp = "primals_samples"
        hams = [st for st in walk_no_nested(fi.node) if isinstance(st, ast.Assign) and isinstance(st.value, ast.Call)
                and src(st.value.func) == "_StandardHamiltonian" and isinstance(st.targets[0], ast.Name)]
        ctx.check("R19.3", f"{fi.key}::the mapped energy is _StandardHamiltonian({lh})", len(hams) == 1 and src(hams[0].value) == f"_StandardHamiltonian({lh})",
                  src(hams[0].value) if hams else None, fi)
        if len(hams) != 1:
            continue
        ham = hams[0].targets[0].id
        mapped_ok = (lambda t: t == f"jax.value_and_grad({ham})") if fname == "_kl_vg" else (lambda t: t == f"{ham}.metric")
        # default of reduce
        kwd = dict(zip([a.arg for a in fi.node.args.kwonlyargs], fi.node.args.kw_defaults))
        ctx.check("R19.3", f"{fi.key}::reduce defaults to _reduce", kwd.get("reduce") is not None and src(kwd["reduce"]) == "_reduce",
                  src(kwd["reduce"]) if kwd.get("reduce") is not None else None, fi)
        # mapped function
        maps = [st for st in walk_no_nested(fi.node) if isinstance(st, ast.Assign) and isinstance(st.value, ast.Call) and src(st.value.func) == "map"]
        key = f"{fi.key}::the mapped function"
        if len(maps) != 1:
            ctx.und("R19.3", key, f"{len(maps)} map(...) bindings", fi)
            continue
        mc = maps[0].value
        mname = src(maps[0].targets[0])
        ok = len(mc.args) == 1 and mapped_ok(src(mc.args[0]))
        if fname == "_kl_met":
            ia = [k for k in mc.keywords if k.arg == "in_axes"]
            ok = ok and len(ia) == 1 and src(ia[0].value) == "(0, None)"
        else:
            ok = ok and not mc.keywords
        ctx.check("R19.3", key, ok, src(mc), fi, maps[0])
        # application to pos + residual and reduction
        rets = sorted((r for r in walk_no_nested(fi.node) if isinstance(r, ast.Return)), key=lambda r: r.lineno)
        app = [st for st in walk_no_nested(fi.node) if isinstance(st, ast.Assign) and isinstance(st.value, ast.Call) and src(st.value.func) == mname]
        key = f"{fi.key}::applied to {smp}.at({pos}).samples and reduced"
        if len(app) != 1:
            ctx.und("R19.3", key, f"{len(app)} applications of {mname}", fi)
            continue
        a = [src(x) for x in app[0].value.args]
        wanta = [f"{smp}.at({pos}).samples"] + ([params[2]] if fname == "_kl_met" else [])
        sname = src(app[0].targets[0])
        last = rets[-1] if rets else None
        ctx.check("R19.3", key, a == wanta and last is not None and src(last.value) == f"reduce({sname})",
                  f"{src(app[0])}; {src(last) if last is not None else None}", fi, app[0])
        # no samples
        key = f"{fi.key}::without samples: evaluated at the expansion point"
        early = [r for r in rets[:-1]]
        if len(early) != 1:
            ctx.und("R19.3", key, f"{len(early)} early returns", fi)
            continue
        s_ = src(early[0].value)
        guard = [i for i in walk_no_nested(fi.node) if isinstance(i, ast.If) and early[0] in i.body]
        gok = len(guard) == 1 and src(guard[0].test).replace(" ", "") in (f"len({smp})==0", f"notlen({smp})", f"0==len({smp})")
        ok = (s_ == f"jax.value_and_grad({ham})({pos})") if fname == "_kl_vg" else (s_ == f"{ham}.metric({pos}, {params[2]})")
        ctx.check("R19.3", key, False if not ok else (True if gok else None), f"{s_} under `{src(guard[0].test) if guard else None}`", fi, early[0])
    # Samples.samples = pos + residual
    S = m.cls(EVI, "Samples")
    sp = S.methods.get("samples")
    if sp is None:
        ctx.und("R19.3", f"{S.key}::samples", "property missing", S)
    else:
        ctx.saw_func(sp)
        lam = [l_ for l_ in ast.walk(sp.node) if isinstance(l_, ast.Lambda)]
        ok = None
        if len(lam) == 1 and len(lam[0].args.args) == 2:
            p_, s_ = [a.arg for a in lam[0].args.args]
            body = canon(lam[0].body, add=True)
            ok = body in {canon(ast.parse(t, mode="eval").body, add=True) for t in (f"{p_}[jnp.newaxis] + {s_}", f"{p_}[None] + {s_}", f"{p_} + {s_}")}
            call = [c for c in ast.walk(sp.node) if isinstance(c, ast.Call) and lam[0] in c.args]
            res_names = {"self._samples"} | {src(st.targets[0]) for st in ast.walk(sp.node) if isinstance(st, ast.Assign) and src(st.value) == "self._samples"}
            ok = ok and len(call) == 1 and len(call[0].args) == 3 and src(call[0].args[1]) in ("self.pos", "self._pos") and src(call[0].args[2]) in res_names
        ctx.check("R19.3", f"{sp.key}::samples = expansion point (broadcast over the sample axis) + residuals", ok, src(lam[0]) if lam else None, sp)


def r19_4(ctx, m):
    """constants in the JAX KL minimisation: typed insert/remove table"""
    ctx.rule("R19.4", "OptimizeVI.kl_minimize with constants: the optimised position is the liquid part returned by "
                      "_parse_point_estimates(constants, samples.pos); value_and_grad gets the frozen primals inserted in its one "
                      "position slot and the gradient (not the value) stripped of the frozen axes; the metric gets (frozen primals, "
                      "zeros_like(frozen)) inserted in (position, tangent) and its output stripped; the result's x is completed with "
                      "the frozen primals - so constant keys are never optimised and come back unchanged", floor=5)
    O = m.cls(OKL, "OptimizeVI")
    fi = O.methods.get("kl_minimize")
    if fi is None:
        ctx.error("R19.4: OptimizeVI.kl_minimize missing")
        return
    ctx.saw_func(fi)
    stmts = list(walk_no_nested(fi.node))
    parse = [st for st in stmts if isinstance(st, ast.Assign) and isinstance(st.value, ast.Call) and call_name(st.value) == "_parse_point_estimates"]
    key = f"{fi.key}::insert_axes, liquid position, frozen primals = _parse_point_estimates(constants, samples.pos)"
    if len(parse) != 1 or not isinstance(parse[0].targets[0], ast.Tuple) or len(parse[0].targets[0].elts) != 3:
        ctx.und("R19.4", key, "parse statement not found", fi)
        return
    ax, pl, frozen = [src(e) for e in parse[0].targets[0].elts]
    a = [src(x) for x in parse[0].value.args]
    pos0 = [st for st in stmts if isinstance(st, ast.Assign) and src(st.targets[0]) == pl and st is not parse[0]]
    ctx.check("R19.4", key, a == ["constants", pl] and len(pos0) == 1 and src(pos0[0].value) == "samples.pos", src(parse[0]), fi, parse[0])

    def kw(c):
        return {k.arg: src(k.value).replace(" ", "") for k in c.keywords}
    pirs = [st for st in stmts if isinstance(st, ast.Assign) and isinstance(st.value, ast.Call) and call_name(st.value) == "partial_insert_and_remove"]
    parts = {}
    for st in stmts:
        if isinstance(st, ast.Assign) and isinstance(st.value, ast.Call) and src(st.value.func) in ("Partial", "partial") and st.value.args:
            parts[src(st.value.args[0])] = src(st.targets[0])
    fgn, hpn = parts.get("self.kl_value_and_grad"), parts.get("self.kl_metric")
    pir = {}
    for st in pirs:
        t, a0 = src(st.targets[0]), st.value.args[0] if st.value.args else None
        if a0 is not None and src(a0) == t == fgn:
            pir["fun_and_grad"] = st.value
        elif a0 is not None and src(a0) == t == hpn:
            pir["hessp"] = st.value
        elif isinstance(a0, ast.Lambda) and len(a0.args.args) == 1 and src(a0.body) == a0.args.args[0].arg:
            pir["insert"] = st.value
            insn = t
    fg = pir.get("fun_and_grad")
    key = f"{fi.key}::value_and_grad: insert ({frozen},) at ({ax},); remove (False, {ax})"
    if fg is None:
        ctx.und("R19.4", key, "wrapper not found", fi)
    else:
        k = kw(fg)
        ctx.check("R19.4", key, k.get("insert_axes") == f"({ax},)" and k.get("flat_fill") == f"({frozen},)"
                  and k.get("remove_axes") == f"(False,{ax})", str(k), fi, fg)
    hp = pir.get("hessp")
    key = f"{fi.key}::metric: insert ({frozen}, zeros_like({frozen})) at ({ax}, {ax}); remove {ax}"
    if hp is None:
        ctx.und("R19.4", key, "wrapper not found", fi)
    else:
        k = kw(hp)
        ctx.check("R19.4", key, k.get("insert_axes") == f"({ax},{ax})"
                  and k.get("flat_fill") == f"({frozen},zeros_like({frozen}))" and k.get("remove_axes") == ax, str(k), fi, hp)
    mins = [c for c in stmts if isinstance(c, ast.Call) and src(c.func) == "minimize"]
    key = f"{fi.key}::the minimiser starts from the liquid position with the wrapped functions"
    if len(mins) != 1:
        ctx.und("R19.4", key, f"{len(mins)} minimize calls", fi)
    else:
        k = kw(mins[0])
        ctx.check("R19.4", key, k.get("x0") == pl and k.get("fun_and_grad") == fgn and k.get("hessp") == hpn, str(k), fi, mins[0])
    ins = pir.get("insert")
    rep = [c for c in stmts if isinstance(c, ast.Call) and call_name(c) == "_replace"]
    key = f"{fi.key}::the result's position is completed with the frozen primals"
    if ins is None or len(rep) != 1:
        ctx.und("R19.4", key, "re-insertion not found", fi)
    else:
        k = kw(ins)
        kr = kw(rep[0])
        recv = src(rep[0].func.value)
        ctx.check("R19.4", key, k.get("insert_axes") == f"({ax},)" and k.get("flat_fill") == f"({frozen},)" and k.get("remove_axes") in ("None", "()")
                  and kr.get("x") == f"{insn}({recv}.x)", f"{k}; {kr}", fi, rep[0])


_run_c19 = run


def run(ctx):  # noqa: F811
    _run_c19(ctx)
    r19_3(ctx, ctx.model)
    r19_4(ctx, ctx.model)


def r19_5(ctx, m):
    """the frozen / liquid split follows the pytree leaf order of the insert mask"""
    ctx.rule("R19.5", "_parse_point_estimates (shared by kl_minimize(constants=...) and LikelihoodPartial): frozen and liquid leaves are "
                      "collected by ONE partition pass over zip(tree_leaves(primals), tree_leaves(mask)), so their order is the leaf "
                      "order in which partial_insert_and_remove re-inserts them; a frozen tuple collected in the order of the "
                      "user-given key names permutes the constants whenever that order differs from the sorted leaf order", floor=2)
    fi = m.func("nifty.re.likelihood", "_parse_point_estimates", required=False)
    if fi is None:
        ctx.error("R19.5: _parse_point_estimates missing")
        return
    ctx.saw_func(fi)
    prim, pe = fi.params()[1], fi.params()[0]
    loops = [lp for lp in walk_no_nested(fi.node) if isinstance(lp, ast.For) and isinstance(lp.iter, ast.Call) and src(lp.iter.func) == "zip"
             and [src(a) for a in lp.iter.args] == [f"tree_leaves({prim})", f"tree_leaves({pe})"]]
    key = f"{fi.key}::partition pass over the leaves of primals and mask"
    if len(loops) != 1 or not isinstance(loops[0].target, ast.Tuple):
        ctx.und("R19.5", key, f"{len(loops)} partition loops", fi)
        return
    lp = loops[0]
    pv, mv = [src(e) for e in lp.target.elts]
    frozen_l = liquid_l = None
    for st in lp.body:
        from ..util import strip_not
        core, pol = strip_not(st.test) if isinstance(st, ast.If) else (None, True)
        if isinstance(st, ast.If) and src(core) == mv:
            for b, tag in ((st.body, "f" if pol else "l"), (st.orelse, "l" if pol else "f")):
                for s_ in b:
                    if isinstance(s_, ast.Expr) and isinstance(s_.value, ast.Call) and call_name(s_.value) == "append" and [src(a) for a in s_.value.args] == [pv]:
                        if tag == "f":
                            frozen_l = src(s_.value.func.value)
                        else:
                            liquid_l = src(s_.value.func.value)
    ctx.check("R19.5", key, True if (frozen_l is not None and liquid_l is not None and frozen_l != liquid_l) else None, f"frozen -> {frozen_l}, liquid -> {liquid_l}", fi, lp)
    if frozen_l is None:
        return
    for r in walk_no_nested(fi.node):
        if not (isinstance(r, ast.Return) and isinstance(r.value, ast.Tuple) and len(r.value.elts) == 3):
            continue
        fz = r.value.elts[2]
        key = f"{fi.key}::`{short(r, 60)}` returns the frozen leaves of the partition pass"
        if isinstance(fz, ast.Name) and fz.id == frozen_l and r.lineno > lp.lineno:
            ctx.ok("R19.5", key, None, fi, r)
            continue
        # how is the returned frozen container built?
        defs = [st for st in walk_no_nested(fi.node) if isinstance(st, ast.Assign) and isinstance(fz, ast.Name) and src(st.targets[0]) == fz.id and st.lineno < r.lineno]
        t = " ; ".join(src(d.value) for d in defs) if defs else src(fz)
        if r.lineno < lp.lineno or (defs and all(frozen_l not in src(d.value) for d in defs)):
            ctx.bad("R19.5", key, f"frozen leaves built as `{t}` without the partition pass: their order is not the leaf order of the mask", fi, r)
        else:
            ctx.und("R19.5", key, f"frozen container `{t}` not recognised", fi, r)


_run_c19b = run


def run(ctx):  # noqa: F811
    _run_c19b(ctx)
    r19_5(ctx, ctx.model)


_run_c19z = run


def run(ctx):  # noqa: F811
    _run_c19z(ctx)
    from .alias import alias
    from . import c04, c18
    # the KL value keeps the prior energy of every constant key (shared with C04); mirrored samples are exact negatives (shared with C18)
    alias(ctx, c04.r04_4, {"R04.4": "R19.6"}, "shared with C04", ctx.model)
    alias(ctx, c18._run_c18, {"R18.1": "R19.7"}, "shared with C18")
