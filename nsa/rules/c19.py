"""C19 - sampled KL energy: structural clauses only (value/gradient/metric are sample averages of the Hamiltonian evaluated at the
samples with constants removed; moving the expansion point keeps the residuals)."""
import ast

from ..model import src, short, walk_no_nested, call_name, is_self_attr

SL = "nifty.cl.minimization.sample_list"
KL = "nifty.cl.minimization.kl_energies"
EVI = "nifty.re.evi"


def run(ctx):
    m = ctx.model
    K = m.cls(KL, "SampledKLEnergyClass")
    ctx.saw_class(K)
    ctx.rule("R19.1", "value and gradient come from one pass of _average_2tuple over the Hamiltonian (constants inserted) evaluated "
                      "at each sample, the metric from average() of the Hamiltonian's metric with want_metric=True; the optimised "
                      "position excludes the constant keys", floor=5)
    ini = K.methods["__init__"]
    ctx.saw_func(ini)
    funcs = [n for n in ini.node.body if isinstance(n, ast.FunctionDef)]
    okf = False
    det = None
    if len(funcs) == 1:
        f = funcs[0]
        inp = f.args.args[0].arg
        body = [src(s_) for s_ in f.body]
        det = body
        red = [s_ for s_ in f.body if isinstance(s_, ast.Assign) and isinstance(s_.value, ast.Call) and call_name(s_.value) == "_reduce_by_keys"]
        ev = [s_ for s_ in f.body if isinstance(s_, ast.Assign) and any(isinstance(c, ast.Call) and src(c.func) == "Linearization.make_var" for c in ast.walk(s_.value))]
        ret = [s_ for s_ in f.body if isinstance(s_, ast.Return)]
        if len(red) == 1 and len(ev) == 1 and len(ret) == 1 and isinstance(ret[0].value, ast.Tuple) and len(ret[0].value.elts) == 2:
            a = [src(x) for x in red[0].value.args]
            tname = src(ev[0].targets[0])
            okf = a == [inp, "hamiltonian", "constants"] and src(ret[0].value.elts[1]) == f"{tname}.gradient" and f"{tname}.val" in src(ret[0].value.elts[0])
    ctx.check("R19.1", f"{ini.key}::per-sample function returns (Hamiltonian value, Hamiltonian gradient) with constants inserted", okf, str(det), ini)
    asg = [s_ for s_ in walk_no_nested(ini.node) if isinstance(s_, ast.Assign) and isinstance(s_.targets[0], ast.Tuple)
           and [src(e) for e in s_.targets[0].elts] == ["self._val", "self._grad"]]
    ctx.check("R19.1", f"{ini.key}::value, gradient = sample_list._average_2tuple(per-sample function)",
              len(asg) == 1 and isinstance(asg[0].value, ast.Call) and src(asg[0].value.func) == "sample_list._average_2tuple"
              and len(funcs) == 1 and [src(a) for a in asg[0].value.args] == [funcs[0].name], src(asg[0].value) if asg else None, ini)
    sup = [c for c in walk_no_nested(ini.node) if isinstance(c, ast.Call) and isinstance(c.func, ast.Attribute) and c.func.attr == "__init__" and "super" in src(c.func.value)]
    ctx.check("R19.1", f"{ini.key}::optimised position = expansion point without the constant keys",
              len(sup) == 1 and [src(a) for a in sup[0].args] == ["_reduce_field(sample_list._m, constants)"], str([src(c) for c in sup]), ini)
    rf = m.func(KL, "_reduce_field")
    rr = [src(r.value) for r in walk_no_nested(rf.node) if isinstance(r, ast.Return)]
    f0, k0 = rf.params()[:2]
    ctx.check("R19.1", f"{rf.key}::removes exactly the given keys", f"{f0}.extract_by_keys(set({f0}.keys()) - set({k0}))" in rr and f0 in rr, str(rr), rf)
    am = K.methods["apply_metric"]
    ctx.saw_func(am)
    x = am.params()[1]
    okm = False
    inner = [n for n in am.node.body if isinstance(n, ast.FunctionDef)]
    if len(inner) == 1:
        f = inner[0]
        inp = f.args.args[0].arg
        red = [c for c in ast.walk(f) if isinstance(c, ast.Call) and call_name(c) == "_reduce_by_keys"]
        mv = [c for c in ast.walk(f) if isinstance(c, ast.Call) and src(c.func) == "Linearization.make_var"]
        met = [r for r in ast.walk(f) if isinstance(r, ast.Return) and isinstance(r.value, ast.Call) and call_name(r.value) == "metric" and [src(a) for a in r.value.args] == [x]]
        ret = [r for r in am.node.body if isinstance(r, ast.Return)]
        okm = len(red) == 1 and [src(a) for a in red[0].args] == [inp, "self._hamiltonian", "self._constants"] and len(mv) == 1 \
            and any(k.arg == "want_metric" and src(k.value) == "True" for k in mv[0].keywords) and len(met) == 1 \
            and len(ret) == 1 and src(ret[0].value) == f"self._sample_list.average({f.name})"
    ctx.check("R19.1", f"{am.key}::metric = sample average of the Hamiltonian's metric applied to x", okm, None, am)
    SLB = m.cls(SL, "SampleListBase")
    a2 = SLB.methods["_average_2tuple"]
    ctx.saw_func(a2)
    ndef = [s_ for s_ in walk_no_nested(a2.node) if isinstance(s_, ast.Assign) and src(s_.value) == "self.n_samples" and isinstance(s_.targets[0], ast.Name)]
    rets2 = [r for r in walk_no_nested(a2.node) if isinstance(r, ast.Return)]
    okd = False
    if len(ndef) == 1 and len(rets2) == 1:
        nn = ndef[0].targets[0].id
        gens = [g for g in ast.walk(rets2[0].value) if isinstance(g, ast.GeneratorExp)]
        okd = len(gens) == 1 and isinstance(gens[0].elt, ast.BinOp) and isinstance(gens[0].elt.op, ast.Div) and src(gens[0].elt.right) == nn \
            and isinstance(gens[0].elt.left, ast.Call) and call_name(gens[0].elt.left) == "allreduce_sum"
    ctx.check("R19.1", f"{a2.key}::both components are divided by the global sample count", okd, None, a2)

    ctx.rule("R19.2", "moving the expansion point keeps the residuals: SampledKLEnergyClass.at -> sample_list.at(position) -> "
                      "ResidualSampleList(mean', same residuals, same flags); JAX Samples.at(pos) keeps the stored residuals", floor=3)
    at = K.methods["at"]
    rr = [r for r in walk_no_nested(at.node) if isinstance(r, ast.Return)]
    p = at.params()[1]
    ctx.check("R19.2", f"{at.key}::new energy is built on sample_list.at(position) with the same Hamiltonian and constants",
              len(rr) == 1 and src(rr[0].value).replace("\n", "").replace(" ", "") ==
              f"SampledKLEnergyClass(self._sample_list.at({p}),self._hamiltonian,self._constants,self._invariants,self._nanisinf)", src(rr[0].value) if rr else None, at)
    R = m.cls(SL, "ResidualSampleList")
    rat = R.methods["at"]
    ctx.saw_func(rat)
    rr = [r for r in walk_no_nested(rat.node) if isinstance(r, ast.Return)]
    ctx.check("R19.2", f"{rat.key}::residuals and sign flags are passed on unchanged",
              len(rr) == 1 and isinstance(rr[0].value, ast.Call) and [src(a) for a in rr[0].value.args[1:3]] == ["self._r", "self._n"], src(rr[0].value) if rr else None, rat)
    S = m.cls(EVI, "Samples")
    sat = S.methods["at"]
    ctx.saw_func(sat)
    from ..util import cfg_of, known_atoms
    cfg = cfg_of(sat)
    keep = [n for n in cfg.nodes if n.kind == "stmt" and isinstance(n.ast, ast.Assign) and src(n.ast.value) == "self._samples"]
    okk = False
    if len(keep) == 1:
        at_ = known_atoms(cfg, keep[0].id)
        okk = any("old_pos is None" in src(t) and pol for t, pol in at_)
        rets = [r for r in walk_no_nested(sat.node) if isinstance(r, ast.Return)]
        okk = okk and len(rets) == 1 and any(k.arg == "samples" and src(k.value) == src(keep[0].ast.targets[0]) for k in rets[0].value.keywords) \
            and any(k.arg == "pos" and src(k.value) == sat.params()[1] for k in rets[0].value.keywords)
    ctx.check("R19.2", f"{sat.key}::without old_pos the stored residuals are kept and only the position changes", okk, None, sat)
