"""C20 (clause) - the Wiener filter is assembled from the right operators.

Decided on the structure of the code: information source j = R^dagger N^-1 d, inverse posterior covariance R^dagger N^-1 R + 1 in
signal space, data-space form R^dagger (R R^dagger + N)^-1 d, the classic curvature R^dagger N^-1 R + S^-1 (inverted with S^-1 as
preconditioner), documented-optional arguments defaulted before use.  Not decided: that CG converges to the exact posterior, sample
covariances, agreement with MGVI/MAP (numerical).
"""
import ast

from ..model import src, short, walk_no_nested, call_name
from ..terms import inline_at
from ..util import cfg_of, find_nodes, known_atoms

EVI = "nifty.re.evi"
WFC = "nifty.cl.library.wiener_filter_curvature"


def _n(e):
    return src(e).replace(" ", "")


def run(ctx):
    m = ctx.model
    fi = m.func(EVI, "wiener_filter_posterior")
    ctx.saw_func(fi)
    ctx.rule("R20.1", "nifty.re wiener_filter_posterior: R = (linearised) forward model, R^dagger = conjugated linear transpose of the same "
                      "map, N^-1 = the likelihood's metric; signal space solves (R^dagger N^-1 R + 1) m = R^dagger N^-1 d, data space "
                      "solves (R R^dagger + N) x = d and returns m = R^dagger x; a failed CG raises; samples are drawn around the "
                      "posterior mean and mirrored", floor=8)
    cfg = cfg_of(fi)
    rd = cfg.reaching_defs(fi.params())
    lh = fi.params()[0]
    # roles
    defs = {}
    for n in cfg.nodes:
        if n.kind == "stmt" and isinstance(n.ast, ast.Assign) and isinstance(n.ast.targets[0], ast.Name):
            defs.setdefault(n.ast.targets[0].id, []).append(n)
    lt = [k for k, ns in defs.items() if any(isinstance(n.ast.value, ast.Call) and _n(n.ast.value.func) == "jax.linear_transpose" for n in ns)]
    key = f"{fi.key}::R^dagger is the conjugated linear transpose of the forward map"
    if len(lt) != 1:
        ctx.und("R20.1", key, f"{len(lt)} linear_transpose bindings", fi)
        return
    T = lt[0]
    tn = [n for n in defs[T] if isinstance(n.ast.value, ast.Call) and _n(n.ast.value.func) == "jax.linear_transpose"][0]
    R = _n(tn.ast.value.args[0])
    conj_nodes = {n.id for n in defs[T] if isinstance(n.ast.value, ast.Call) and call_name(n.ast.value) == "_functional_conj" and _n(n.ast.value.args[0]) == T}
    # every application of R^dagger must see the conjugated definition (and only that one)
    uses = [n for n, c in find_nodes(cfg, lambda q: isinstance(q, ast.Call) and isinstance(q.func, ast.Name) and q.func.id == T)]
    for f_ in ast.walk(fi.node):
        if isinstance(f_, ast.FunctionDef) and f_ is not fi.node and any(isinstance(c, ast.Call) and isinstance(c.func, ast.Name) and c.func.id == T for c in ast.walk(f_)):
            uses += [n for n in cfg.nodes if n.ast is f_]
    bad_use = [n for n in uses if not ((rd.get(n.id) or {}).get(T, frozenset()) <= conj_nodes)]
    conj = bool(conj_nodes) and bool(uses) and not bad_use
    ctx.check("R20.1", key, conj and _n(tn.ast.value.args[1]) == f"{lh}.domain",
              f"{T} = {src(tn.ast.value)}; conjugated on every path to its uses: {conj}" +
              (f" (line {bad_use[0].lineno} can see the plain transpose: for a complex response that is R^T, not R^dagger)" if bad_use else ""), fi)
    # linearisation: data' = data - F(position) + R(position)
    lin = [n for n in cfg.nodes if n.kind == "stmt" and isinstance(n.ast, ast.Assign) and isinstance(n.ast.targets[0], ast.Tuple) and "jax.linearize" in _n(n.ast.value)]
    key_l = f"{fi.key}::non-linear model: data is replaced by data - F(position) + R(position)"
    if len(lin) == 1:
        prim, Rl = [_n(x) for x in lin[0].ast.targets[0].elts]
        block = None
        for x in ast.walk(fi.node):
            for fld in ("body", "orelse"):
                b_ = getattr(x, fld, None)
                if isinstance(b_, list) and any(y is lin[0].ast for y in b_):
                    block = b_
        dd = [n for n in cfg.nodes if n.kind == "stmt" and isinstance(n.ast, ast.Assign) and block is not None and any(n.ast is y for y in block)
              and isinstance(n.ast.targets[0], ast.Name) and n.ast.targets[0].id != Rl and n is not lin[0]]
        if len(dd) == 1:
            from ..terms import canon
            dn_ = dd[0].ast.targets[0].id
            t_ = canon(dd[0].ast.value, add=True)
            pos_n = fi.params()[1]
            wants = [canon(f"{dn_} - {F_} + {Rl}({pos_n})", add=True) for F_ in (f"{lh}.forward({pos_n})", prim)]
            ctx.check("R20.1", key_l, t_ in wants, src(dd[0].ast) + ("" if t_ in wants else f": the term + {Rl}({pos_n}) of the linearisation is missing or altered"), fi, dd[0].ast)
        else:
            ctx.und("R20.1", key_l, f"{len(dd)} data updates in the non-linear branch", fi)
    else:
        ctx.und("R20.1", key_l, "jax.linearize binding not found", fi)
    rdefs = sorted(_n(n.ast.value) for n in defs.get(R, []))
    ctx.check("R20.1", f"{fi.key}::R is the forward model (linear case) or its linearisation at the position",
              f"{lh}.forward" in rdefs and len(rdefs) <= 1 or any(isinstance(n.ast.targets[0], ast.Tuple) and "jax.linearize" in _n(n.ast.value)
                                                                   for n in cfg.nodes if n.kind == "stmt" and isinstance(n.ast, ast.Assign)),
              str(rdefs), fi)
    # signal space
    ninv = [k for k, ns in defs.items() if any(f"{lh}.likelihood.metric" in _n(n.ast.value) for n in ns)]
    Ni = ninv[0] if ninv else None
    jdef = [n for n in cfg.nodes if n.kind == "stmt" and isinstance(n.ast, ast.Assign) and isinstance(n.ast.value, ast.Call) and _n(n.ast.value.func) == T
            and any(pol and _n(t) == "signal_space" for t, pol in known_atoms(cfg, n.id))]
    datan = [k for k, ns in defs.items() if any(_n(n.ast.value) == f"{lh}.likelihood.data" for n in ns)]
    datan = datan[0] if datan else "data"
    okj = len(jdef) == 1 and Ni is not None and _n(jdef[0].ast.value.args[0]) == f"{Ni}({datan})"
    ctx.check("R20.1", f"{fi.key}::information source j = R^dagger N^-1 d", okj, src(jdef[0].ast) if jdef else None, fi)
    inner = {f.name: f for f in fi.node.body if False}
    funcs = {f.name: f for f in ast.walk(fi.node) if isinstance(f, ast.FunctionDef) and f is not fi.node}
    sig = [f for f in funcs.values() if any(isinstance(r, ast.Return) and Ni and f"{T}({Ni}({R}(" in _n(r.value) for r in ast.walk(f))]
    oks = None
    det = None
    if len(sig) == 1:
        r = [x for x in walk_no_nested(sig[0]) if isinstance(x, ast.Return)][0]
        t = sig[0].args.args[0].arg
        det = _n(r.value)
        oks = det in (f"{T}({Ni}({R}({t})))[0]+{t}", f"{t}+{T}({Ni}({R}({t})))[0]")
    ctx.check("R20.1", f"{fi.key}::signal-space operator = R^dagger N^-1 R + 1", oks, det, fi)
    cgn = [k for k, ns in defs.items() if any(isinstance(n.ast.value, ast.Call) and call_name(n.ast.value) == "get" and n.ast.value.args
                                                and _n(n.ast.value.args[0]) in ("'cg'", '"cg"') for n in ns)]
    cgn = cgn[0] if cgn else "cg"
    cgs = find_nodes(cfg, lambda q: isinstance(q, ast.Call) and isinstance(q.func, ast.Name) and q.func.id == cgn)
    jn = src(jdef[0].ast.targets[0]).strip("(),") if jdef else None
    for n, c in cgs:
        sp = any(pol and _n(t) == "signal_space" for t, pol in known_atoms(cfg, n.id))
        a = [_n(x) for x in c.args[:2]]
        # the operator may be re-bound as jit(<function>)
        op_e = inline_at(cfg, rd, n.id, c.args[0], depth=1)
        if isinstance(op_e, ast.Call) and len(op_e.args) == 1 and isinstance(op_e.args[0], ast.Name):
            a[0] = op_e.args[0].id
        if sp:
            ok = len(sig) == 1 and a == [sig[0].name, jn]
            ctx.check("R20.1", f"{fi.key}::signal space: cg(R^dagger N^-1 R + 1, j)", ok, str(a), fi, c)
        else:
            dsf = [f for f in funcs.values() if f.name == a[0]]
            okd = None
            det = None
            if len(dsf) == 1:
                f = dsf[0]
                t = f.args.args[0].arg
                body = {}
                for st in f.body:
                    if isinstance(st, ast.Assign):
                        body[_n(st.targets[0]).strip("(),")] = _n(st.value)
                r = [x for x in walk_no_nested(f) if isinstance(x, ast.Return)]
                det = f"{body}; return {_n(r[0].value) if r else None}"
                # (x,) = T(t); y = R(x); return y + N(t)
                names = list(body)
                okd = len(r) == 1 and len(names) == 2 and body[names[0]] == f"{T}({t})" and body[names[1]] == f"{R}({names[0]})" and \
                    _n(r[0].value) in (f"{names[1]}+noise_covariance({t})", f"noise_covariance({t})+{names[1]}")
            ctx.check("R20.1", f"{fi.key}::data-space operator = R R^dagger + N, solved for the data", okd and a[1] == datan, det, fi, c)
    back = [n for n in cfg.nodes if n.kind == "stmt" and isinstance(n.ast, ast.Assign) and isinstance(n.ast.value, ast.Call) and _n(n.ast.value.func) == T
            and any((not pol) and _n(t) == "signal_space" for t, pol in known_atoms(cfg, n.id))]
    okb = len(back) == 1 and any(_n(back[0].ast.value.args[0]) == _n(n.ast.targets[0].elts[0]) for n, c in cgs
                                 if isinstance(n.ast, ast.Assign) and isinstance(n.ast.targets[0], ast.Tuple) and not any(pol and _n(t) == "signal_space" for t, pol in known_atoms(cfg, n.id)))
    ctx.check("R20.1", f"{fi.key}::data-space mean = R^dagger (R R^dagger + N)^-1 d", okb, src(back[0].ast) if back else None, fi)
    # failure handling: both branches raise on negative info
    raises = [n for n in cfg.nodes if n.kind == "test" and "post_info" in _n(n.ast) and "<0" in _n(n.ast)]
    ctx.check("R20.1", f"{fi.key}::a failed conjugate gradient raises in both branches", len(raises) == 2, f"{len(raises)} checks", fi)
    # samples around the posterior mean, mirrored
    smp = [c for c in ast.walk(fi.node) if isinstance(c, ast.Call) and call_name(c) == "Samples" and any(k.arg == "samples" and "concatenate_zip" in _n(k.value) for k in c.keywords)]
    pm = {_n(n.ast.targets[0].elts[0]) for n, c in cgs if isinstance(n.ast, ast.Assign) and isinstance(n.ast.targets[0], ast.Tuple)} | \
        {_n(n.ast.targets[0]).strip("(),") for n in back}
    pmn = sorted(pm & {_n(n.ast.targets[0]).strip("(),") for n in back} or pm)[0] if pm else "post_mean"
    oks = len(smp) == 1 and {k.arg: _n(k.value) for k in smp[0].keywords}.get("pos") == pmn and \
        any(_n(k.value).startswith("concatenate_zip(") and _n(k.value).count(",-") == 1 for k in smp[0].keywords if k.arg == "samples")
    drn = [k for k, ns in defs.items() if any(isinstance(n.ast.value, ast.Call) and call_name(n.ast.value) == "Partial" and n.ast.value.args
                                               and _n(n.ast.value.args[0]) == "draw_linear_residual" for n in ns)]
    dr = [c for c in ast.walk(fi.node) if isinstance(c, ast.Call) and isinstance(c.func, ast.Name) and drn and c.func.id == drn[0] and len(c.args) == 2]
    oks = oks and len(dr) == 1 and _n(dr[0].args[0]) == pmn
    ctx.check("R20.1", f"{fi.key}::samples are drawn at the posterior mean and mirrored", oks, src(smp[0])[:160] if smp else None, fi)
    # ---------------------------------------------------------------- optional arguments
    ctx.rule("R20.2", "documented-optional arguments (default None, annotated Optional) of the Wiener-filter entry point are replaced by a "
                      "default or tested for None before they are dereferenced", floor=1)
    a = fi.node.args
    pos = a.posonlyargs + a.args
    dflt = [None] * (len(pos) - len(a.defaults)) + list(a.defaults)
    opt = [x for x, d in zip(pos, dflt) if isinstance(d, ast.Constant) and d.value is None and x.annotation is not None and "Optional" in src(x.annotation)]
    opt += [x for x, d in zip(a.kwonlyargs, a.kw_defaults) if isinstance(d, ast.Constant) and d.value is None and x.annotation is not None and "Optional" in src(x.annotation)]
    for p_ in opt:
        nm = p_.arg
        bad = None
        for n in cfg.nodes:
            if n.ast is None or n.kind not in ("stmt", "test"):
                continue
            root = n.ast.test if n.kind == "test" and hasattr(n.ast, "test") else n.ast
            for x in ast.walk(root):
                deref = (isinstance(x, (ast.Attribute, ast.Subscript)) and isinstance(x.value, ast.Name) and x.value.id == nm) or \
                    (isinstance(x, ast.keyword) and x.arg is None and isinstance(x.value, ast.Name) and x.value.id == nm) or \
                    (isinstance(x, ast.Call) and isinstance(x.func, ast.Name) and x.func.id == nm)
                if not deref:
                    continue
                d = (rd.get(n.id) or {}).get(nm, frozenset())
                if cfg.entry.id not in d:
                    continue
                guarded = any(nm in _n(t) for t, pol in known_atoms(cfg, n.id)) or f"{nm}isNone" in _n(root) or f"{nm}isnotNone" in _n(root)
                if not guarded and bad is None:
                    bad = x
        ctx.check("R20.2", f"{fi.key}::optional argument `{nm}` is defaulted or tested before use", bad is None,
                  None if bad is None else f"`{short(bad)}` is reached with {nm}=None (its documented default)", fi, bad)
    # ---------------------------------------------------------------- classic curvature
    wf = m.func(WFC, "WienerFilterCurvature")
    ctx.saw_func(wf)
    ctx.rule("R20.3", "classic WienerFilterCurvature = R^dagger N^-1 R + S^-1 (as a plain sum, or as a sampling-enabled pair), made "
                      "invertible with S^-1 as preconditioner", floor=3)
    Rn, Nn, Sn = wf.params()[:3]
    c2 = cfg_of(wf)
    r2 = c2.reaching_defs(wf.params())
    rets = [n for n in c2.nodes if n.kind == "stmt" and isinstance(n.ast, ast.Return)]
    if len(rets) != 1:
        ctx.und("R20.3", f"{wf.key}::return", f"{len(rets)} returns", wf)
        return
    e = rets[0].ast.value
    okr = isinstance(e, ast.Call) and call_name(e) == "InversionEnabler" and len(e.args) == 3
    Mdef = f"SandwichOperator.make({Rn},{Nn}.inverse)"
    Sinv = f"{Sn}.inverse"
    if okr:
        pre = _n(inline_at(c2, r2, rets[0].id, e.args[2], depth=2))
        ctx.check("R20.3", f"{wf.key}::preconditioner of the inversion is S^-1", pre == Sinv, pre, wf)
        opn = e.args[0]
        alts = []
        if isinstance(opn, ast.Name):
            for d in sorted((r2.get(rets[0].id) or {}).get(opn.id, ())):
                dn = c2.nodes[d]
                alts.append(_n(inline_at(c2, r2, dn.id, dn.ast.value, depth=2)))
        want_sum = (f"{Mdef}+{Sinv}", f"{Sinv}+{Mdef}")
        ok_sum = any(a_ in want_sum for a_ in alts)
        ics = wf.params()[4] if len(wf.params()) > 4 else "iteration_controller_sampling"
        ok_se = any(a_ == f"SamplingEnabler({Mdef},{Sinv},{ics},{Sinv})" for a_ in alts) and _n(e.args[1]) == wf.params()[3]
        ctx.check("R20.3", f"{wf.key}::curvature = R^dagger N^-1 R + S^-1", ok_sum and len(alts) == 2, str(alts), wf)
        ctx.check("R20.3", f"{wf.key}::sampling variant pairs the same likelihood and prior parts, samples with the SAMPLING controller, inverts with the inversion controller", ok_se, str(alts), wf)
    else:
        ctx.und("R20.3", f"{wf.key}::InversionEnabler(op, controller, preconditioner)", src(e), wf)


_run_c20c = run


def run(ctx):  # noqa: F811
    _run_c20c(ctx)
    from .refusal import refusal_rule
    refusal_rule(ctx, "R20.4", ["nifty.re.evi"], "the Wiener-filter entry point", only={"wiener_filter_posterior"}, floor=1)


_run_c20d = run


def run(ctx):  # noqa: F811
    _run_c20d(ctx)
    from .alias import alias
    from . import c15, c19
    # MAP / MGVI use the Hamiltonian's curvature (shared with C19); the eager and the compiled CG behind every solve agree (shared with C15)
    alias(ctx, c19.r19_3, {"R19.3": "R20.5"}, "shared with C19", ctx.model)
    alias(ctx, c15._run_c15b, {"R15.1": "R20.6"}, "shared with C15")
